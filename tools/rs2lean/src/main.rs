//! rs2lean: translate a small, explicitly listed set of functions of /repo/src/*.rs into pure Lean 4
//! definitions (`SmVerif/Generated/Rs*.lean`), so that theorems can be stated about what the Rust source
//! says *now*.  The supported subset and the translation rules are described in
//! /verif/lean/SmVerif/Rs/Prelude.lean and DESIGN.md section 13; anything outside the subset is an error
//! (exit status 2, message `unsupported: …`): the caller then records that the translation tie is lost for
//! that function and falls back to the differential correspondence alone.
//!
//! usage: rs2lean <repo-src-dir> <out-dir>
mod ty;
mod tr;
mod targets;

use std::fs;
use std::path::Path;

fn main() {
    let args: Vec<String> = std::env::args().collect();
    if args.len() < 3 {
        eprintln!("usage: rs2lean <repo-src-dir> <out-dir>");
        std::process::exit(64);
    }
    let src = Path::new(&args[1]);
    let out = Path::new(&args[2]);
    fs::create_dir_all(out).unwrap();
    let mut failed = 0;
    let mut report = Vec::new();
    let mut g = tr::Global { externs: vec![], enums: Default::default(), packed: vec![], structs: Default::default(), fns: Default::default(), consts: Default::default(), ns: String::new(), opaques: vec![], getters: Default::default(), derefs: Default::default() };
    for unit in targets::units() {
        match tr::translate_unit(src, &unit, &mut g) {
            Ok(text) => {
                let path = out.join(format!("{}.lean", unit.module));
                let old = fs::read_to_string(&path).unwrap_or_default();
                if old != text {
                    fs::write(&path, &text).unwrap();
                }
                report.push(format!("ok {} {}", unit.module, unit.fns.iter().map(|f| f.rust_name()).collect::<Vec<_>>().join(",")));
            }
            Err(e) => {
                failed += 1;
                report.push(format!("FAILED {} {}", unit.module, e.replace('\n', " ")));
            }
        }
    }
    for l in &report {
        println!("{}", l);
    }
    std::process::exit(if failed > 0 { 2 } else { 0 });
}
