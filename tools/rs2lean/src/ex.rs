// expressions (included into tr.rs)

fn path_last(p: &syn::Path) -> String {
    p.segments.last().map(|s| s.ident.to_string()).unwrap_or_default()
}

fn path_text(p: &syn::Path) -> String {
    p.segments.iter().map(|s| s.ident.to_string()).collect::<Vec<_>>().join("::")
}

impl<'g> FnCx<'g> {
    fn lit(&mut self, l: &syn::Lit, expect: Option<&Ty>, sp: proc_macro2::Span) -> R<Val> {
        match l {
            syn::Lit::Int(i) => {
                let ty = if !i.suffix().is_empty() {
                    Ty::Int(IntTy::parse(i.suffix()).ok_or(format!("unsupported: literal suffix {}", i.suffix()))?)
                } else {
                    match expect.map(|t| self.u.resolve(t)) {
                        Some(t) if t.is_int() => t,
                        _ => self.u.fresh(),
                    }
                };
                Ok(Val::pure(i.base10_digits().to_string(), ty))
            }
            syn::Lit::Bool(b) => Ok(Val { steps: vec![], atom: b.value.to_string(), prop: Some(if b.value { "True".into() } else { "False".into() }), ty: Ty::Bool }),
            syn::Lit::Byte(b) => Ok(Val::pure(b.value().to_string(), Ty::u8())),
            syn::Lit::Char(c) => Ok(Val::pure((c.value() as u32).to_string(), Ty::Char)),
            syn::Lit::Str(s) => Ok(Val::pure(format!("[{}]", s.value().bytes().map(|b| b.to_string()).collect::<Vec<_>>().join(", ")), Ty::Str)),
            syn::Lit::ByteStr(s) => Ok(Val::pure(format!("[{}]", s.value().iter().map(|b| b.to_string()).collect::<Vec<_>>().join(", ")), Ty::bytes())),
            _ => unsupported("literal", sp),
        }
    }

    /// name a compound atom so that it is evaluated once
    fn name_it(&mut self, v: Val) -> Val {
        if v.atom.chars().all(|c| c.is_alphanumeric() || c == '_' || c == '.') {
            return v;
        }
        let t = self.fresh_tmp();
        let mut steps = v.steps;
        steps.push(Step::Let(t.clone(), v.atom));
        Val { steps, atom: t, prop: None, ty: v.ty }
    }

    pub fn expr(&mut self, e: &syn::Expr, expect: Option<&Ty>) -> R<Val> {
        match e {
            syn::Expr::Paren(p) => self.expr(&p.expr, expect),
            syn::Expr::Group(g) => self.expr(&g.expr, expect),
            syn::Expr::Reference(r) => self.expr(&r.expr, expect),
            syn::Expr::Lit(l) => self.lit(&l.lit, expect, e.span()),
            syn::Expr::Path(p) => self.path_expr(p, expect),
            syn::Expr::Unary(u) => match u.op {
                syn::UnOp::Deref(_) => {
                    // `*map.entry(k).or_insert(v)`: the value stored under k, inserting v first when k is absent
                    if let syn::Expr::MethodCall(oi) = strip_paren(&u.expr) {
                        if oi.method == "or_insert" && oi.args.len() == 1 {
                            if let syn::Expr::MethodCall(en) = strip_paren(&oi.receiver) {
                                if en.method == "entry" && en.args.len() == 1 {
                                    let (cur, pty, setter) = self.place(&en.receiver)?;
                                    let (kt, vt) = match self.u.resolve(&pty) {
                                        Ty::Map(k, v) => (*k, *v),
                                        _ => return unsupported("entry() on a non-map", e.span()),
                                    };
                                    let key = self.expr(&en.args[0], Some(&kt))?;
                                    self.u.unify(&kt, &key.ty)?;
                                    let val = self.expr(&oi.args[0], Some(&vt))?;
                                    self.u.unify(&vt, &val.ty)?;
                                    let mut steps = key.steps.clone();
                                    steps.extend(val.steps.clone());
                                    let tmp = self.fresh_tmp();
                                    steps.push(Step::Let(tmp.clone(), format!("rsEntryOrInsert {} {} {}", paren_atom(&cur), paren_atom(&key.atom), paren_atom(&val.atom))));
                                    steps.push(setter(&format!("{}.2", tmp)));
                                    return Ok(Val { steps, atom: format!("{}.1", tmp), prop: None, ty: vt });
                                }
                            }
                        }
                    }
                    self.expr(&u.expr, expect)
                }
                syn::UnOp::Neg(_) => {
                    let v = self.expr(&u.expr, expect)?;
                    let ty = self.u.resolve(&v.ty);
                    let mut steps = v.steps.clone();
                    match &ty {
                        Ty::Int(it) if it.signed() => {
                            // a literal operand folds into a negative literal
                            if v.steps.is_empty() && v.atom.chars().all(|c| c.is_ascii_digit()) {
                                return Ok(Val::pure(format!("(-{})", v.atom), ty));
                            }
                            steps.push(Step::Guard(format!("{} ≠ {}", v.atom, it.min()), ".panic".into()));
                            Ok(Val { steps, atom: format!("(-{})", v.atom), prop: None, ty })
                        }
                        Ty::IVar(_) => Ok(Val { steps, atom: format!("(-{})", v.atom), prop: None, ty }),
                        _ => unsupported("negation of a non-signed value", e.span()),
                    }
                }
                syn::UnOp::Not(_) => {
                    let v = self.expr(&u.expr, expect)?;
                    let ty = self.u.resolve(&v.ty);
                    match &ty {
                        Ty::Bool => Ok(Val { steps: v.steps.clone(), atom: format!("(!{})", v.atom), prop: v.prop.as_ref().map(|p| format!("¬({})", p)), ty }),
                        Ty::Int(it) if !it.signed() => {
                            if v.atom == "0" {
                                return Ok(Val { steps: v.steps, atom: it.max(), prop: None, ty });
                            }
                            Ok(Val { steps: v.steps.clone(), atom: format!("(notU {} {})", it.bits(), v.atom), prop: None, ty })
                        }
                        Ty::IVar(_) => {
                            // `!0` whose type is fixed later: emitted in pass 2 with the resolved type
                            Ok(Val { steps: v.steps.clone(), atom: format!("(notU 32 {})", v.atom), prop: None, ty })
                        }
                        _ => unsupported("! on this type", e.span()),
                    }
                }
                _ => unsupported("unary operator", e.span()),
            },
            syn::Expr::Binary(b) => {
                if assign_op(&b.op).is_some() {
                    return unsupported("compound assignment used as a value", e.span());
                }
                use syn::BinOp::*;
                let cmp = matches!(b.op, Eq(_) | Ne(_) | Lt(_) | Le(_) | Gt(_) | Ge(_));
                let logic = matches!(b.op, And(_) | Or(_));
                let l = self.expr(&b.left, if cmp { None } else if logic { Some(&Ty::Bool) } else { expect })?;
                let lt = self.u.resolve(&l.ty);
                let r = self.expr(&b.right, if is_shift(&b.op) { None } else { Some(&lt) })?;
                if logic && !r.steps.is_empty() {
                    return unsupported("short-circuit operator with a fallible right operand used as a value", e.span());
                }
                self.binop(&b.op, l, r, e.span())
            }
            syn::Expr::Cast(c) => {
                let target = rust_ty(&c.ty)?;
                let v = self.expr(&c.expr, None)?;
                self.cast(v, &target, e.span())
            }
            syn::Expr::Index(i) => self.index_expr(i),
            syn::Expr::Field(f) => self.field_expr(f),
            syn::Expr::Tuple(t) => {
                let mut steps = vec![];
                let mut atoms = vec![];
                let mut tys = vec![];
                let exps: Vec<Option<Ty>> = match expect.map(|t| self.u.resolve(t)) {
                    Some(Ty::Tuple(v)) if v.len() == t.elems.len() => v.into_iter().map(Some).collect(),
                    _ => vec![None; t.elems.len()],
                };
                for (x, ex) in t.elems.iter().zip(exps.iter()) {
                    let v = self.expr(x, ex.as_ref())?;
                    steps.extend(v.steps);
                    atoms.push(v.atom);
                    tys.push(v.ty);
                }
                if atoms.is_empty() {
                    return Ok(Val::pure("()", Ty::Unit));
                }
                Ok(Val { steps, atom: format!("({})", atoms.join(", ")), prop: None, ty: Ty::Tuple(tys) })
            }
            syn::Expr::Struct(st) => self.struct_lit(st),
            syn::Expr::Call(c) => self.call_expr(c, expect),
            syn::Expr::MethodCall(m) => self.method_expr(m, expect),
            syn::Expr::Try(t) => self.try_expr(t),
            syn::Expr::Macro(m) => {
                let inner = self.macro_expr(&m.mac)?;
                self.expr(&inner, expect)
            }
            syn::Expr::If(_) | syn::Expr::Match(_) | syn::Expr::Block(_) => {
                // a control-flow construct used as a value: compile its branches to values and join
                let ret_is_res = matches!(self.u.resolve(&self.ret.clone()), Ty::Res(_)) && !self.in_loop_fn;
                if has_escape_opt(e, ret_is_res) || self.mutates_state(e) {
                    return unsupported("control flow or mutation inside a construct used as a value", e.span());
                }
                self.value_join(e, expect)
            }
            _ => unsupported(&format!("expression form {:?}", std::mem::discriminant(e)), e.span()),
        }
    }

    /// `if`/`match`/block used as a value whose branches do not leave the function: an expression-level term
    /// `if c {a} else {b}` / `{ e }` whose parts are pure expressions: an expression-level term
    fn pure_value(&mut self, e: &syn::Expr, expect: Option<&Ty>) -> R<Option<Val>> {
        fn tail(b: &syn::Block) -> Option<&syn::Expr> {
            match b.stmts.as_slice() {
                [syn::Stmt::Expr(e, None)] => Some(e),
                _ => None,
            }
        }
        match strip_paren(e) {
            syn::Expr::Block(b) if b.label.is_none() => match tail(&b.block) {
                Some(t) => {
                    let save = (self.tmp, self.scopes.clone());
                    match self.expr(t, expect) {
                        Ok(v) if v.steps.is_empty() => Ok(Some(v)),
                        _ => {
                            self.tmp = save.0;
                            self.scopes = save.1;
                            Ok(None)
                        }
                    }
                }
                None => Ok(None),
            },
            syn::Expr::If(i) if !matches!(&*i.cond, syn::Expr::Let(_)) => {
                let (t, el) = match (tail(&i.then_branch), &i.else_branch) {
                    (Some(t), Some((_, el))) => (t, &**el),
                    _ => return Ok(None),
                };
                let save = (self.tmp, self.scopes.clone());
                let c = self.expr(&i.cond, Some(&Ty::Bool));
                let a = self.expr(t, expect);
                let b = self.expr(el, expect);
                match (c, a, b) {
                    (Ok(c), Ok(a), Ok(b)) if c.steps.is_empty() && a.steps.is_empty() && b.steps.is_empty() => {
                        let ty = self.u.unify(&a.ty, &b.ty)?;
                        let p = c.prop.clone().unwrap_or_else(|| format!("{} = true", c.atom));
                        Ok(Some(Val { steps: vec![], atom: format!("(if {} then {} else {})", p, a.atom, b.atom), prop: None, ty }))
                    }
                    _ => {
                        self.tmp = save.0;
                        self.scopes = save.1;
                        Ok(None)
                    }
                }
            }
            _ => Ok(None),
        }
    }

    pub fn value_join(&mut self, e: &syn::Expr, expect: Option<&Ty>) -> R<Val> {
        if let Some(v) = self.pure_value(e, expect)? {
            return Ok(v);
        }
        // each branch is compiled with a continuation that returns its value in the Res monad,
        // and the whole construct is bound once.
        let result_ty = std::cell::RefCell::new(None::<Ty>);
        let text = self.expr_k(e, expect, &|cx, v| {
            let v = v.ok_or("unsupported: branch without a value in value position")?;
            let mut slot = result_ty.borrow_mut();
            let t = match &*slot {
                Some(t) => cx.u.unify(t, &v.ty)?,
                None => v.ty.clone(),
            };
            *slot = Some(t);
            Ok(wrap(&v.steps, format!("Except.ok {}", v.atom)))
        })?;
        let ty = result_ty.borrow().clone().ok_or("unsupported: value construct without a value")?;
        let t = self.fresh_tmp();
        // the ascription gives the branches' `.error e` an expected type (it leaves no trace in the term)
        let rt = self.u.resolve(&ty);
        Ok(Val { steps: vec![Step::BindOk(t.clone(), format!("(({}) : Res {})", text, paren_atom(&lean_ty(&rt))))], atom: t, prop: None, ty })
    }

    fn path_expr(&mut self, p: &syn::ExprPath, expect: Option<&Ty>) -> R<Val> {
        let full = path_text(&p.path);
        if p.path.segments.len() == 1 {
            let n = p.path.segments[0].ident.to_string();
            if let Some(v) = self.lookup(&n) {
                let ty = self.u.resolve(&v.ty);
                let prop = if ty == Ty::Bool { Some(format!("{} = true", v.lean)) } else { None };
                return Ok(Val { steps: vec![], atom: v.lean, prop, ty });
            }
            if let Some((ty, lean)) = self.g.consts.get(&n) {
                return Ok(Val::pure(lean.clone(), ty.clone()));
            }
            if n == "None" {
                let inner = match expect.map(|t| self.u.resolve(t)) {
                    Some(Ty::Opt(t)) => *t,
                    _ => self.u.fresh_any(),
                };
                return Ok(Val::pure("none", Ty::opt(inner)));
            }
        }
        // unit variants of translated enums
        if p.path.segments.len() == 2 {
            let en = p.path.segments[0].ident.to_string();
            if let Some(vars) = self.g.enums.get(&en) {
                let v = path_last(&p.path);
                if vars.iter().any(|(n, tys)| *n == v && tys.is_empty()) {
                    return Ok(Val::pure(format!("{}.{}", en, sanitize(&v)), Ty::Struct(en)));
                }
            }
        }
        // a one-expression getter used as a function value: `SourceMapSection::get_offset`
        if p.path.segments.len() == 2 {
            let key = format!("{}::{}", p.path.segments[0].ident, p.path.segments[1].ident);
            if let Some((body, sty, _)) = self.g.getters.get(&key).cloned() {
                self.scopes.push(HashMap::new());
                let l = self.declare("self", sty.clone());
                let b = self.expr(&body, None);
                self.scopes.pop();
                let b = b?;
                if !b.steps.is_empty() {
                    return unsupported("getter with a fallible body used as a function value", p.span());
                }
                return Ok(Val { steps: vec![], atom: format!("(fun {} => {})", l, paren(&b.atom)), prop: None, ty: Ty::Fun(vec![sty], Box::new(b.ty)) });
            }
        }
        // unit variants of the crate's Error
        if p.path.segments.len() == 2 && (p.path.segments[0].ident == "Error") {
            if let Some(c) = err_variant(&path_last(&p.path)) {
                return Ok(Val::pure(format!("Err{}", c), Ty::Error));
            }
        }
        // associated integer constants
        if p.path.segments.len() == 2 {
            if let Some(it) = IntTy::parse(&p.path.segments[0].ident.to_string()) {
                match path_last(&p.path).as_str() {
                    "MAX" => return Ok(Val::pure(it.max(), Ty::Int(it))),
                    "MIN" => return Ok(Val::pure(it.min(), Ty::Int(it))),
                    _ => {}
                }
            }
        }
        unsupported(&format!("path {}", full), p.span())
    }

    pub fn binop(&mut self, op: &syn::BinOp, l: Val, r: Val, sp: proc_macro2::Span) -> R<Val> {
        use syn::BinOp::*;
        let mut steps = l.steps.clone();
        steps.extend(r.steps.clone());
        let (a, b) = (l.atom.clone(), r.atom.clone());
        match op {
            And(_) | Or(_) => {
                self.u.unify(&l.ty, &Ty::Bool)?;
                self.u.unify(&r.ty, &Ty::Bool)?;
                let (sym, psym) = if matches!(op, And(_)) { ("&&", "∧") } else { ("||", "∨") };
                let pl = l.prop.clone().unwrap_or(format!("{} = true", a));
                let pr = r.prop.clone().unwrap_or(format!("{} = true", b));
                Ok(Val { steps, atom: format!("({} {} {})", a, sym, b), prop: Some(format!("({}) {} ({})", pl, psym, pr)), ty: Ty::Bool })
            }
            Eq(_) | Ne(_) | Lt(_) | Le(_) | Gt(_) | Ge(_) => {
                let t = self.u.unify(&l.ty, &r.ty)?;
                // a struct compared with `==`: its own `PartialEq::eq` when it has one (translated), else field-wise
                let custom = match &t {
                    Ty::Struct(n) => self.g.fns.get(&format!("{}::eq", n)).cloned().map(|s| (s, false)),
                    Ty::Opt(inner) => match &**inner {
                        Ty::Struct(n) => self.g.fns.get(&format!("{}::eq", n)).cloned().map(|s| (s, true)),
                        _ => None,
                    },
                    _ => None,
                };
                if let (Some((sig, opt)), true) = (custom, matches!(op, Eq(_) | Ne(_))) {
                    let tmp = self.fresh_tmp();
                    let call = if opt {
                        format!("(match {}, {} with | some x_, some y_ => {} x_ y_ | none, none => .ok true | _, _ => .ok false)", paren_atom(&a), paren_atom(&b), sig.lean)
                    } else {
                        format!("{} {} {}", sig.lean, paren_atom(&a), paren_atom(&b))
                    };
                    steps.push(Step::BindOk(tmp.clone(), call));
                    let (atom, prop) = if matches!(op, Eq(_)) { (tmp.clone(), format!("{} = true", tmp)) } else { (format!("(!{})", tmp), format!("{} = false", tmp)) };
                    return Ok(Val { steps, atom, prop: Some(prop), ty: Ty::Bool });
                }
                let sym = match op {
                    Eq(_) => "=",
                    Ne(_) => "≠",
                    Lt(_) => "<",
                    Le(_) => "≤",
                    Gt(_) => ">",
                    _ => "≥",
                };
                if let (Ty::Tuple(ts), false) = (&t, matches!(op, Eq(_) | Ne(_))) {
                    // (u32, u32) ordering: lexicographic
                    if ts.len() != 2 || !ts.iter().all(|x| matches!(x, Ty::Int(it) if !it.signed())) {
                        return unsupported("ordering comparison on this tuple type", sp);
                    }
                    let atom = match op {
                        Lt(_) => format!("(ltPair {} {})", paren_atom(&a), paren_atom(&b)),
                        Le(_) => format!("(!ltPair {} {})", paren_atom(&b), paren_atom(&a)),
                        Gt(_) => format!("(ltPair {} {})", paren_atom(&b), paren_atom(&a)),
                        _ => format!("(!ltPair {} {})", paren_atom(&a), paren_atom(&b)),
                    };
                    return Ok(Val { steps, atom, prop: None, ty: Ty::Bool });
                }
                if let (Ty::Opt(inner), false) = (&t, matches!(op, Eq(_) | Ne(_))) {
                    // Option<T: Ord>: None is smaller than every Some
                    if !matches!(**inner, Ty::Int(_) | Ty::IVar(_)) {
                        return unsupported("ordering comparison on Option of a non-integer", sp);
                    }
                    let (x, y, strict) = match op {
                        Lt(_) => (a.clone(), b.clone(), true),
                        Le(_) => (a.clone(), b.clone(), false),
                        Gt(_) => (b.clone(), a.clone(), true),
                        _ => (b.clone(), a.clone(), false),
                    };
                    let atom = format!("(rsOptLt {} {} {})", if strict { "true" } else { "false" }, paren_atom(&x), paren_atom(&y));
                    return Ok(Val { steps, atom, prop: None, ty: Ty::Bool });
                }
                if !(t.is_int() || t == Ty::Char || t == Ty::Bool || matches!(op, Eq(_) | Ne(_))) {
                    return unsupported("ordering comparison on a non-integer", sp);
                }
                let p = format!("{} {} {}", a, sym, b);
                Ok(Val { steps, atom: format!("(decide ({}))", p), prop: Some(p), ty: Ty::Bool })
            }
            Shl(_) | Shr(_) => {
                let t = self.u.resolve(&l.ty);
                // the shift amount is any integer type; a literal defaults through unification with nothing: fine
                let it = match &t {
                    Ty::Int(it) => *it,
                    Ty::IVar(_) => IntTy::I32,
                    _ => return unsupported("shift of a non-integer", sp),
                };
                let bits = it.bits();
                // literal amounts below the width need no guard
                let amount_ok = b.parse::<u32>().map(|n| n < bits).unwrap_or(false);
                if !amount_ok {
                    let cond = if self.is_signed_ty(&r.ty) { format!("0 ≤ {} ∧ {} < {}", b, b, bits) } else { format!("{} < {}", b, bits) };
                    steps.push(Step::Guard(cond, ".panic".into()));
                }
                let amt = if b.chars().all(|c| c.is_ascii_digit()) { b.clone() } else if self.is_signed_ty(&r.ty) { format!("{}.toNat", paren_atom(&b)) } else { b.clone() };
                let atom = if matches!(op, Shl(_)) {
                    if it.signed() {
                        format!("(wrapS {} ({} * 2 ^ {}))", bits, a, amt)
                    } else {
                        format!("(({} * 2 ^ {}) % {})", a, amt, it.modulus())
                    }
                } else {
                    format!("({} / 2 ^ {})", a, amt)
                };
                Ok(Val { steps, atom, prop: None, ty: t })
            }
            BitAnd(_) | BitOr(_) | BitXor(_) => {
                let t = self.u.unify(&l.ty, &r.ty)?;
                if t == Ty::Bool {
                    let sym = match op {
                        BitAnd(_) => "&&",
                        BitOr(_) => "||",
                        _ => "!=",
                    };
                    return Ok(Val { steps, atom: format!("({} {} {})", a, sym, b), prop: None, ty: Ty::Bool });
                }
                let it = match &t {
                    Ty::Int(it) => *it,
                    Ty::IVar(_) => IntTy::I32,
                    _ => return unsupported("bit operation on a non-integer", sp),
                };
                let atom = if it.signed() {
                    let f = match op {
                        BitAnd(_) => "andS",
                        BitOr(_) => "orS",
                        _ => "xorS",
                    };
                    format!("({} {} {} {})", f, it.bits(), a, b)
                } else {
                    let sym = match op {
                        BitAnd(_) => "&&&",
                        BitOr(_) => "|||",
                        _ => "^^^",
                    };
                    format!("({} {} {})", a, sym, b)
                };
                Ok(Val { steps, atom, prop: None, ty: t })
            }
            Add(_) | Sub(_) | Mul(_) | Div(_) | Rem(_) => {
                let t = self.u.unify(&l.ty, &r.ty)?;
                let it = match &t {
                    Ty::Int(it) => *it,
                    Ty::IVar(_) => IntTy::I32,
                    _ => return unsupported("arithmetic on a non-integer", sp),
                };
                let tmp = self.fresh_tmp();
                match op {
                    Add(_) | Mul(_) => {
                        let sym = if matches!(op, Add(_)) { "+" } else { "*" };
                        steps.push(Step::Let(tmp.clone(), format!("{} {} {}", a, sym, b)));
                        if it.signed() {
                            steps.push(Step::Guard(format!("{} ≤ {} ∧ {} ≤ {}", it.min(), tmp, tmp, it.max()), ".panic".into()));
                        } else {
                            steps.push(Step::Guard(format!("{} ≤ {}", tmp, it.max()), ".panic".into()));
                        }
                    }
                    Sub(_) => {
                        if it.signed() {
                            steps.push(Step::Let(tmp.clone(), format!("{} - {}", a, b)));
                            steps.push(Step::Guard(format!("{} ≤ {} ∧ {} ≤ {}", it.min(), tmp, tmp, it.max()), ".panic".into()));
                        } else {
                            steps.push(Step::Guard(format!("{} ≤ {}", b, a), ".panic".into()));
                            steps.push(Step::Let(tmp.clone(), format!("{} - {}", a, b)));
                        }
                    }
                    Div(_) | Rem(_) => {
                        if !b.parse::<u128>().map(|n| n != 0).unwrap_or(false) {
                            steps.push(Step::Guard(format!("{} ≠ 0", b), ".panic".into()));
                        }
                        if it.signed() {
                            steps.push(Step::Guard(format!("¬({} = {} ∧ {} = -1)", a, it.min(), b), ".panic".into()));
                            let f = if matches!(op, Div(_)) { "Int.tdiv" } else { "Int.tmod" };
                            steps.push(Step::Let(tmp.clone(), format!("{} {} {}", f, a, b)));
                        } else {
                            let sym = if matches!(op, Div(_)) { "/" } else { "%" };
                            steps.push(Step::Let(tmp.clone(), format!("{} {} {}", a, sym, b)));
                        }
                    }
                    _ => unreachable!(),
                }
                Ok(Val { steps, atom: tmp, prop: None, ty: t })
            }
            _ => unsupported("binary operator", sp),
        }
    }

    /// the strict order of a key type: the `lt_K` parameter of a generic function, or the built-in one
    fn lt_for(&mut self, t: &Ty, sp: proc_macro2::Span) -> R<String> {
        match self.u.resolve(t) {
            Ty::Param(n) => Ok(format!("lt_{}", n)),
            Ty::Int(it) if !it.signed() => Ok("(fun a b => decide (a < b))".into()),
            Ty::Tuple(v) if v.len() == 2 && v.iter().all(|x| matches!(x, Ty::Int(it) if !it.signed())) => Ok("ltPair".into()),
            other => unsupported(&format!("ordering on {:?}", other), sp),
        }
    }

    fn is_signed_ty(&mut self, t: &Ty) -> bool {
        matches!(self.u.resolve(t), Ty::Int(it) if it.signed())
    }

    fn cast(&mut self, v: Val, target: &Ty, sp: proc_macro2::Span) -> R<Val> {
        let from = self.u.resolve(&v.ty);
        let a = v.atom.clone();
        let atom = match (&from, target) {
            (Ty::Int(f), Ty::Int(t)) => int_cast(*f, *t, &a),
            (Ty::IVar(_), Ty::Int(t)) => {
                // an untyped literal takes the target type
                self.u.unify(&from, &Ty::Int(*t))?;
                a
            }
            (Ty::Int(f), Ty::Char) if *f == IntTy::U8 => a,
            (Ty::Char, Ty::Int(t)) => int_cast(IntTy::U32, *t, &a),
            (Ty::Bool, Ty::Int(_)) => format!("(if {} then 1 else 0)", a),
            _ => return unsupported(&format!("cast {:?} as {:?}", from, target), sp),
        };
        Ok(Val { steps: v.steps, atom, prop: None, ty: target.clone() })
    }

    fn index_expr(&mut self, i: &syn::ExprIndex) -> R<Val> {
        let base = self.expr(&i.expr, None)?;
        let bty = self.u.resolve(&base.ty);
        let elem = match &bty {
            Ty::List(t) => (**t).clone(),
            Ty::Str => Ty::u8(),
            _ => return unsupported("indexing a non-list", i.span()),
        };
        let mut steps = base.steps.clone();
        if let syn::Expr::Range(r) = strip_paren(&i.index) {
            if r.start.is_none() && r.end.is_none() {
                // `x[..]`: the whole thing
                return Ok(Val { steps, atom: base.atom, prop: None, ty: bty });
            }
            // slicing
            let lo = match &r.start {
                Some(e) => {
                    let v = self.expr(e, Some(&Ty::usize()))?;
                    self.u.unify(&v.ty, &Ty::usize())?;
                    steps.extend(v.steps);
                    v.atom
                }
                None => "0".into(),
            };
            let hi = match &r.end {
                Some(e) => {
                    let v = self.expr(e, Some(&Ty::usize()))?;
                    self.u.unify(&v.ty, &Ty::usize())?;
                    steps.extend(v.steps);
                    match r.limits {
                        syn::RangeLimits::HalfOpen(_) => v.atom,
                        syn::RangeLimits::Closed(_) => format!("({} + 1)", v.atom),
                    }
                }
                None => format!("{}.length", paren_atom(&base.atom)),
            };
            let t = self.fresh_tmp();
            // a `str` can only be sliced on character boundaries (panic otherwise)
            let f = if bty == Ty::Str { "rsStrSlice" } else { "rsSlice" };
            steps.push(Step::BindOk(t.clone(), format!("{} {} {} {}", f, paren_atom(&base.atom), paren_atom(&lo), paren_atom(&hi))));
            return Ok(Val { steps, atom: t, prop: None, ty: bty });
        }
        let idx = self.expr(&i.index, Some(&Ty::usize()))?;
        self.u.unify(&idx.ty, &Ty::usize())?;
        steps.extend(idx.steps);
        let t = self.fresh_tmp();
        steps.push(Step::BindOk(t.clone(), format!("rsIndex {} {}", paren_atom(&base.atom), paren_atom(&idx.atom))));
        Ok(Val { steps, atom: t, prop: None, ty: elem })
    }

    fn field_expr(&mut self, f: &syn::ExprField) -> R<Val> {
        let base = self.expr(&f.base, None)?;
        let bty = self.u.resolve(&base.ty);
        match (&bty, &f.member) {
            (Ty::Tuple(ts), syn::Member::Unnamed(ix)) => {
                let n = ix.index as usize;
                if n >= ts.len() {
                    return unsupported("tuple index", f.span());
                }
                // right-nested pairs in Lean
                let mut atom = base.atom.clone();
                for _ in 0..n {
                    atom = format!("{}.2", paren_atom(&atom));
                }
                if n + 1 < ts.len() {
                    atom = format!("{}.1", paren_atom(&atom));
                }
                Ok(Val { steps: base.steps, atom, prop: None, ty: ts[n].clone() })
            }
            (Ty::Struct(sn), syn::Member::Named(id)) => {
                let fname = id.to_string();
                let fields = self.g.structs.get(sn).cloned().unwrap_or_default();
                match fields.iter().find(|(n, _)| *n == fname) {
                    Some((_, t)) => {
                        let prop = if *t == Ty::Bool { Some(format!("{}.{} = true", paren_atom(&base.atom), sanitize(&fname))) } else { None };
                        Ok(Val { steps: base.steps, atom: format!("{}.{}", paren_atom(&base.atom), sanitize(&fname)), prop, ty: t.clone() })
                    }
                    None => unsupported(&format!("field {}.{} (not kept in the translation)", sn, fname), f.span()),
                }
            }
            _ => unsupported("field access", f.span()),
        }
    }

    fn call_expr(&mut self, c: &syn::ExprCall, expect: Option<&Ty>) -> R<Val> {
        let p = match &*c.func {
            syn::Expr::Path(p) => &p.path,
            _ => return unsupported("call of a non-path", c.span()),
        };
        let full = path_text(p);
        let last = path_last(p);
        let args: Vec<&syn::Expr> = c.args.iter().collect();
        // a closure-typed parameter applied to arguments
        if p.segments.len() == 1 {
            if let Some(var) = self.lookup(&last) {
                if let Ty::Fun(atys, rty) = self.u.resolve(&var.ty) {
                    if atys.len() != args.len() {
                        return unsupported("closure call arity", c.span());
                    }
                    let mut steps = vec![];
                    let mut atoms = vec![];
                    for (a, t) in args.iter().zip(atys.iter()) {
                        let v = self.expr(a, Some(t))?;
                        self.u.unify(t, &v.ty)?;
                        steps.extend(v.steps);
                        atoms.push(paren_atom(&v.atom));
                    }
                    return Ok(Val { steps, atom: format!("({} {})", var.lean, atoms.join(" ")), prop: None, ty: *rty });
                }
            }
        }
        // constructors
        match (full.as_str(), args.len()) {
            ("Some", 1) => {
                let inner = match expect.map(|t| self.u.resolve(t)) {
                    Some(Ty::Opt(t)) => Some(*t),
                    _ => None,
                };
                let v = self.expr(args[0], inner.as_ref())?;
                return Ok(Val { steps: v.steps, atom: format!("(some {})", v.atom), prop: None, ty: Ty::opt(v.ty) });
            }
            ("Ok", 1) => {
                let inner = match expect.map(|t| self.u.resolve(t)) {
                    Some(Ty::Res(t)) => Some(*t),
                    _ => None,
                };
                let v = self.expr(args[0], inner.as_ref())?;
                return Ok(Val { steps: v.steps, atom: format!("(Except.ok {})", v.atom), prop: None, ty: Ty::res(v.ty) });
            }
            ("Err", 1) => {
                let v = self.expr(args[0], Some(&Ty::Error))?;
                self.u.unify(&v.ty, &Ty::Error)?;
                let inner = match expect.map(|t| self.u.resolve(t)) {
                    Some(Ty::Res(t)) => *t,
                    _ => Ty::Never,
                };
                return Ok(Val { steps: v.steps, atom: format!("(Except.error {})", v.atom), prop: None, ty: Ty::res(inner) });
            }
            ("__rs2lean_panic", 0) => {
                return Ok(Val { steps: vec![Step::Guard("False".into(), ".panic".into())], atom: "default".into(), prop: None, ty: expect.cloned().unwrap_or(Ty::Never) });
            }
            ("io::Error::new", 2) => return Ok(Val::pure("Err.io", Ty::Error)),
            ("std::cmp::min", 2) | ("cmp::min", 2) | ("std::cmp::max", 2) | ("cmp::max", 2) => {
                let x = self.expr(args[0], expect)?;
                let y = self.expr(args[1], Some(&x.ty))?;
                let t = self.u.unify(&x.ty, &y.ty)?;
                let mut steps = x.steps.clone();
                steps.extend(y.steps.clone());
                let is_min = last == "min";
                let (a, b) = (paren_atom(&x.atom), paren_atom(&y.atom));
                // std: min returns the first argument unless it is greater; max returns the second unless the first is greater
                let atom = match &t {
                    Ty::Tuple(ts) if ts.len() == 2 && ts.iter().all(|q| matches!(q, Ty::Int(it) if !it.signed())) => {
                        if is_min { format!("(if ltPair {} {} then {} else {})", b, a, b, a) } else { format!("(if ltPair {} {} then {} else {})", b, a, a, b) }
                    }
                    Ty::Int(_) | Ty::IVar(_) => {
                        if is_min { format!("(if {} < {} then {} else {})", b, a, b, a) } else { format!("(if {} < {} then {} else {})", b, a, a, b) }
                    }
                    _ => return unsupported("min/max on this type", c.span()),
                };
                return Ok(Val { steps, atom, prop: None, ty: t });
            }
            ("std::mem::take", 1) | ("mem::take", 1) => {
                // take(&mut x.f): the old value; the place is left with `Default::default()` (an empty list here)
                let place = match strip_paren(args[0]) {
                    syn::Expr::Reference(r) if r.mutability.is_some() => strip_paren(&r.expr),
                    _ => return unsupported("mem::take of something other than &mut place", c.span()),
                };
                let (cur, ty, set) = self.place(place)?;
                if !matches!(self.u.resolve(&ty), Ty::List(_) | Ty::Str) {
                    return unsupported("mem::take of a non-list", c.span());
                }
                let tmp = self.fresh_tmp();
                let mut steps = vec![Step::Let(tmp.clone(), cur)];
                steps.push(set("[]"));
                return Ok(Val { steps, atom: tmp, prop: None, ty });
            }
            ("std::mem::size_of", 0) | ("mem::size_of", 0) | ("size_of", 0) => {
                // size of a `repr(C, packed)` struct of u32 fields (the only kind translated): 4 bytes per field
                if let syn::PathArguments::AngleBracketed(ab) = &p.segments.last().unwrap().arguments {
                    if let Some(syn::GenericArgument::Type(t)) = ab.args.first() {
                        if let Ty::Struct(n) = rust_ty(t)? {
                            let fields = self.g.structs.get(&n).cloned().unwrap_or_default();
                            if !fields.is_empty() && fields.iter().all(|(_, t)| *t == Ty::Int(IntTy::U32)) && self.g.packed.contains(&n) {
                                return Ok(Val::pure((4 * fields.len()).to_string(), Ty::usize()));
                            }
                        }
                    }
                }
                return unsupported("size_of of this type", c.span());
            }
            ("str::from_utf8", 1) | ("std::str::from_utf8", 1) => {
                let v = self.expr(args[0], Some(&Ty::bytes()))?;
                return Ok(Val { steps: v.steps, atom: format!("(rsFromUtf8 {})", paren_atom(&v.atom)), prop: None, ty: Ty::res(Ty::Str) });
            }
            ("BufReader::new", 1) => return self.expr(args[0], expect),
            ("String::from_utf8", 1) => {
                // only the all-ASCII case is modelled as success (a conservative reading: non-ASCII valid UTF-8
                // would succeed in Rust; the translated callers only ever build ASCII)
                let v = self.expr(args[0], Some(&Ty::Str))?;
                self.u.unify(&v.ty, &Ty::Str)?;
                return Ok(Val { steps: v.steps, atom: format!("(if {}.all (fun b_ => decide (b_ < 128)) then some {} else none)", paren_atom(&v.atom), paren_atom(&v.atom)), prop: None, ty: Ty::opt(Ty::Str) });
            }
            ("Cow::Borrowed", 1) | ("Cow::Owned", 1) => return self.expr(args[0], expect),
            ("__rs2lean_concat", _) => {
                // pieces of a format! string: `Display` of a `&str`/`String` is the string itself
                let mut steps = vec![];
                let mut atoms = vec![];
                for a in &args {
                    let v = self.expr(a, Some(&Ty::Str))?;
                    if self.u.resolve(&v.ty) != Ty::Str {
                        return unsupported("format! of a non-string value", c.span());
                    }
                    steps.extend(v.steps);
                    atoms.push(paren_atom(&v.atom));
                }
                return Ok(Val { steps, atom: format!("({})", atoms.join(" ++ ")), prop: None, ty: Ty::Str });
            }
            ("__rs2lean_vec_repeat", 2) => {
                let v = self.expr(args[0], None)?;
                let n = self.expr(args[1], Some(&Ty::usize()))?;
                self.u.unify(&n.ty, &Ty::usize())?;
                let mut steps = v.steps.clone();
                steps.extend(n.steps.clone());
                let ety = match expect.map(|t| self.u.resolve(t)) {
                    Some(Ty::List(t)) => self.u.unify(&t, &v.ty)?,
                    _ => v.ty.clone(),
                };
                return Ok(Val { steps, atom: format!("(List.replicate {} {})", paren_atom(&n.atom), paren_atom(&v.atom)), prop: None, ty: Ty::list(ety) });
            }
            ("__rs2lean_vec", _) => {
                let el = match expect.map(|t| self.u.resolve(t)) {
                    Some(Ty::List(t)) => Some(*t),
                    _ => None,
                };
                let mut steps = vec![];
                let mut atoms = vec![];
                let mut ety = el.unwrap_or_else(|| self.u.fresh_any());
                for a in &args {
                    let v = self.expr(a, Some(&ety))?;
                    ety = self.u.unify(&ety, &v.ty)?;
                    steps.extend(v.steps);
                    atoms.push(v.atom);
                }
                return Ok(Val { steps, atom: format!("[{}]", atoms.join(", ")), prop: None, ty: Ty::list(ety) });
            }
            ("BitVec::new", 0) => return Ok(Val::pure("[]", Ty::list(Ty::Bool))),
            ("BTreeSet::default", 0) | ("BTreeSet::new", 0) => {
                let ty = match expect.map(|t| self.u.resolve(t)) {
                    Some(t @ Ty::Set(..)) => t,
                    _ => Ty::Set(Box::new(self.u.fresh_any())),
                };
                return Ok(Val::pure("[]", ty));
            }
            ("FxHashMap::default", 0) | ("HashMap::new", 0) | ("HashMap::default", 0) => {
                let ty = match expect.map(|t| self.u.resolve(t)) {
                    Some(t @ Ty::Map(..)) => t,
                    _ => return unsupported("map constructor without a known type", c.span()),
                };
                return Ok(Val::pure("[]", ty));
            }
            // capacity hints are not modelled (the argument is not evaluated)
            ("Vec::new", 0) | ("String::new", 0) | ("Vec::with_capacity", 1) | ("String::with_capacity", 1) => {
                if let syn::PathArguments::AngleBracketed(ab) = &p.segments[0].arguments {
                    if let Some(syn::GenericArgument::Type(t)) = ab.args.first() {
                        return Ok(Val::pure("[]", Ty::list(rust_ty(t)?)));
                    }
                }
                let ty = match expect.map(|t| self.u.resolve(t)) {
                    Some(t @ Ty::List(_)) | Some(t @ Ty::Str) => t,
                    _ => {
                        if full.starts_with("String") {
                            Ty::Str
                        } else {
                            // element type fixed by later use
                            Ty::list(self.u.fresh_any())
                        }
                    }
                };
                return Ok(Val::pure("[]", ty));
            }
            _ => {}
        }
        // constructors of translated enums
        if p.segments.len() == 2 {
            let en = p.segments[0].ident.to_string();
            if let Some(vars) = self.g.enums.get(&en).cloned() {
                if let Some((_, tys)) = vars.iter().find(|(v, _)| *v == last) {
                    if tys.len() != args.len() {
                        return unsupported("enum constructor arity", c.span());
                    }
                    let mut steps = vec![];
                    let mut atoms = vec![];
                    for (a, t) in args.iter().zip(tys.iter()) {
                        let v = self.expr(a, Some(t))?;
                        self.u.unify(t, &v.ty)?;
                        steps.extend(v.steps);
                        atoms.push(paren_atom(&v.atom));
                    }
                    return Ok(Val { steps, atom: format!("({}.{} {})", en, sanitize(&last), atoms.join(" ")), prop: None, ty: Ty::Struct(en) });
                }
            }
        }
        // Error::Variant(payload): payload evaluated for panics only, then dropped
        if p.segments.len() == 2 && p.segments[0].ident == "Error" {
            if let Some(cn) = err_variant(&last) {
                let mut steps = vec![];
                for a in &args {
                    let v = self.expr(a, None)?;
                    steps.extend(v.steps);
                }
                return Ok(Val { steps, atom: format!("Err{}", cn), prop: None, ty: Ty::Error });
            }
        }
        // T::from(x): lossless integer conversion; From::from(err)
        if last == "from" && args.len() == 1 {
            if p.segments.len() >= 2 {
                let tname = p.segments[p.segments.len() - 2].ident.to_string();
                if let Some(t) = IntTy::parse(&tname) {
                    let v = self.expr(args[0], None)?;
                    let from = self.u.resolve(&v.ty);
                    return match from {
                        Ty::Int(f) if lossless(f, t) => Ok(Val { steps: v.steps, atom: int_cast(f, t, &v.atom), prop: None, ty: Ty::Int(t) }),
                        // type of the operand not fixed yet (pass 1): decided by its other uses
                        Ty::IVar(_) => Ok(Val { steps: v.steps, atom: v.atom, prop: None, ty: Ty::Int(t) }),
                        _ => unsupported("T::from of this type", c.span()),
                    };
                }
                if tname == "From" {
                    let v = self.expr(args[0], Some(&Ty::Error))?;
                    return Ok(v);
                }
            }
        }
        // external pure functions of this unit (explicit parameters)
        if let Some((_, lean, ty)) = self.g.externs.iter().find(|(n, _, _)| *n == last).cloned() {
            if let Ty::Fun(atys, rty) = ty {
                if atys.len() != args.len() {
                    return unsupported("extern call arity", c.span());
                }
                let mut steps = vec![];
                let mut atoms = vec![];
                for (a, t) in args.iter().zip(atys.iter()) {
                    let v = self.expr(a, Some(t))?;
                    self.u.unify(t, &v.ty)?;
                    steps.extend(v.steps);
                    atoms.push(paren_atom(&v.atom));
                }
                // a path extern declared with a `Result` type is a Rust function that returns `Result` (the caller
                // applies `?` or hands it on): run now, value typed `Res` like a translated callee's
                let v = self.extern_result(steps, format!("({} {})", lean, atoms.join(" ")), (*rty).clone());
                return Ok(match *rty {
                    Ty::Res(inner) => Val { steps: v.steps, atom: format!("(Except.ok {})", v.atom), prop: None, ty: Ty::Res(inner) },
                    _ => v,
                });
            }
        }
        // associated functions of translated types: `Type::f(..)`, `Self::f(..)`
        if let syn::Expr::Path(fp) = &*c.func {
            if fp.path.segments.len() == 2 {
                let mut tn = fp.path.segments[0].ident.to_string();
                if tn == "Self" {
                    if let Some(Ty::Struct(n)) = SELF_TY.with(|t| t.borrow().clone()) {
                        tn = n;
                    }
                }
                if let Some(sig) = self.g.fns.get(&format!("{}::{}", tn, last)).cloned() {
                    return self.emit_call(&sig, &args, c.span());
                }
            }
        }
        // translated functions
        if let Some(sig) = self.g.fns.get(&last).cloned() {
            return self.emit_call(&sig, &args, c.span());
        }
        unsupported(&format!("call of {}", full), c.span())
    }


    /// substitute type parameters
    fn subst(t: &Ty, m: &HashMap<String, Ty>) -> Ty {
        match t {
            Ty::Param(n) => m.get(n).cloned().unwrap_or_else(|| t.clone()),
            Ty::List(a) => Ty::list(Self::subst(a, m)),
            Ty::Opt(a) => Ty::opt(Self::subst(a, m)),
            Ty::Res(a) => Ty::res(Self::subst(a, m)),
            Ty::Res2(a, b) => Ty::Res2(Box::new(Self::subst(a, m)), Box::new(Self::subst(b, m))),
            Ty::Tuple(v) => Ty::Tuple(v.iter().map(|x| Self::subst(x, m)).collect()),
            Ty::Fun(a, r) => Ty::Fun(a.iter().map(|x| Self::subst(x, m)).collect(), Box::new(Self::subst(r, m))),
            _ => t.clone(),
        }
    }

    /// bind the type parameters of `pat` by matching it against the concrete `actual`
    fn bind_params(pat: &Ty, actual: &Ty, m: &mut HashMap<String, Ty>) {
        match (pat, actual) {
            (Ty::Param(n), a) => {
                m.entry(n.clone()).or_insert_with(|| a.clone());
            }
            (Ty::List(p), Ty::List(a)) | (Ty::Opt(p), Ty::Opt(a)) | (Ty::Res(p), Ty::Res(a)) => Self::bind_params(p, a, m),
            (Ty::List(p), Ty::Str) => Self::bind_params(p, &Ty::u8(), m),
            (Ty::Tuple(p), Ty::Tuple(a)) if p.len() == a.len() => {
                for (x, y) in p.iter().zip(a.iter()) {
                    Self::bind_params(x, y, m);
                }
            }
            _ => {}
        }
    }

    /// call of a translated function or method (`args` include the receiver for methods)
    /// A translated callee that returns `Result` is run in the monad at the call (its `Err` leaves the caller, which is
    /// what `?` does).  Code that looks at the `Err` case instead (`match`, `if let`, `.ok()`, `.is_err()`, …) would be
    /// mistranslated, so it is rejected; `call(..).ok()?` is handled in `try_expr`.
    pub fn reject_run_result(&mut self, v: &Val, ty: &Ty, sp: proc_macro2::Span) -> R<()> {
        if matches!(ty, Ty::Res(_)) && v.atom.starts_with("(Except.ok ") && v.steps.iter().any(|s| matches!(s, Step::BindOk(..))) {
            return unsupported("inspecting the Result of a translated call other than by `?`", sp);
        }
        Ok(())
    }

    /// is the expression a call of a translated function or method that returns `Result`?
    fn translated_res_call(&self, e: &syn::Expr) -> bool {
        match strip_paren(e) {
            syn::Expr::Call(c) => match &*c.func {
                syn::Expr::Path(p) => {
                    let last = path_last(&p.path);
                    let key2 = if p.path.segments.len() == 2 { format!("{}::{}", p.path.segments[0].ident, last) } else { String::new() };
                    self.g.fns.get(&last).or_else(|| self.g.fns.get(&key2)).map(|s| matches!(s.ret, Ty::Res(_))).unwrap_or(false)
                }
                _ => false,
            },
            syn::Expr::MethodCall(m) => {
                let name = m.method.to_string();
                self.g.fns.iter().any(|(k, s)| k.ends_with(&format!("::{}", name)) && matches!(s.ret, Ty::Res(_)))
            }
            _ => false,
        }
    }

    /// the value of a call of an extern parameter: a `Result`-returning extern is run in the monad right away (like a
    /// translated callee), any other is a pure term
    fn extern_result(&mut self, mut steps: Vec<Step>, call: String, rty: Ty) -> Val {
        match rty {
            Ty::Res(inner) => {
                let t = self.fresh_tmp();
                steps.push(Step::BindOk(t.clone(), call));
                Val { steps, atom: t, prop: None, ty: *inner }
            }
            other => Val { steps, atom: call, prop: None, ty: other },
        }
    }

    pub fn emit_call(&mut self, sig: &FnSig, args: &[&syn::Expr], sp: proc_macro2::Span) -> R<Val> {
        if sig.params.len() != args.len() {
            return unsupported("call arity", sp);
        }
        let mut steps = vec![];
        let mut arg_atoms = vec![];
        let mut rebinds = vec![];
        let mut m: HashMap<String, Ty> = HashMap::new();
        for (prm, a) in sig.params.iter().zip(args.iter()) {
            let want = Self::subst(&prm.ty, &m);
            let v = if let (Ty::Fun(atys, _), syn::Expr::Closure(cl)) = (&want, strip_paren(a)) {
                self.closure_arg(cl, atys)?
            } else {
                self.expr(a, Some(&want))?
            };
            let got = self.u.resolve(&v.ty);
            Self::bind_params(&want, &got, &mut m);
            if let (Ty::Fun(_, pr), Ty::Fun(_, ar)) = (&want, &got) {
                Self::bind_params(pr, ar, &mut m);
            }
            let want2 = Self::subst(&prm.ty, &m);
            self.u.unify(&want2, &got)?;
            steps.extend(v.steps);
            arg_atoms.push(paren_atom(&v.atom));
            if prm.mut_ref {
                let (_, var) = self.assign_target(match strip_paren(a) {
                    syn::Expr::Reference(r) => &r.expr,
                    other => other,
                })?;
                rebinds.push(var.lean);
            }
        }
        if sig.fuel {
            self.uses_fuel = true;
        }
        // orderings of the instantiated type parameters
        let mut gen_args = String::new();
        for (gname, ord) in &sig.generics {
            if *ord {
                let t = m.get(gname).cloned().ok_or(format!("unsupported: cannot infer type parameter {}", gname))?;
                gen_args.push_str(&format!(" {}", self.lt_for(&t, sp)?));
            }
        }
        let ret = Self::subst(&sig.ret, &m);
        let payload = ret_payload(&ret);
        let mut pats = vec![];
        let t = self.fresh_tmp();
        if !matches!(payload, Ty::Unit) {
            pats.push(t.clone());
        }
        pats.extend(rebinds);
        let pat = if pats.is_empty() { "_".to_string() } else { tuple_text(&pats) };
        for x in &sig.externs {
            gen_args.push_str(&format!(" {}", x));
        }
        let call = format!("{}{}{} {}", sig.lean, gen_args, if sig.fuel { " fuel" } else { "" }, arg_atoms.join(" "));
        // a callee returning `Result` hands the Result to the caller; we run it in the monad right away,
        // which is what `?` would do; a caller that inspects the Err case instead is not supported
        steps.push(Step::BindOk(pat, call));
        let (atom, ty) = if matches!(payload, Ty::Unit) { ("()".to_string(), Ty::Unit) } else { (t, payload) };
        Ok(match &ret {
            Ty::Res(_) => Val { steps, atom: format!("(Except.ok {})", atom), prop: None, ty: Ty::res(ty) },
            _ => Val { steps, atom, prop: None, ty },
        })
    }

    /// a closure literal passed where `Fn(A..) -> R` is expected: a pure Lean lambda
    pub fn closure_arg(&mut self, cl: &syn::ExprClosure, atys: &[Ty]) -> R<Val> {
        let (v, fallible) = self.closure_arg_res(cl, atys)?;
        if fallible {
            return unsupported("closure with a fallible body", cl.span());
        }
        Ok(v)
    }

    /// as `closure_arg`; when the body has steps (calls of translated functions, guards) the lambda returns `Res R`
    /// and the flag is set (the type reported is still `Fn(A..) -> R`)
    pub fn closure_arg_res(&mut self, cl: &syn::ExprClosure, atys: &[Ty]) -> R<(Val, bool)> {
        if cl.inputs.len() != atys.len() {
            return unsupported("closure arity", cl.span());
        }
        self.scopes.push(HashMap::new());
        let mut names = vec![];
        let mut psteps = vec![];
        for (i, (p, t)) in cl.inputs.iter().zip(atys.iter()).enumerate() {
            // a plain identifier becomes the binder itself
            let p0 = match p {
                syn::Pat::Reference(r) => &*r.pat,
                other => other,
            };
            if let syn::Pat::Ident(pi) = p0 {
                if pi.subpat.is_none() {
                    let lean = self.declare(&pi.ident.to_string(), t.clone());
                    names.push(lean);
                    continue;
                }
            }
            let n = format!("a{}_", i);
            self.bind_pattern(p, &n, t, &mut psteps)?;
            names.push(n);
        }
        let b = self.expr(&cl.body, None)?;
        self.scopes.pop();
        if !b.steps.is_empty() {
            let mut all = psteps.clone();
            all.extend(b.steps.clone());
            let body = wrap(&all, format!(".ok {}", b.atom));
            return Ok((Val { steps: vec![], atom: format!("(fun {} => {})", names.join(" "), paren(&body)), prop: None, ty: Ty::Fun(atys.to_vec(), Box::new(b.ty)) }, true));
        }
        let body = wrap(&psteps, b.atom.clone());
        Ok((Val { steps: vec![], atom: format!("(fun {} => {})", names.join(" "), paren(&body)), prop: None, ty: Ty::Fun(atys.to_vec(), Box::new(b.ty)) }, false))
    }

    fn struct_lit(&mut self, st: &syn::ExprStruct) -> R<Val> {
        let name = path_last(&st.path);
        let fields = self.g.structs.get(&name).cloned().ok_or(format!("unsupported: struct literal of {}", name))?;
        let mut steps = vec![];
        let mut inits = vec![];
        let mut seen = vec![];
        for fv in &st.fields {
            let fname = match &fv.member {
                syn::Member::Named(i) => i.to_string(),
                _ => return unsupported("tuple struct literal", st.span()),
            };
            match fields.iter().find(|(n, _)| *n == fname) {
                Some((_, fty)) => {
                    let v = self.expr(&fv.expr, Some(fty))?;
                    self.u.unify(fty, &v.ty)?;
                    steps.extend(v.steps);
                    inits.push(format!("{} := {}", sanitize(&fname), v.atom));
                    seen.push(fname);
                }
                None => {
                    // a dropped field: evaluated for its panics only
                    let v = self.expr(&fv.expr, None)?;
                    steps.extend(v.steps);
                }
            }
        }
        let atom = match &st.rest {
            None => {
                if seen.len() != fields.len() {
                    return unsupported("struct literal with missing fields", st.span());
                }
                format!("{{ {} : {} }}", inits.join(", "), name)
            }
            Some(base) => {
                let b = self.expr(base, Some(&Ty::Struct(name.clone())))?;
                steps.extend(b.steps);
                format!("{{ {} with {} }}", b.atom, inits.join(", "))
            }
        };
        Ok(Val { steps, atom, prop: None, ty: Ty::Struct(name) })
    }

    fn try_expr(&mut self, t: &syn::ExprTry) -> R<Val> {
        // `call(..).ok()?` on a translated `Result` function inside a function returning `Option`: an `Err` value makes
        // the caller return `None`; a panic or divergence of the callee stays one (`rsOk`)
        if let syn::Expr::MethodCall(okm) = strip_paren(&t.expr) {
            if okm.method == "ok" && okm.args.is_empty() && self.translated_res_call(&okm.receiver) {
                if !matches!(self.u.resolve(&self.ret.clone()), Ty::Opt(_)) {
                    return unsupported(".ok()? in a function that does not return Option", t.span());
                }
                let inner = self.expr(&okm.receiver, None)?;
                let mut steps = inner.steps;
                let (pat, call) = match steps.pop() {
                    Some(Step::BindOk(pat, call)) => (pat, call),
                    _ => return unsupported(".ok()? on this call", t.span()),
                };
                // the callee's `&mut` arguments are lost on `Err`: the caller must not hand them on
                for p in self.mut_params.clone() {
                    if let Some(v) = self.lookup(&p) {
                        if pat.split(|c: char| !(c.is_alphanumeric() || c == '_')).any(|w| w == v.lean) {
                            return unsupported(".ok()? on a call that writes a &mut parameter of the caller", t.span());
                        }
                    }
                }
                let none_ret = {
                    let nv = Val::pure("none", self.ret.clone());
                    self.ret_text(Some(&nv))?
                };
                let tmp = self.fresh_tmp();
                steps.push(Step::BindOk(tmp.clone(), format!("rsOk ({})", call)));
                steps.push(Step::BindSome(pat, tmp, none_ret));
                let (atom, ty) = match self.u.resolve(&inner.ty) {
                    Ty::Res(i) => {
                        let a = inner.atom.strip_prefix("(Except.ok ").and_then(|s| s.strip_suffix(')')).unwrap_or("()").to_string();
                        (a, *i)
                    }
                    other => (inner.atom.clone(), other),
                };
                return Ok(Val { steps, atom, prop: None, ty });
            }
        }
        let v = self.expr(&t.expr, None)?;
        let ty = self.u.resolve(&v.ty);
        match ty {
            Ty::Res(inner) => {
                if !matches!(self.u.resolve(&self.ret.clone()), Ty::Res(_)) {
                    return unsupported("? on a Result in a function that does not return Result", t.span());
                }
                // `(Except.ok x)?` is x
                if let Some(x) = v.atom.strip_prefix("(Except.ok ").and_then(|s| s.strip_suffix(')')) {
                    return Ok(Val { steps: v.steps, atom: x.to_string(), prop: None, ty: *inner });
                }
                let n = self.fresh_tmp();
                let mut steps = v.steps;
                steps.push(Step::BindOk(if matches!(*inner, Ty::Unit) { "_".into() } else { n.clone() }, v.atom));
                Ok(Val { steps, atom: if matches!(*inner, Ty::Unit) { "()".into() } else { n }, prop: None, ty: *inner })
            }
            Ty::Opt(inner) => {
                if !matches!(self.u.resolve(&self.ret.clone()), Ty::Opt(_)) {
                    return unsupported("? on an Option in a function that does not return Option", t.span());
                }
                let none_ret = {
                    let nv = Val::pure("none", self.ret.clone());
                    self.ret_text(Some(&nv))?
                };
                let n = self.fresh_tmp();
                let mut steps = v.steps;
                steps.push(Step::BindSome(n.clone(), v.atom, none_ret));
                Ok(Val { steps, atom: n, prop: None, ty: *inner })
            }
            other => unsupported(&format!("? on {:?}", other), t.span()),
        }
    }

    /// the list a `for` loop walks
    fn iter_expr(&mut self, e: &syn::Expr) -> R<Val> {
        let e = strip_paren(e);
        match e {
            syn::Expr::Range(r) => {
                let lo = match &r.start {
                    Some(x) => self.expr(x, None)?,
                    None => return unsupported("open range", e.span()),
                };
                let hi0 = match &r.end {
                    Some(x) => self.expr(x, Some(&lo.ty))?,
                    None => return unsupported("open range", e.span()),
                };
                let t = self.u.unify(&lo.ty, &hi0.ty)?;
                if self.is_signed_ty(&t) {
                    return unsupported("range over a signed type", e.span());
                }
                let mut steps = lo.steps.clone();
                steps.extend(hi0.steps.clone());
                let hi = match r.limits {
                    syn::RangeLimits::HalfOpen(_) => hi0.atom,
                    syn::RangeLimits::Closed(_) => format!("({} + 1)", hi0.atom),
                };
                Ok(Val { steps, atom: format!("(rsRange {} {})", paren_atom(&lo.atom), paren_atom(&hi)), prop: None, ty: Ty::list(t) })
            }
            syn::Expr::MethodCall(m) => {
                let name = m.method.to_string();
                match name.as_str() {
                    "iter" | "bytes" | "into_iter" | "as_bytes" | "iter_mut" | "copied" | "cloned" => self.iter_expr(&m.receiver),
                    "enumerate" => {
                        let inner = self.iter_expr(&m.receiver)?;
                        let el = match self.u.resolve(&inner.ty) {
                            Ty::List(t) => *t,
                            Ty::Str => Ty::u8(),
                            _ => return unsupported("enumerate of a non-list", e.span()),
                        };
                        Ok(Val { steps: inner.steps, atom: format!("(rsEnumerate {})", paren_atom(&inner.atom)), prop: None, ty: Ty::list(Ty::Tuple(vec![Ty::usize(), el])) })
                    }
                    "zip" if m.args.len() == 1 => {
                        let left = self.iter_expr(&m.receiver)?;
                        let lel = match self.u.resolve(&left.ty) {
                            Ty::List(t) => *t,
                            Ty::Str => Ty::u8(),
                            _ => return unsupported("zip of a non-list", e.span()),
                        };
                        let mut steps = left.steps.clone();
                        // `b.chain(std::iter::repeat(x))`: the right side padded for ever
                        if let syn::Expr::MethodCall(ch) = strip_paren(&m.args[0]) {
                            if ch.method == "chain" && ch.args.len() == 1 {
                                if let syn::Expr::Call(rc) = strip_paren(&ch.args[0]) {
                                    if let syn::Expr::Path(rp) = &*rc.func {
                                        if path_last(&rp.path) == "repeat" && rc.args.len() == 1 {
                                            let right = self.iter_expr(&ch.receiver)?;
                                            let rel = match self.u.resolve(&right.ty) {
                                                Ty::List(t) => *t,
                                                Ty::Str => Ty::u8(),
                                                _ => return unsupported("zip with a non-list", e.span()),
                                            };
                                            let pad = self.expr(&rc.args[0], Some(&rel))?;
                                            self.u.unify(&rel, &pad.ty)?;
                                            steps.extend(right.steps);
                                            steps.extend(pad.steps);
                                            return Ok(Val { steps, atom: format!("(rsZipPad {} {} {})", paren_atom(&left.atom), paren_atom(&right.atom), paren_atom(&pad.atom)), prop: None, ty: Ty::list(Ty::Tuple(vec![lel, rel])) });
                                        }
                                    }
                                }
                            }
                        }
                        let right = self.iter_expr(&m.args[0])?;
                        let rel = match self.u.resolve(&right.ty) {
                            Ty::List(t) => *t,
                            Ty::Str => Ty::u8(),
                            _ => return unsupported("zip with a non-list", e.span()),
                        };
                        steps.extend(right.steps);
                        Ok(Val { steps, atom: format!("(List.zip {} {})", paren_atom(&left.atom), paren_atom(&right.atom)), prop: None, ty: Ty::list(Ty::Tuple(vec![lel, rel])) })
                    }
                    "map" if m.args.len() == 1 && matches!(strip_paren(&m.args[0]), syn::Expr::Closure(_)) => {
                        // iterator adaptor with a pure closure: List.map
                        let inner = self.iter_expr(&m.receiver)?;
                        let el = match self.u.resolve(&inner.ty) {
                            Ty::List(t) => *t,
                            Ty::Set(t) => *t,
                            Ty::Str => Ty::u8(),
                            _ => return unsupported("map over a non-list", e.span()),
                        };
                        let cl = match strip_paren(&m.args[0]) {
                            syn::Expr::Closure(c) => c,
                            _ => unreachable!(),
                        };
                        let (f, fallible) = self.closure_arg_res(cl, &[el])?;
                        let r = match &f.ty {
                            Ty::Fun(_, r) => (**r).clone(),
                            _ => return unsupported("map closure", e.span()),
                        };
                        if fallible {
                            // the closure calls translated (fallible) functions: run the map in the monad, left to right
                            let t = self.fresh_tmp();
                            let mut steps = inner.steps;
                            steps.push(Step::BindOk(t.clone(), format!("rsMapM {} {}", f.atom, paren_atom(&inner.atom))));
                            return Ok(Val { steps, atom: t, prop: None, ty: Ty::list(r) });
                        }
                        Ok(Val { steps: inner.steps, atom: format!("({}.map {})", paren_atom(&inner.atom), f.atom), prop: None, ty: Ty::list(r) })
                    }
                    "unwrap_or_default" if m.args.is_empty() => {
                        let recv = self.expr(&m.receiver, None)?;
                        match self.u.resolve(&recv.ty) {
                            Ty::Opt(t) if matches!(*t, Ty::List(_) | Ty::Str) => Ok(Val { steps: recv.steps, atom: format!("({}.getD [])", paren_atom(&recv.atom)), prop: None, ty: *t }),
                            _ => unsupported("unwrap_or_default on this type", e.span()),
                        }
                    }
                    "rev" => {
                        let inner = self.iter_expr(&m.receiver)?;
                        Ok(Val { steps: inner.steps, atom: format!("{}.reverse", paren_atom(&inner.atom)), prop: None, ty: inner.ty })
                    }
                    "collect" | "as_slice" => self.iter_expr(&m.receiver),
                    "lines" if m.args.is_empty() => {
                        // BufRead::lines over a byte slice: each item is io::Result<String>
                        let recv = self.expr(&m.receiver, None)?;
                        match self.u.resolve(&recv.ty) {
                            Ty::List(t) if *t == Ty::u8() => {}
                            _ => return unsupported("lines() on something other than a byte reader", e.span()),
                        }
                        Ok(Val { steps: recv.steps, atom: format!("(rsLines {})", paren_atom(&recv.atom)), prop: None, ty: Ty::list(Ty::res(Ty::Str)) })
                    }
                    "tokens" if m.args.is_empty() => {
                        let recv = self.expr(&m.receiver, None)?;
                        match self.u.resolve(&recv.ty) {
                            Ty::Struct(n) if n == "SourceMap" && self.g.structs.contains_key("Token") => {
                                Ok(Val { steps: recv.steps, atom: format!("(rsTokens {})", paren_atom(&recv.atom)), prop: None, ty: Ty::list(Ty::Struct("Token".into())) })
                            }
                            _ => unsupported("tokens() on this type", e.span()),
                        }
                    }
                    "chunks" if m.args.len() == 1 => {
                        let inner = self.iter_expr(&m.receiver)?;
                        let n = self.expr(&m.args[0], Some(&Ty::usize()))?;
                        self.u.unify(&n.ty, &Ty::usize())?;
                        let mut steps = inner.steps.clone();
                        steps.extend(n.steps.clone());
                        if !n.atom.parse::<u128>().map(|x| x != 0).unwrap_or(false) {
                            steps.push(Step::Guard(format!("{} ≠ 0", n.atom), ".panic".into()));
                        }
                        Ok(Val { steps, atom: format!("(rsChunks {} {})", paren_atom(&n.atom), paren_atom(&inner.atom)), prop: None, ty: Ty::list(inner.ty) })
                    }
                    "filter" if m.args.len() == 1 => {
                        let inner = self.iter_expr(&m.receiver)?;
                        let el = match self.u.resolve(&inner.ty) {
                            Ty::List(t) => *t,
                            Ty::Str => Ty::u8(),
                            _ => return unsupported("filter of a non-list", e.span()),
                        };
                        let cl = match strip_paren(&m.args[0]) {
                            syn::Expr::Closure(c) => c,
                            _ => return unsupported("filter with a non-closure", e.span()),
                        };
                        let f = self.closure_arg(cl, &[el.clone()])?;
                        match &f.ty {
                            Ty::Fun(_, r) if **r == Ty::Bool => {}
                            _ => return unsupported("filter closure not returning bool", e.span()),
                        }
                        Ok(Val { steps: inner.steps, atom: format!("({}.filter {})", paren_atom(&inner.atom), f.atom), prop: None, ty: Ty::list(el) })
                    }
                    "split" if m.args.len() == 1 && matches!(strip_paren(&m.args[0]), syn::Expr::Reference(_) | syn::Expr::Index(_)) => {
                        // s.split(&['/', '\\'][..]): split at any of the listed (ASCII) characters
                        let recv = self.expr(&m.receiver, None)?;
                        self.u.unify(&recv.ty, &Ty::Str)?;
                        fn chars_of(e: &syn::Expr) -> Option<Vec<u32>> {
                            match e {
                                syn::Expr::Reference(r) => chars_of(&r.expr),
                                syn::Expr::Paren(p) => chars_of(&p.expr),
                                syn::Expr::Index(i) => chars_of(&i.expr),
                                syn::Expr::Array(a) => a
                                    .elems
                                    .iter()
                                    .map(|x| match x {
                                        syn::Expr::Lit(l) => match &l.lit {
                                            syn::Lit::Char(c) if (c.value() as u32) < 128 => Some(c.value() as u32),
                                            _ => None,
                                        },
                                        _ => None,
                                    })
                                    .collect(),
                                _ => None,
                            }
                        }
                        let cs = chars_of(&m.args[0]).ok_or_else(|| format!("unsupported: split pattern (line {})", e.span().start().line))?;
                        Ok(Val { steps: recv.steps, atom: format!("(rsSplitAny [{}] {})", cs.iter().map(|c| c.to_string()).collect::<Vec<_>>().join(", "), paren_atom(&recv.atom)), prop: None, ty: Ty::list(Ty::Str) })
                    }
                    "split" if m.args.len() == 1 => {
                        let recv = self.expr(&m.receiver, None)?;
                        self.u.unify(&recv.ty, &Ty::Str)?;
                        let sep = self.expr(&m.args[0], None)?;
                        if self.u.resolve(&sep.ty) != Ty::Char {
                            return unsupported("split by a non-char", e.span());
                        }
                        Ok(Val { steps: recv.steps, atom: format!("(rsSplitOn {} {})", sep.atom, paren_atom(&recv.atom)), prop: None, ty: Ty::list(Ty::Str) })
                    }
                    _ => {
                        let v = self.expr(e, None)?;
                        match self.u.resolve(&v.ty) {
                            Ty::List(_) | Ty::Str => Ok(v),
                            _ => unsupported(&format!("iteration over .{}()", name), e.span()),
                        }
                    }
                }
            }
            _ => {
                let v = self.expr(e, None)?;
                match self.u.resolve(&v.ty) {
                    Ty::List(_) | Ty::Str => Ok(v),
                    // a BTreeSet iterates in ascending order: the list that represents it
                    Ty::Set(t) => Ok(Val { steps: v.steps, atom: v.atom, prop: None, ty: Ty::List(t) }),
                    _ => unsupported("iteration over this expression", e.span()),
                }
            }
        }
    }

    /// a mutable place: a variable or a field of a struct variable.  Returns (current value, type, setter)
    pub fn place(&mut self, e: &syn::Expr) -> R<(String, Ty, Box<dyn Fn(&str) -> Step>)> {
        match strip_paren(e) {
            syn::Expr::Field(f) => {
                let (_, var) = self.assign_target(&f.base)?;
                let fname = match &f.member {
                    syn::Member::Named(i) => i.to_string(),
                    _ => return unsupported("tuple field as a place", e.span()),
                };
                let fty = match self.u.resolve(&var.ty) {
                    Ty::Struct(sn) => self.g.structs.get(&sn).and_then(|fs| fs.iter().find(|(n, _)| *n == fname).map(|(_, t)| t.clone())),
                    _ => None,
                }
                .ok_or(format!("unsupported: field {} as a place", fname))?;
                let lean = var.lean.clone();
                let fl = sanitize(&fname);
                let cur = format!("{}.{}", lean, fl);
                Ok((cur, fty, Box::new(move |v: &str| Step::Let(lean.clone(), format!("{{ {} with {} := {} }}", lean, fl, v)))))
            }
            other => {
                let (_, var) = self.assign_target(other)?;
                let lean = var.lean.clone();
                Ok((var.lean.clone(), var.ty.clone(), Box::new(move |v: &str| Step::Let(lean.clone(), v.to_string()))))
            }
        }
    }

    pub fn is_mutating_method(&self, m: &syn::ExprMethodCall) -> bool {
        matches!(m.method.to_string().as_str(), "push" | "push_str" | "clear" | "truncate" | "extend_from_slice" | "resize" | "store_le" | "pop" | "sort_by_key" | "sort_unstable_by_key" | "set" | "next" | "copy_from_slice")
            || (m.method == "insert" && m.args.len() == 1)
    }

    /// `v.push(x)` and friends as a statement: rebind the receiver
    pub fn mutating_method(&mut self, m: &syn::ExprMethodCall) -> R<Vec<Step>> {
        if m.method == "store_le" {
            // bits[a..b].store_le::<u8>(v) on an Lsb0 bit vector
            let ix = match strip_paren(&m.receiver) {
                syn::Expr::Index(ix) => ix,
                _ => return unsupported("store_le on something other than a sub-range", m.span()),
            };
            let r = match strip_paren(&ix.index) {
                syn::Expr::Range(r) if matches!(r.limits, syn::RangeLimits::HalfOpen(_)) && r.start.is_some() && r.end.is_some() => r,
                _ => return unsupported("store_le range form", m.span()),
            };
            let (_, var) = self.assign_target(&ix.expr)?;
            if self.u.resolve(&var.ty) != Ty::list(Ty::Bool) || m.args.len() != 1 {
                return unsupported("store_le on a non-bit-vector", m.span());
            }
            let lo = self.expr(r.start.as_ref().unwrap(), Some(&Ty::usize()))?;
            let hi = self.expr(r.end.as_ref().unwrap(), Some(&Ty::usize()))?;
            let v = self.expr(&m.args[0], None)?;
            match self.u.resolve(&v.ty) {
                Ty::Int(it) if !it.signed() => {}
                Ty::IVar(_) if !self.pass2 => {}
                _ => return unsupported("store_le of a non-unsigned value", m.span()),
            }
            let mut steps = lo.steps.clone();
            steps.extend(hi.steps.clone());
            steps.extend(v.steps.clone());
            steps.push(Step::BindOk(var.lean.clone(), format!("rsStoreLe {} {} {} {}", var.lean, paren_atom(&lo.atom), paren_atom(&hi.atom), paren_atom(&v.atom))));
            return Ok(steps);
        }
        if m.method == "copy_from_slice" && m.args.len() == 1 {
            // `place[a..b].copy_from_slice(src)`: panics unless the lengths agree (and the range is in bounds)
            let ix = match strip_paren(&m.receiver) {
                syn::Expr::Index(ix) => ix,
                _ => return unsupported("copy_from_slice on something other than a sub-range", m.span()),
            };
            let r = match strip_paren(&ix.index) {
                syn::Expr::Range(r) if matches!(r.limits, syn::RangeLimits::HalfOpen(_)) && r.end.is_some() => r,
                _ => return unsupported("copy_from_slice range form", m.span()),
            };
            let (cur, pty, setter) = self.place(&ix.expr)?;
            if !matches!(self.u.resolve(&pty), Ty::List(_)) {
                return unsupported("copy_from_slice into a non-list", m.span());
            }
            let lo = match &r.start {
                Some(e) => self.expr(e, Some(&Ty::usize()))?,
                None => Val::pure("0", Ty::usize()),
            };
            let hi = self.expr(r.end.as_ref().unwrap(), Some(&Ty::usize()))?;
            let src = self.expr(&m.args[0], Some(&pty))?;
            let mut steps = lo.steps.clone();
            steps.extend(hi.steps.clone());
            steps.extend(src.steps.clone());
            let tmp = self.fresh_tmp();
            steps.push(Step::BindOk(tmp.clone(), format!("rsCopyInto {} {} {} {}", paren_atom(&cur), paren_atom(&lo.atom), paren_atom(&hi.atom), paren_atom(&src.atom))));
            steps.push(setter(&tmp));
            return Ok(steps);
        }
        if m.method == "set" && m.args.len() == 2 {
            // `view.set(i, b)` where `view = bytes.view_bits_mut::<Lsb0>()`: writes through to the bytes
            let alias = match strip_paren(&m.receiver) {
                syn::Expr::Path(p) if p.path.segments.len() == 1 => p.path.segments[0].ident.to_string(),
                _ => return unsupported("set on something other than a bit view", m.span()),
            };
            let target = self.bit_views.get(&alias).cloned().ok_or_else(|| format!("unsupported: set on {} (not a view_bits_mut alias)", alias))?;
            let var = self.lookup(&target).ok_or("internal: alias target")?;
            let i = self.expr(&m.args[0], Some(&Ty::usize()))?;
            self.u.unify(&i.ty, &Ty::usize())?;
            let b = self.expr(&m.args[1], Some(&Ty::Bool))?;
            let mut steps = i.steps.clone();
            steps.extend(b.steps.clone());
            steps.push(Step::BindOk(var.lean.clone(), format!("rsSetBit {} {} {}", var.lean, paren_atom(&i.atom), paren_atom(&b.atom))));
            return Ok(steps);
        }
        let (cur, pty, setter) = self.place(&m.receiver)?;
        let name = match strip_paren(&m.receiver) {
            syn::Expr::Path(p) if p.path.segments.len() == 1 => p.path.segments[0].ident.to_string(),
            _ => String::new(),
        };
        let var = Var { lean: cur, ty: pty };
        let vty = self.u.resolve(&var.ty);
        let elem = match &vty {
            Ty::List(t) => (**t).clone(),
            Ty::Str => Ty::u8(),
            Ty::Set(t) => (**t).clone(),
            _ => return unsupported("mutating method on a non-list", m.span()),
        };
        let mut steps = vec![];
        if matches!(vty, Ty::Set(_)) && !(m.method == "insert" && m.args.len() == 1) {
            return unsupported("mutating method on a set", m.span());
        }
        let new = match (m.method.to_string().as_str(), m.args.len()) {
            ("insert", 1) if matches!(vty, Ty::Set(_)) => {
                // BTreeSet<unsigned>::insert as a statement (the returned flag is dropped)
                let a = self.expr(&m.args[0], Some(&elem))?;
                let at = self.u.unify(&elem, &a.ty)?;
                if !matches!(self.u.resolve(&at), Ty::Int(it) if !it.signed()) {
                    return unsupported("set of something other than unsigned integers", m.span());
                }
                steps.extend(a.steps.clone());
                format!("rsSetInsert {} {}", var.lean, paren_atom(&a.atom))
            }
            ("push", 1) => {
                let a = self.expr(&m.args[0], Some(&elem))?;
                // String::push takes a char: only ASCII is supported (one byte)
                let at = self.u.resolve(&a.ty);
                steps.extend(a.steps.clone());
                if vty == Ty::Str {
                    if at == Ty::Char {
                        steps.push(Step::Guard(format!("{} < 128", a.atom), ".panic".into()));
                    } else {
                        self.u.unify(&at, &Ty::u8())?;
                    }
                } else {
                    let t = self.u.unify(&elem, &at)?;
                    if !name.is_empty() {
                        self.set_ty(&name, Ty::list(t));
                    }
                }
                format!("{} ++ [{}]", var.lean, a.atom)
            }
            ("push_str", 1) | ("extend_from_slice", 1) => {
                let a = self.expr(&m.args[0], Some(&vty))?;
                steps.extend(a.steps.clone());
                format!("{} ++ {}", var.lean, a.atom)
            }
            ("clear", 0) => "[]".to_string(),
            // `it.next();` on an iterator held in a variable (a list of the remaining items): drop the first
            ("next", 0) => format!("{}.tail", var.lean),
            // `v.pop();` as a statement: the popped value is dropped
            ("pop", 0) => format!("{}.dropLast", var.lean),
            ("sort_by_key", 1) | ("sort_unstable_by_key", 1) => {
                // sort_by_key is a stable sort; sort_unstable_by_key is mirrored as stable too (trusted-base assumption)
                let f = match strip_paren(&m.args[0]) {
                    syn::Expr::Closure(c) => self.closure_arg(c, &[elem.clone()])?,
                    other => self.expr(other, None)?,
                };
                steps.extend(f.steps.clone());
                match self.u.resolve(&f.ty) {
                    Ty::Fun(a, r) if a.len() == 1 => {
                        self.u.unify(&a[0], &elem)?;
                        match *r {
                            Ty::Int(it) if !it.signed() => format!("rsSortByKey {} {}", f.atom, var.lean),
                            Ty::Tuple(ts) if ts.len() == 2 && ts.iter().all(|q| matches!(q, Ty::Int(it) if !it.signed())) => format!("rsSortByKeyP {} {}", f.atom, var.lean),
                            _ => return unsupported("sort key type", m.span()),
                        }
                    }
                    _ => return unsupported("sort key function", m.span()),
                }
            }
            ("resize", 2) => {
                let n = self.expr(&m.args[0], Some(&Ty::usize()))?;
                self.u.unify(&n.ty, &Ty::usize())?;
                let v = self.expr(&m.args[1], Some(&elem))?;
                self.u.unify(&elem, &v.ty)?;
                steps.extend(n.steps.clone());
                steps.extend(v.steps.clone());
                format!("rsResize {} {} {}", var.lean, paren_atom(&n.atom), paren_atom(&v.atom))
            }
            ("truncate", 1) => {
                let a = self.expr(&m.args[0], Some(&Ty::usize()))?;
                steps.extend(a.steps.clone());
                format!("{}.take {}", var.lean, paren_atom(&a.atom))
            }
            _ => return unsupported("mutating method", m.span()),
        };
        steps.push(setter(&new));
        Ok(steps)
    }

    fn method_expr(&mut self, m: &syn::ExprMethodCall, expect: Option<&Ty>) -> R<Val> {
        let name = m.method.to_string();
        if name == "collect" && m.args.is_empty() {
            // repeat(s).take(n).collect::<String>()
            if let syn::Expr::MethodCall(tk) = strip_paren(&m.receiver) {
                if tk.method == "take" && tk.args.len() == 1 {
                    if let syn::Expr::Call(rc) = strip_paren(&tk.receiver) {
                        if let syn::Expr::Path(rp) = &*rc.func {
                            if path_last(&rp.path) == "repeat" && rc.args.len() == 1 {
                                let piece = self.expr(&rc.args[0], Some(&Ty::Str))?;
                                self.u.unify(&piece.ty, &Ty::Str)?;
                                let n = self.expr(&tk.args[0], Some(&Ty::usize()))?;
                                self.u.unify(&n.ty, &Ty::usize())?;
                                let mut steps = piece.steps.clone();
                                steps.extend(n.steps.clone());
                                return Ok(Val { steps, atom: format!("(List.replicate {} {}).flatten", paren_atom(&n.atom), paren_atom(&piece.atom)), prop: None, ty: Ty::Str });
                            }
                        }
                    }
                }
            }
            return self.iter_expr(&m.receiver);
        }
        if name == "read" && m.args.len() == 1 {
            // `reader.read(buf)` on an `R: Read` place: delivers (part of) the next chunk into the front of `buf`
            if let Ok((rcur, rty, rset)) = self.place(&m.receiver) {
                if self.u.resolve(&rty) == Ty::Reader {
                    let (bcur, bty, bset) = self.place(&m.args[0])?;
                    if self.u.resolve(&bty) != Ty::bytes() {
                        return unsupported("read into something other than a byte buffer", m.span());
                    }
                    let tmp = self.fresh_tmp();
                    let steps = vec![
                        Step::Let(tmp.clone(), format!("rsReaderRead {} {}", paren_atom(&rcur), paren_atom(&bcur))),
                        rset(&format!("{}.2.2", tmp)),
                        bset(&format!("{}.2.1", tmp)),
                    ];
                    return Ok(Val { steps, atom: format!("(Except.ok {}.1)", tmp), prop: None, ty: Ty::res(Ty::usize()) });
                }
            }
        }
        if name == "next" && m.args.is_empty() {
            // `it.next()` as a value: the head of the remaining items; the variable keeps the tail
            if let Ok((_, var)) = self.assign_target(&m.receiver) {
                if let Ty::List(t) = self.u.resolve(&var.ty) {
                    let tmp = self.fresh_tmp();
                    let steps = vec![Step::Let(tmp.clone(), format!("{}.head?", var.lean)), Step::Let(var.lean.clone(), format!("{}.tail", var.lean))];
                    return Ok(Val { steps, atom: tmp, prop: None, ty: Ty::opt(*t) });
                }
            }
        }
        let recv = self.expr(&m.receiver, None)?;
        let rty = self.u.resolve(&recv.ty);
        self.reject_run_result(&recv, &rty, m.span())?;
        if let Ty::Struct(sn) = &rty {
            if let Some(sig) = self.g.fns.get(&format!("{}::{}", sn, name)).cloned() {
                let mut args: Vec<&syn::Expr> = vec![&m.receiver];
                args.extend(m.args.iter());
                return self.emit_call(&sig, &args, m.span());
            }
        }
        let tname = match &rty {
            Ty::Struct(n) | Ty::Param(n) => Some(n.clone()),
            _ => None,
        };
        // auto-deref: a method the struct does not have itself, but the field its `Deref` impl returns does
        if let Ty::Struct(sn) = &rty {
            if let Some(field) = self.g.derefs.get(sn).cloned() {
                let fty = self.g.structs.get(sn).and_then(|fs| fs.iter().find(|(f, _)| *f == field).map(|(_, t)| t.clone()));
                if let Some(Ty::Struct(inner)) = fty {
                    let known = |k: &str| self.g.fns.contains_key(k) || self.g.getters.contains_key(k) || self.g.externs.iter().any(|(n, _, _)| n == k);
                    if !known(&format!("{}::{}", sn, name)) && known(&format!("{}::{}", inner, name)) {
                        let mut m2 = m.clone();
                        m2.receiver = Box::new(syn::Expr::Field(syn::ExprField {
                            attrs: vec![],
                            base: m.receiver.clone(),
                            dot_token: Default::default(),
                            member: syn::Member::Named(syn::Ident::new(&field, m.span())),
                        }));
                        return self.method_expr(&m2, expect);
                    }
                }
            }
        }
        if let Some(tn) = &tname {
            let key = format!("{}::{}", tn, name);
            if let Some((body, sty, _)) = self.g.getters.get(&key).cloned() {
                if !m.args.is_empty() {
                    return unsupported("getter call with arguments", m.span());
                }
                self.scopes.push(HashMap::new());
                let l = self.declare("self", sty);
                let b = self.expr(&body, expect);
                self.scopes.pop();
                let b = b?;
                let mut steps = recv.steps.clone();
                steps.push(Step::Let(l, recv.atom.clone()));
                steps.extend(b.steps);
                return Ok(Val { steps, atom: b.atom, prop: b.prop, ty: b.ty });
            }
            if let Some((_, lean, ty)) = self.g.externs.iter().find(|(n, _, _)| *n == key).cloned() {
                if let Ty::Fun(atys, rty2) = ty {
                    if atys.len() != m.args.len() + 1 {
                        return unsupported("extern method arity", m.span());
                    }
                    let mut steps = recv.steps.clone();
                    let mut atoms = vec![paren_atom(&recv.atom)];
                    for (a, t) in m.args.iter().zip(atys.iter().skip(1)) {
                        let v = self.expr(a, Some(t))?;
                        self.u.unify(t, &v.ty)?;
                        steps.extend(v.steps);
                        atoms.push(paren_atom(&v.atom));
                    }
                    return Ok(self.extern_result(steps, format!("({} {})", lean, atoms.join(" ")), *rty2));
                }
            }
        }
        let a = recv.atom.clone();
        let mut steps = recv.steps.clone();
        let nargs = m.args.len();
        let pure = |steps: Vec<Step>, atom: String, ty: Ty| Ok(Val { steps, atom, prop: None, ty });
        match (&rty, name.as_str(), nargs) {
            // views that do not change the representation
            (Ty::Str, "as_bytes", 0) | (Ty::Str, "bytes", 0) => pure(steps, a, Ty::bytes()),
            (Ty::Str, "as_str", 0) | (Ty::Str, "to_string", 0) | (Ty::Str, "to_owned", 0) | (Ty::Str, "clone", 0) | (Ty::Str, "as_ref", 0) => pure(steps, a, Ty::Str),
            (Ty::List(_), "as_slice", 0) | (Ty::List(_), "to_vec", 0) | (Ty::List(_), "clone", 0) | (Ty::List(_), "iter", 0) | (Ty::List(_), "as_ref", 0) | (Ty::List(_), "copied", 0) | (Ty::List(_), "cloned", 0) | (Ty::List(_), "into_iter", 0) => pure(steps, a, rty.clone()),
            (Ty::Int(_), "clone", 0) | (Ty::Bool, "clone", 0) => pure(steps, a, rty.clone()),
            (Ty::List(_), "len", 0) | (Ty::Str, "len", 0) => pure(steps, format!("{}.length", paren_atom(&a)), Ty::usize()),
            (Ty::List(_), "is_empty", 0) | (Ty::Str, "is_empty", 0) => {
                let p = format!("{} = []", a);
                Ok(Val { steps, atom: format!("{}.isEmpty", paren_atom(&a)), prop: Some(p), ty: Ty::Bool })
            }
            (Ty::Str, "starts_with", 1) => {
                let arg = self.expr(&m.args[0], None)?;
                steps.extend(arg.steps.clone());
                let needle = match self.u.resolve(&arg.ty) {
                    Ty::Char => format!("[{}]", arg.atom),
                    Ty::Str => arg.atom.clone(),
                    _ => return unsupported("starts_with argument", m.span()),
                };
                // a char needle must be ASCII for the byte reading to be right
                pure(steps, format!("(List.isPrefixOf {} {})", needle, paren_atom(&a)), Ty::Bool)
            }
            (Ty::Str, "ends_with", 1) => {
                let arg = self.expr(&m.args[0], None)?;
                steps.extend(arg.steps.clone());
                let needle = match self.u.resolve(&arg.ty) {
                    // a char needle must be ASCII for the byte reading to be right
                    Ty::Char if arg.atom.parse::<u32>().map(|c| c < 128).unwrap_or(false) => format!("[{}]", arg.atom),
                    Ty::Str => arg.atom.clone(),
                    _ => return unsupported("ends_with argument", m.span()),
                };
                pure(steps, format!("(List.isSuffixOf {} {})", needle, paren_atom(&a)), Ty::Bool)
            }
            (Ty::Opt(t), "filter", 1) => {
                let cl = match strip_paren(&m.args[0]) {
                    syn::Expr::Closure(c) => c,
                    _ => return unsupported("filter with a non-closure", m.span()),
                };
                let f = self.closure_arg(cl, &[(**t).clone()])?;
                if !matches!(&f.ty, Ty::Fun(_, r) if **r == Ty::Bool) {
                    return unsupported("filter closure not returning bool", m.span());
                }
                pure(steps, format!("({}.filter {})", paren_atom(&a), f.atom), rty.clone())
            }
            (Ty::List(t), "get", 1) => {
                let arg = self.expr(&m.args[0], Some(&Ty::usize()))?;
                self.u.unify(&arg.ty, &Ty::usize())?;
                steps.extend(arg.steps.clone());
                pure(steps, format!("{}[{}]?", paren_atom(&a), arg.atom), Ty::opt((**t).clone()))
            }
            (Ty::List(t), "binary_search_by_key", 2) => {
                // slice.binary_search_by_key(&key, f): std's algorithm over the mapped keys (Rs.binarySearchBy)
                let f = self.expr(&m.args[1], None)?;
                let (kty, ford) = match self.u.resolve(&f.ty) {
                    Ty::Fun(a, r) if a.len() == 1 => {
                        self.u.unify(&a[0], t)?;
                        (*r, f.atom.clone())
                    }
                    _ => return unsupported("binary_search_by_key with a non-closure-parameter", m.span()),
                };
                let key = self.expr(&m.args[0], Some(&kty))?;
                self.u.unify(&key.ty, &kty)?;
                steps.extend(key.steps.clone());
                steps.extend(f.steps.clone());
                let lt = self.lt_for(&kty, m.span())?;
                pure(steps, format!("(binarySearchBy {} ({}.map {}) {})", lt, paren_atom(&a), ford, paren_atom(&key.atom)), Ty::Res2(Box::new(Ty::usize()), Box::new(Ty::usize())))
            }
            (Ty::Str, "into", 0) => pure(steps, a, Ty::Str),
            (Ty::Opt(t), "as_deref", 0) => pure(steps, a, Ty::opt((**t).clone())),
            (Ty::Opt(t), "map", 1) if matches!(strip_paren(&m.args[0]), syn::Expr::Path(p) if matches!(path_text(&p.path).as_str(), "Into::into" | "Box::as_ref" | "Box::as_mut" | "Arc::as_ref") || (matches!(path_text(&p.path).as_str(), "SourceView::source" | "SourceView::new") && matches!(&**t, Ty::Str))) => pure(steps, a, Ty::opt((**t).clone())),
            (Ty::Opt(t), "and_then", 1) if matches!((&**t, strip_paren(&m.args[0])), (Ty::Opt(_), syn::Expr::Path(p)) if path_text(&p.path) == "Option::as_ref") => {
                // Option<&Option<T>>::and_then(Option::as_ref): join
                pure(steps, format!("{}.join", paren_atom(&a)), (**t).clone())
            }
            (Ty::Opt(t), "and_then", 1) => {
                // opt.and_then(|x| e) with a pure closure returning an Option
                let cl = match strip_paren(&m.args[0]) {
                    syn::Expr::Closure(c) => c,
                    _ => return unsupported("and_then with a non-closure", m.span()),
                };
                let f = self.closure_arg(cl, &[(**t).clone()])?;
                let r = match &f.ty {
                    Ty::Fun(_, r) => (**r).clone(),
                    _ => return unsupported("and_then closure", m.span()),
                };
                if !matches!(r, Ty::Opt(_)) {
                    return unsupported("and_then closure not returning Option", m.span());
                }
                pure(steps, format!("({}.bind {})", paren_atom(&a), f.atom), r)
            }
            (Ty::Str, "trim", 0) => pure(steps, format!("(rsTrim {})", paren_atom(&a)), Ty::Str),
            (Ty::Str, "strip_suffix", 1) => {
                let arg = self.expr(&m.args[0], None)?;
                steps.extend(arg.steps.clone());
                let needle = match self.u.resolve(&arg.ty) {
                    Ty::Char => {
                        // only ASCII characters are supported as patterns (one byte)
                        if !arg.atom.parse::<u32>().map(|c| c < 128).unwrap_or(false) {
                            return unsupported("strip_suffix with a non-literal / non-ASCII char", m.span());
                        }
                        format!("[{}]", arg.atom)
                    }
                    Ty::Str => arg.atom.clone(),
                    _ => return unsupported("strip_suffix argument", m.span()),
                };
                pure(steps, format!("(rsStripSuffix {} {})", needle, paren_atom(&a)), Ty::opt(Ty::Str))
            }
            // iterators held in variables are the list of their remaining items
            (Ty::Str, "chars", 0) => pure(steps, format!("(rsChars {})", paren_atom(&a)), Ty::list(Ty::Char)),
            (Ty::List(_), "peekable", 0) | (Ty::List(_), "into_iter", 0) => pure(steps, a, rty.clone()),
            (Ty::List(t), "peek", 0) => pure(steps, format!("{}.head?", paren_atom(&a)), Ty::opt((**t).clone())),
            (Ty::Char, "is_ascii", 0) => pure(steps, format!("(decide ({} < 128))", a), Ty::Bool),
            (Ty::Char, "is_ascii_alphabetic", 0) => pure(steps, format!("(rsIsAsciiAlphabetic {})", paren_atom(&a)), Ty::Bool),
            (Ty::Char, "is_ascii_alphanumeric", 0) => pure(steps, format!("(rsIsAsciiAlphanumeric {})", paren_atom(&a)), Ty::Bool),
            (Ty::Char, "is_ascii_digit", 0) => pure(steps, format!("(decide (48 ≤ {} ∧ {} ≤ 57))", a, a), Ty::Bool),
            (Ty::Str, "char_indices", 0) => pure(steps, format!("(rsCharIndices {})", paren_atom(&a)), Ty::list(Ty::Tuple(vec![Ty::usize(), Ty::Char]))),
            (Ty::Str, "split_whitespace", 0) => pure(steps, format!("(rsSplitWhitespace {})", paren_atom(&a)), Ty::list(Ty::Str)),
            (Ty::List(t), "next", 0) => pure(steps, format!("{}.head?", paren_atom(&a)), Ty::opt((**t).clone())),
            (Ty::Char, "len_utf8", 0) => pure(steps, format!("(rsLenUtf8 {})", paren_atom(&a)), Ty::usize()),
            (Ty::Char, "len_utf16", 0) => pure(steps, format!("(rsLenUtf16 {})", paren_atom(&a)), Ty::usize()),
            (Ty::Str, "get", 1) if matches!(strip_paren(&m.args[0]), syn::Expr::Range(_)) => {
                let r = match strip_paren(&m.args[0]) {
                    syn::Expr::Range(r) => r,
                    _ => unreachable!(),
                };
                // `a..b`, `..b` (from 0) and `a..` (to the length)
                let zero: syn::Expr = syn::parse_str("0usize").unwrap();
                let (lo, hi) = match (&r.start, &r.end, &r.limits) {
                    (Some(lo), Some(hi), syn::RangeLimits::HalfOpen(_)) => ((**lo).clone(), Some((**hi).clone())),
                    (None, Some(hi), syn::RangeLimits::HalfOpen(_)) => (zero.clone(), Some((**hi).clone())),
                    (Some(lo), None, _) => ((**lo).clone(), None),
                    _ => return unsupported("str::get range form", m.span()),
                };
                let lo = self.expr(&lo, Some(&Ty::usize()))?;
                let hi = match hi {
                    Some(h) => self.expr(&h, Some(&Ty::usize()))?,
                    None => Val::pure(format!("{}.length", paren_atom(&a)), Ty::usize()),
                };
                self.u.unify(&lo.ty, &Ty::usize())?;
                self.u.unify(&hi.ty, &Ty::usize())?;
                steps.extend(lo.steps.clone());
                steps.extend(hi.steps.clone());
                pure(steps, format!("(rsStrGet {} {} {})", paren_atom(&a), paren_atom(&lo.atom), paren_atom(&hi.atom)), Ty::opt(Ty::Str))
            }
            // scroll::Pread on a byte slice
            (Ty::List(t), "pread_with", 2) if **t == Ty::u8() => {
                let off = self.expr(&m.args[0], Some(&Ty::usize()))?;
                self.u.unify(&off.ty, &Ty::usize())?;
                steps.extend(off.steps.clone());
                let target = match &m.turbofish {
                    Some(tf) => match tf.args.first() {
                        Some(syn::GenericArgument::Type(t)) => Some(rust_ty(t)?),
                        _ => None,
                    },
                    None => None,
                };
                match target {
                    Some(Ty::Struct(n)) => {
                        // a `#[derive(Pread)]` struct of u32 fields read little-endian (the second argument must be scroll::LE)
                        let le = matches!(strip_paren(&m.args[1]), syn::Expr::Path(p) if path_last(&p.path) == "LE");
                        let fields = self.g.structs.get(&n).cloned().unwrap_or_default();
                        if !le || fields.is_empty() || !fields.iter().all(|(_, t)| *t == Ty::Int(IntTy::U32)) || !self.g.packed.contains(&n) {
                            return unsupported("pread_with of this type / endianness", m.span());
                        }
                        let inits = fields.iter().enumerate().map(|(i, (f, _))| format!("{} := l_.getD {} 0", sanitize(f), i)).collect::<Vec<_>>().join(", ");
                        pure(steps, format!("((rsPreadU32s {} {} {}).map (fun l_ => ({{ {} : {} }})))", paren_atom(&a), paren_atom(&off.atom), fields.len(), inits, n), Ty::res(Ty::Struct(n)))
                    }
                    None => {
                        // `&[u8]` of the given length
                        let n = self.expr(&m.args[1], Some(&Ty::usize()))?;
                        self.u.unify(&n.ty, &Ty::usize())?;
                        steps.extend(n.steps.clone());
                        pure(steps, format!("(rsPreadBytes {} {} {})", paren_atom(&a), paren_atom(&off.atom), paren_atom(&n.atom)), Ty::res(Ty::bytes()))
                    }
                    _ => unsupported("pread_with target type", m.span()),
                }
            }
            // error payloads are dropped, so mapping the error is the identity
            (Ty::Res(t), "map_err", 1) => pure(steps, a, Ty::res((**t).clone())),
            // Result::ok(): an `Err` becomes `None`; a panic / divergence of the computation is not an `Err`
            (Ty::Res(t), "ok", 0) => {
                let tmp = self.fresh_tmp();
                steps.push(Step::BindOk(tmp.clone(), format!("rsOk {}", paren_atom(&a))));
                pure(steps, tmp, Ty::opt((**t).clone()))
            }
            (Ty::Opt(t), "is_some_and", 1) => {
                let cl = match strip_paren(&m.args[0]) {
                    syn::Expr::Closure(c) if c.inputs.len() == 1 => c,
                    _ => return unsupported("is_some_and with a non-closure", m.span()),
                };
                self.scopes.push(HashMap::new());
                let mut psteps = vec![];
                self.bind_pattern(&cl.inputs[0], "x_", t, &mut psteps)?;
                let b = self.expr(&cl.body, Some(&Ty::Bool))?;
                self.scopes.pop();
                self.u.unify(&b.ty, &Ty::Bool)?;
                let mut inner_steps = psteps;
                inner_steps.extend(b.steps.clone());
                let inner = wrap(&inner_steps, format!("Except.ok {}", b.atom));
                let tmp = self.fresh_tmp();
                steps.push(Step::BindOk(tmp.clone(), format!("(match {} with\n| none => Except.ok false\n| some x_ =>\n{})", a, indent(&inner))));
                pure(steps, tmp, Ty::Bool)
            }
            // bitvec views over bytes (Lsb0): bit 8*i + j is bit j of byte i
            (Ty::List(t), "view_bits", 0) if **t == Ty::u8() => pure(steps, format!("(rsViewBits {})", paren_atom(&a)), Ty::list(Ty::Bool)),
            (Ty::Str, "view_bits", 0) => pure(steps, format!("(rsViewBits {})", paren_atom(&a)), Ty::list(Ty::Bool)),
            (Ty::List(t), "load", 0) if **t == Ty::Bool => {
                // bits.load::<u8>(): bitvec panics on an empty or over-wide region
                steps.push(Step::Guard(format!("0 < {}.length ∧ {}.length ≤ 8", paren_atom(&a), paren_atom(&a)), ".panic".into()));
                pure(steps, format!("(rsLoadLe {})", paren_atom(&a)), Ty::u8())
            }
            (Ty::List(t), "join", 1) if **t == Ty::Str => {
                let sep = self.expr(&m.args[0], Some(&Ty::Str))?;
                self.u.unify(&sep.ty, &Ty::Str)?;
                steps.extend(sep.steps.clone());
                pure(steps, format!("(rsJoin {} {})", paren_atom(&sep.atom), paren_atom(&a)), Ty::Str)
            }
            (Ty::List(t), "partition_point", 1) => {
                let cl = match strip_paren(&m.args[0]) {
                    syn::Expr::Closure(c) => c,
                    _ => return unsupported("partition_point with a non-closure", m.span()),
                };
                let f = self.closure_arg(cl, &[(**t).clone()])?;
                match &f.ty {
                    Ty::Fun(_, r) if **r == Ty::Bool => {}
                    _ => return unsupported("partition_point closure not returning bool", m.span()),
                }
                pure(steps, format!("(rsPartitionPoint {} {})", f.atom, paren_atom(&a)), Ty::usize())
            }
            (Ty::List(t), "first", 0) => pure(steps, format!("{}.head?", paren_atom(&a)), Ty::opt((**t).clone())),
            (Ty::List(t), "last", 0) => pure(steps, format!("{}.getLast?", paren_atom(&a)), Ty::opt((**t).clone())),
            // checked arithmetic
            (Ty::Int(it), "checked_shl", 1) | (Ty::Int(it), "checked_shr", 1) => {
                let arg = self.expr(&m.args[0], Some(&Ty::Int(IntTy::U32)))?;
                self.u.unify(&arg.ty, &Ty::Int(IntTy::U32))?;
                steps.extend(arg.steps.clone());
                let bits = it.bits();
                let val = if name == "checked_shl" {
                    if it.signed() {
                        format!("wrapS {} ({} * 2 ^ {})", bits, a, arg.atom)
                    } else {
                        format!("({} * 2 ^ {}) % {}", a, arg.atom, it.modulus())
                    }
                } else {
                    format!("{} / 2 ^ {}", a, arg.atom)
                };
                pure(steps, format!("(if {} < {} then some ({}) else none)", arg.atom, bits, val), Ty::opt(rty.clone()))
            }
            (Ty::Int(it), "checked_sub", 1) | (Ty::Int(it), "checked_add", 1) | (Ty::Int(it), "checked_mul", 1) => {
                let arg = self.expr(&m.args[0], Some(&rty))?;
                self.u.unify(&arg.ty, &rty)?;
                steps.extend(arg.steps.clone());
                let sym = match name.as_str() {
                    "checked_sub" => "-",
                    "checked_add" => "+",
                    _ => "*",
                };
                let atom = if !it.signed() && sym == "-" {
                    format!("(if {} ≤ {} then some ({} - {}) else none)", arg.atom, a, a, arg.atom)
                } else if !it.signed() {
                    format!("(if {} {} {} ≤ {} then some ({} {} {}) else none)", a, sym, arg.atom, it.max(), a, sym, arg.atom)
                } else {
                    format!("(if {} ≤ {} {} {} ∧ {} {} {} ≤ {} then some ({} {} {}) else none)", it.min(), a, sym, arg.atom, a, sym, arg.atom, it.max(), a, sym, arg.atom)
                };
                pure(steps, atom, Ty::opt(rty.clone()))
            }
            (Ty::Int(it), "saturating_add", 1) if !it.signed() => {
                let arg = self.expr(&m.args[0], Some(&rty))?;
                self.u.unify(&arg.ty, &rty)?;
                steps.extend(arg.steps.clone());
                pure(steps, format!("(min ({} + {}) {})", a, arg.atom, it.max()), rty.clone())
            }
            (Ty::Int(it), "saturating_sub", 1) if !it.signed() => {
                let arg = self.expr(&m.args[0], Some(&rty))?;
                self.u.unify(&arg.ty, &rty)?;
                steps.extend(arg.steps.clone());
                pure(steps, format!("({} - {})", a, arg.atom), rty.clone())
            }
            (Ty::Int(it), "wrapping_add", 1) | (Ty::Int(it), "wrapping_sub", 1) => {
                let arg = self.expr(&m.args[0], Some(&rty))?;
                self.u.unify(&arg.ty, &rty)?;
                steps.extend(arg.steps.clone());
                let sym = if name == "wrapping_add" { "+" } else { "-" };
                let atom = if it.signed() {
                    format!("(wrapS {} ({} {} {}))", it.bits(), a, sym, arg.atom)
                } else {
                    format!("(toU {} ((({} : Nat) : Int) {} (({} : Nat) : Int)))", it.bits(), a, sym, arg.atom)
                };
                pure(steps, atom, rty.clone())
            }
            // Option
            (Ty::Opt(t), "ok_or", 1) => {
                let arg = self.expr(&m.args[0], Some(&Ty::Error))?;
                self.u.unify(&arg.ty, &Ty::Error)?;
                steps.extend(arg.steps.clone());
                pure(steps, format!("(match {} with | some v_ => Except.ok v_ | none => Except.error {})", a, arg.atom), Ty::res((**t).clone()))
            }
            (Ty::List(t), "position", 1) => {
                // iter().position(|x| p): index of the first element satisfying a pure predicate
                let cl = match strip_paren(&m.args[0]) {
                    syn::Expr::Closure(c) => c,
                    _ => return unsupported("position with a non-closure", m.span()),
                };
                let f = self.closure_arg(cl, &[(**t).clone()])?;
                if !matches!(&f.ty, Ty::Fun(_, r) if **r == Ty::Bool) {
                    return unsupported("position closure not returning bool", m.span());
                }
                pure(steps, format!("(List.findIdx? {} {})", f.atom, paren_atom(&a)), Ty::opt(Ty::usize()))
            }
            (Ty::Set(t), "contains", 1) | (Ty::List(t), "contains", 1) => {
                let arg = self.expr(&m.args[0], Some(t))?;
                self.u.unify(t, &arg.ty)?;
                steps.extend(arg.steps.clone());
                pure(steps, format!("({}.contains {})", paren_atom(&a), paren_atom(&arg.atom)), Ty::Bool)
            }
            (Ty::Opt(t), "ok_or_else", 1) => {
                // the error thunk: a zero-argument closure literal, or a name bound to one
                let body: syn::Expr = match strip_paren(&m.args[0]) {
                    syn::Expr::Closure(cl) if cl.inputs.is_empty() => (*cl.body).clone(),
                    syn::Expr::Path(p) if p.path.segments.len() == 1 && self.thunks.contains_key(&p.path.segments[0].ident.to_string()) => self.thunks[&p.path.segments[0].ident.to_string()].clone(),
                    _ => return unsupported("ok_or_else argument", m.span()),
                };
                let arg = self.expr(&body, Some(&Ty::Error))?;
                self.u.unify(&arg.ty, &Ty::Error)?;
                if !arg.steps.is_empty() {
                    return unsupported("ok_or_else with a fallible thunk", m.span());
                }
                pure(steps, format!("(match {} with | some v_ => Except.ok v_ | none => Except.error {})", a, arg.atom), Ty::res((**t).clone()))
            }
            (Ty::Opt(t), "map_or", 2) => {
                // opt.map_or(default, f) with f a function value or a pure closure
                let d = self.expr(&m.args[0], None)?;
                steps.extend(d.steps.clone());
                let f = match strip_paren(&m.args[1]) {
                    syn::Expr::Closure(cl) => self.closure_arg(cl, &[(**t).clone()])?,
                    other => self.expr(other, None)?,
                };
                let rty2 = match self.u.resolve(&f.ty) {
                    Ty::Fun(a, r) if a.len() == 1 => {
                        self.u.unify(&a[0], t)?;
                        *r
                    }
                    _ => return unsupported("map_or with a non-function", m.span()),
                };
                let ty = self.u.unify(&rty2, &d.ty)?;
                steps.extend(f.steps.clone());
                pure(steps, format!("(match {} with | some v_ => {} v_ | none => {})", a, f.atom, d.atom), ty)
            }
            (Ty::Opt(t), "unwrap_or", 1) => {
                let arg = self.expr(&m.args[0], Some(t))?;
                let ty = self.u.unify(&arg.ty, t)?;
                steps.extend(arg.steps.clone());
                pure(steps, format!("({}.getD {})", paren_atom(&a), paren_atom(&arg.atom)), ty)
            }
            (Ty::Opt(t), "unwrap_or_default", 0) => pure(steps, format!("({}.getD default)", paren_atom(&a)), (**t).clone()),
            (Ty::Opt(_), "is_some", 0) => pure(steps, format!("{}.isSome", paren_atom(&a)), Ty::Bool),
            (Ty::Opt(_), "is_none", 0) => pure(steps, format!("{}.isNone", paren_atom(&a)), Ty::Bool),
            (Ty::Opt(t), "unwrap", 0) | (Ty::Opt(t), "expect", 1) => {
                let n = self.fresh_tmp();
                steps.push(Step::BindSome(n.clone(), a, ".error .panic".into()));
                pure(steps, n, (**t).clone())
            }
            (Ty::Opt(t), "copied", 0) | (Ty::Opt(t), "cloned", 0) | (Ty::Opt(t), "as_ref", 0) => pure(steps, a, Ty::opt((**t).clone())),
            (Ty::Opt(t), "map", 1) => {
                // closure |x| expr with a pure body
                let (pat, body) = match &m.args[0] {
                    syn::Expr::Closure(c) if c.inputs.len() == 1 => (&c.inputs[0], &*c.body),
                    _ => return unsupported("Option::map with a non-closure", m.span()),
                };
                self.scopes.push(HashMap::new());
                let mut psteps = vec![];
                let p0 = match pat {
                    syn::Pat::Reference(r) => &*r.pat,
                    other => other,
                };
                let binder = match p0 {
                    syn::Pat::Ident(pi) if pi.subpat.is_none() => self.declare(&pi.ident.to_string(), (**t).clone()),
                    _ => {
                        self.bind_pattern(pat, "v_", t, &mut psteps)?;
                        "v_".to_string()
                    }
                };
                let b = self.expr(body, None)?;
                self.scopes.pop();
                if !b.steps.is_empty() {
                    return unsupported("Option::map with a fallible closure body", m.span());
                }
                let inner = wrap(&psteps, b.atom.clone());
                let _ = expect;
                pure(steps, format!("({}.map (fun {} => {}))", paren_atom(&a), binder, paren(&inner)), Ty::opt(b.ty))
            }
            _ => unsupported(&format!("method .{}() on {:?}", name, rty), m.span()),
        }
    }

    /// bind a (irrefutable) pattern to `atom : ty`, declaring its variables
    pub fn bind_pattern(&mut self, p: &syn::Pat, atom: &str, ty: &Ty, steps: &mut Vec<Step>) -> R<()> {
        match p {
            syn::Pat::Ident(pi) => {
                if pi.subpat.is_some() {
                    return unsupported("@ pattern", p.span());
                }
                let lean = self.declare(&pi.ident.to_string(), ty.clone());
                if lean != atom {
                    steps.push(Step::Let(lean, atom.to_string()));
                }
                Ok(())
            }
            syn::Pat::Wild(_) => Ok(()),
            syn::Pat::Reference(r) => self.bind_pattern(&r.pat, atom, ty, steps),
            syn::Pat::Paren(pp) => self.bind_pattern(&pp.pat, atom, ty, steps),
            syn::Pat::Type(pt) => {
                let t = rust_ty(&pt.ty)?;
                let t = self.u.unify(&t, ty)?;
                self.bind_pattern(&pt.pat, atom, &t, steps)
            }
            syn::Pat::Tuple(t) => {
                let tys = match self.u.resolve(ty) {
                    Ty::Tuple(v) if v.len() == t.elems.len() => v,
                    other => return Err(format!("unsupported: tuple pattern against {:?}", other)),
                };
                let n = tys.len();
                for (i, (sub, sty)) in t.elems.iter().zip(tys.iter()).enumerate() {
                    let mut a = atom.to_string();
                    for _ in 0..i {
                        a = format!("{}.2", paren_atom(&a));
                    }
                    if i + 1 < n {
                        a = format!("{}.1", paren_atom(&a));
                    }
                    self.bind_pattern(sub, &a, sty, steps)?;
                }
                Ok(())
            }
            syn::Pat::Struct(ps) => {
                // `let S { a, b: c } = e;` on a translated struct: one projection per named field
                let sn = path_last(&ps.path);
                match self.u.resolve(ty) {
                    Ty::Struct(n) if n == sn => {}
                    other => return Err(format!("unsupported: struct pattern {} against {:?}", sn, other)),
                }
                let fields = self.g.structs.get(&sn).cloned().ok_or(format!("unsupported: struct pattern of {}", sn))?;
                for fp in &ps.fields {
                    let fname = match &fp.member {
                        syn::Member::Named(i) => i.to_string(),
                        _ => return unsupported("tuple-struct field pattern", p.span()),
                    };
                    let fty = fields.iter().find(|(f, _)| *f == fname).map(|(_, t)| t.clone()).ok_or(format!("unsupported: field {} of {} is not kept", fname, sn))?;
                    self.bind_pattern(&fp.pat, &format!("{}.{}", paren_atom(atom), sanitize(&fname)), &fty, steps)?;
                }
                Ok(())
            }
            _ => unsupported("pattern", p.span()),
        }
    }

    /// a refutable pattern as Lean match syntax (Option / Result / tuples / wildcards / idents)
    pub fn pattern(&mut self, p: &syn::Pat, ty: &Ty) -> R<String> {
        match p {
            syn::Pat::Wild(_) => Ok("_".into()),
            syn::Pat::Reference(r) => self.pattern(&r.pat, ty),
            syn::Pat::Paren(pp) => self.pattern(&pp.pat, ty),
            syn::Pat::Ident(pi) => {
                let n = pi.ident.to_string();
                if n == "None" {
                    return Ok("none".into());
                }
                Ok(self.declare(&n, ty.clone()))
            }
            syn::Pat::Path(pp) if path_last(&pp.path) == "None" => Ok("none".into()),
            syn::Pat::Path(pp) if pp.path.segments.len() == 2 && self.g.enums.contains_key(&pp.path.segments[0].ident.to_string()) => {
                Ok(format!(".{}", sanitize(&path_last(&pp.path))))
            }
            syn::Pat::TupleStruct(ts) => {
                let name = path_last(&ts.path);
                let sub = ts.elems.first().ok_or("unsupported: empty tuple-struct pattern")?;
                match (name.as_str(), self.u.resolve(ty)) {
                    ("Some", Ty::Opt(t)) => Ok(format!("some {}", self.pattern(sub, &t)?)),
                    ("Ok", Ty::Res(t)) => Ok(format!(".ok {}", self.pattern(sub, &t)?)),
                    ("Ok", Ty::Res2(t, _)) => Ok(format!(".ok {}", self.pattern(sub, &t)?)),
                    ("Err", Ty::Res2(_, e)) => Ok(format!(".error {}", self.pattern(sub, &e)?)),
                    ("Err", Ty::Res(_)) => Ok(format!(".error {}", self.pattern(sub, &Ty::Error)?)),
                    // payload-carrying variants of translated enums
                    (_, Ty::Struct(en)) if ts.path.segments.len() == 2 && ts.path.segments[0].ident == en.as_str() && self.g.enums.contains_key(&en) => {
                        let tys = self.g.enums[&en].iter().find(|(n, _)| *n == name).map(|(_, t)| t.clone()).ok_or(format!("unsupported: variant {}::{}", en, name))?;
                        if tys.len() != ts.elems.len() {
                            return unsupported("variant pattern arity", p.span());
                        }
                        let parts = ts.elems.iter().zip(tys.iter()).map(|(s, t)| self.pattern(s, t)).collect::<R<Vec<_>>>()?;
                        Ok(format!(".{} {}", sanitize(&name), parts.join(" ")))
                    }
                    _ => unsupported("tuple-struct pattern", p.span()),
                }
            }
            syn::Pat::Tuple(t) => {
                let tys = match self.u.resolve(ty) {
                    Ty::Tuple(v) if v.len() == t.elems.len() => v,
                    other => return Err(format!("unsupported: tuple pattern against {:?}", other)),
                };
                let parts = t.elems.iter().zip(tys.iter()).map(|(s, t)| self.pattern(s, t)).collect::<R<Vec<_>>>()?;
                Ok(format!("({})", parts.join(", ")))
            }
            syn::Pat::Lit(l) => {
                let v = self.expr(&syn::Expr::Lit(syn::ExprLit { attrs: vec![], lit: l.lit.clone() }), Some(ty))?;
                Ok(v.atom)
            }
            _ => unsupported("pattern", p.span()),
        }
    }
}

fn paren_atom(a: &str) -> String {
    if a.chars().all(|c| c.is_alphanumeric() || c == '_' || c == '.') || (a.starts_with('(') && a.ends_with(')')) || (a.starts_with('[') && a.ends_with(']')) {
        a.to_string()
    } else {
        format!("({})", a)
    }
}

fn lossless(f: IntTy, t: IntTy) -> bool {
    if f.signed() == t.signed() {
        f.bits() <= t.bits()
    } else {
        !f.signed() && f.bits() < t.bits()
    }
}

/// `x as T`
fn int_cast(f: IntTy, t: IntTy, a: &str) -> String {
    match (f.signed(), t.signed()) {
        (false, false) => {
            if f.bits() <= t.bits() {
                a.to_string()
            } else {
                format!("({} % {})", a, t.modulus())
            }
        }
        (false, true) => {
            if f.bits() < t.bits() {
                format!("(({} : Nat) : Int)", a)
            } else {
                format!("(wrapS {} (({} : Nat) : Int))", t.bits(), a)
            }
        }
        (true, false) => format!("(toU {} {})", t.bits(), a),
        (true, true) => {
            if f.bits() <= t.bits() {
                a.to_string()
            } else {
                format!("(wrapS {} {})", t.bits(), a)
            }
        }
    }
}
