//! Which items of /repo/src are translated, and into which Lean module.
//! Order matters inside a unit: callees before callers.

#[derive(Clone, Debug)]
pub enum Item {
    /// a free function `fn name`
    Fn(&'static str),
    /// a function nested inside another function's body: (outer, inner)
    NestedFn(&'static str, &'static str),
    /// a method of an `impl` block: (type, method)
    Method(&'static str, &'static str),
    /// a `const`/`static` array or scalar
    Const(&'static str),
    /// the leading part of a function body, up to and including its first top-level `for` loop, as a function of
    /// its own: (function, new name, parameters as Rust source text, `let`s to drop, result variable, result type)
    Region(&'static str, &'static str, &'static str, &'static [&'static str], &'static str, &'static str),
    /// the body of the first closure whose single parameter has the given name, inside a function or method, as a
    /// function of its own: (owner type or "", function, closure parameter, new name, parameters as Rust text, result type)
    ClosureBody(&'static str, &'static str, &'static str, &'static str, &'static str, &'static str),
    /// the body of the first `for <var> in …` loop inside a function or method (at any depth), as a function of its own
    /// (one iteration; the loop must not be left early): (owner type or "", function, loop variable, new name, parameters
    /// as Rust text - `self` inside the body is renamed `this` -, result type, tail expression text, e.g. "Ok(())")
    ForBody(&'static str, &'static str, &'static str, &'static str, &'static str, &'static str, &'static str),
    /// a method translated under a replacement signature after textual rewrites of its body (token level; each
    /// pattern must occur): the documented *reading* of constructs the subset does not have - a `Mutex`-protected vector
    /// and an atomic counter read as plain `&mut` state (the sequential semantics while the lock is held), an
    /// `unsafe` re-borrow read as the slice itself, verification hooks dropped:
    /// (owner type, method, new name, parameters as Rust text, result type, [(pattern, replacement)])
    MethodRewritten(&'static str, &'static str, &'static str, &'static str, &'static str, &'static [(&'static str, &'static str)]),
    /// a function translated under a replacement signature (for generic `R: Read` parameters that are byte slices
    /// in the model): (function, new name, parameters as Rust text, result type)
    FnWithSig(&'static str, &'static str, &'static str, &'static str),
    /// an enum with unit and tuple variants
    Enum(&'static str),
    /// an external pure function the unit calls (another crate): every function of the unit translated after this item
    /// takes it as an explicit parameter, so that theorems quantify over it: (last path segment, Rust fn-pointer type)
    Extern(&'static str, &'static str),
    /// a type of the crate kept abstract in this unit (open recursion: the functions that recurse through it take the
    /// recursive callee as a parameter, see `ExternMethod`): every struct, enum and function after this item is
    /// parametrised by it
    Opaque(&'static str),
    /// a method of an opaque (or other untranslated) type that the unit calls: (type, method, Lean parameter name,
    /// Rust fn-pointer type with the receiver first).  A `Result<_>` return type makes the call fallible (`?`-style).
    ExternMethod(&'static str, &'static str, &'static str, &'static str),
    /// a one-expression getter method, expanded in place at its call sites (and usable as a function value)
    InlineGetter(&'static str, &'static str),
    /// `impl Deref for T` whose `deref` is `&self.<field>`: method calls that `T` does not answer go to that field
    Deref(&'static str),
    /// a type of the crate read as another type in this unit (what is dropped is said in DESIGN 13): (name, Rust type)
    Alias(&'static str, &'static str),
    /// a type name standing for some `R: Read` (modelled as the list of chunks its reads deliver)
    Reader(&'static str),
    /// a hand-written Lean definition emitted verbatim (a mirror of library / iterator plumbing): (what it mirrors, text)
    Mirror(&'static str, &'static str),
    /// a struct, with the fields that are kept (others are dropped: references back to owners, caches, ...)
    Struct(&'static str, &'static [&'static str]),
}

impl Item {
    pub fn rust_name(&self) -> String {
        match self {
            Item::Fn(n) | Item::Const(n) | Item::Struct(n, _) => n.to_string(),
            Item::Mirror(n, _) => format!("mirror:{}", n),
            Item::Reader(n) => format!("reader:{}", n),
            Item::Opaque(n) => format!("opaque:{}", n),
            Item::Alias(n, _) => format!("alias:{}", n),
            Item::Deref(n) => format!("deref:{}", n),
            Item::ExternMethod(t, m, ..) => format!("extern:{}::{}", t, m),
            Item::InlineGetter(t, m) => format!("getter:{}::{}", t, m),
            Item::Extern(n, _) => format!("extern:{}", n),
            Item::FnWithSig(f, n, ..) => format!("{}[as {}]", f, n),
            Item::Enum(n) => n.to_string(),
            Item::MethodRewritten(o, f, n, ..) => format!("{}::{}[rewritten]=>{}", o, f, n),
            Item::ForBody(o, f, v, n, ..) => format!("{}::{}[for {}]=>{}", o, f, v, n),
            Item::ClosureBody(o, f, p, n, ..) => format!("{}::{}[closure |{}|]=>{}", o, f, p, n),
            Item::NestedFn(o, n) => format!("{}::{}", o, n),
            Item::Region(f, n, ..) => format!("{}[..first for]=>{}", f, n),
            Item::Method(t, n) => format!("{}::{}", t, n),
        }
    }
}

#[derive(Clone, Debug)]
pub struct Unit {
    /// Lean module (file stem) under SmVerif/Generated, also the namespace suffix
    pub module: &'static str,
    /// Rust file under the source directory
    pub file: &'static str,
    pub fns: Vec<Item>,
    /// Lean modules of other units this one calls into
    pub imports: Vec<&'static str>,
}

pub fn units() -> Vec<Unit> {
    vec![
        Unit {
            module: "RsVlq",
            file: "vlq.rs",
            fns: vec![
                Item::Const("B64_CHARS"),
                Item::Const("B64"),
                Item::Fn("parse_vlq_segment_into"),
                Item::Fn("parse_vlq_segment"),
                Item::Fn("encode_vlq"),
                Item::Fn("generate_vlq_segment"),
            ],
            imports: vec![],
        },
        Unit {
            module: "RsDecoder",
            file: "decoder.rs",
            fns: vec![Item::Fn("is_junk_json"), Item::Fn("strip_junk_header")],
            imports: vec![],
        },
        Unit {
            module: "RsUtils",
            file: "utils.rs",
            fns: vec![Item::Fn("is_abs_path"), Item::Fn("greatest_lower_bound"), Item::Fn("find_common_prefix_of_sorted_vec"), Item::Fn("make_relative_path")],
            imports: vec![],
        },
        Unit {
            module: "RsTypes",
            file: "types.rs",
            fns: vec![
                Item::Struct("RawToken", &["dst_line", "dst_col", "src_line", "src_col", "src_id", "name_id", "is_range"]),
                Item::Alias("SourceView", "String"),
                Item::Alias("DebugId", "u64"),
                Item::Struct("SourceMap", &["file", "tokens", "names", "source_root", "sources", "sources_prefixed", "sources_content", "ignore_list", "debug_id"]),
                Item::Struct("Token", &["raw", "sm", "idx", "offset"]),
                Item::Mirror(
                    "SourceMap::tokens() / TokenIter::next: yields get_token(0), get_token(1), … until None",
                    "def rsTokens (sm : SourceMap) : List Token :=\n  (rsEnumerate sm.tokens).map fun p => { raw := p.2, sm := sm, idx := p.1, offset := 0 }",
                ),
                Item::Method("Token", "eq"),
                Item::Method("SourceMap", "get_token"),
                Item::Method("SourceMap", "get_name"),
                Item::Method("Token", "get_name"),
                Item::Method("Token", "has_name"),
                Item::Method("Token", "get_dst_line"),
                Item::Method("Token", "get_dst_col"),
                Item::Method("Token", "get_dst"),
                Item::Method("Token", "get_src_line"),
                Item::Method("Token", "get_src_col"),
                Item::Method("Token", "get_src"),
                Item::Method("Token", "get_src_id"),
                Item::Method("Token", "has_source"),
                Item::Method("Token", "get_name_id"),
                Item::Method("Token", "is_range"),
                Item::Method("SourceMap", "lookup_token"),
            ],
            imports: vec!["RsUtils"],
        },
        // the table side of `SourceMap` (sources, contents, root, ignore list): a unit of its own so that a change there
        // does not take the token / lookup ties of `RsTypes` with it
        Unit {
            module: "RsSourceMap",
            file: "types.rs",
            fns: vec![
                Item::Alias("SourceView", "String"),
                Item::Alias("DebugId", "u64"),
                Item::Method("SourceMap", "get_file"),
                Item::Method("SourceMap", "get_source"),
                Item::Method("SourceMap", "get_source_contents"),
                Item::Method("SourceMap", "add_to_ignore_list"),
                Item::Method("Token", "get_source"),
                Item::Method("SourceMap", "new"),
                Item::Method("SourceMap", "set_debug_id"),
                Item::Method("SourceMap", "prefix_source"),
                Item::Method("SourceMap", "set_source_root"),
            ],
            imports: vec!["RsUtils", "RsTypes"],
        },
        Unit {
            module: "RsEncoder",
            file: "encoder.rs",
            fns: vec![Item::Fn("encode_vlq_diff"), Item::NestedFn("encode_rmi", "encode_byte")],
            imports: vec!["RsVlq"],
        },
        Unit {
            module: "RsSerialize",
            file: "encoder.rs",
            fns: vec![Item::Fn("encode_rmi"), Item::Fn("serialize_range_mappings"), Item::Fn("serialize_mappings")],
            imports: vec!["RsVlq", "RsUtils", "RsTypes", "RsEncoder"],
        },
        Unit {
            module: "RsHermes",
            file: "hermes.rs",
            fns: vec![
                Item::Struct("HermesScopeOffset", &["line", "column", "name_index"]),
                Item::Struct("HermesFunctionMap", &["names", "mappings"]),
                Item::Struct("SourceMapHermes", &["sm", "function_maps"]),
                Item::Deref("SourceMapHermes"),
                Item::Method("SourceMapHermes", "get_scope_for_token"),
                Item::Method("SourceMapHermes", "get_original_function_name"),
            ],
            imports: vec!["RsUtils", "RsTypes"],
        },
        Unit {
            module: "RsSourceView",
            file: "sourceview.rs",
            fns: vec![Item::ClosureBody(
                "SourceView",
                "get_line_slice",
                "line",
                "get_line_slice_of_line",
                "line: &str, col: u32, span: u32",
                "Option<&str>",
            )],
            imports: vec![],
        },
        Unit {
            module: "RsGetLine",
            file: "sourceview.rs",
            fns: vec![Item::MethodRewritten(
                "SourceView",
                "get_line",
                "get_line_seq",
                "source: &str, lines: &mut Vec<&str>, processed_until: &mut usize, idx: u32",
                "Option<&str>",
                &[
                    ("let lines = self.lines.lock().unwrap();", ""),
                    ("let mut lines = self.lines.lock().unwrap();", ""),
                    ("self.lines.lock().unwrap()", "lines"),
                    ("self.processed_until.load(Ordering::Relaxed)", "*processed_until"),
                    ("self.processed_until.fetch_add(idx + 1, Ordering::Relaxed);", "*processed_until += idx + 1;"),
                    ("self.processed_until.fetch_add(rest.len() + 1, Ordering::Relaxed);", "*processed_until += rest.len() + 1;"),
                    ("self.source", "source"),
                    ("#[cfg(sourcemap_verif)] crate::verif_hooks::yield_point(1);", ""),
                    ("#[cfg(sourcemap_verif)] crate::verif_hooks::yield_point(2);", ""),
                    ("unsafe { str::from_utf8_unchecked(slice::from_raw_parts(rv.as_ptr(), rv.len())) }", "rv"),
                ],
            )],
            imports: vec![],
        },
        Unit {
            module: "RsReader",
            file: "decoder.rs",
            fns: vec![
                Item::Reader("R"),
                Item::Enum("HeaderState"),
                Item::Struct("StripHeaderReader", &["r", "header_state"]),
                Item::Fn("is_junk_json"),
                Item::Method("StripHeaderReader", "strip_head_read"),
                Item::Method("StripHeaderReader", "read"),
            ],
            imports: vec![],
        },
        Unit {
            module: "RsJsIdent",
            file: "js_identifiers.rs",
            fns: vec![
                Item::Extern("is_id_start_unicode", "fn(char) -> bool"),
                Item::Extern("is_id_continue_unicode", "fn(char) -> bool"),
                Item::Fn("is_valid_start"),
                Item::Fn("is_valid_continue"),
                Item::Fn("strip_identifier"),
                Item::Fn("is_valid_javascript_identifier"),
                Item::Fn("get_javascript_token"),
            ],
            imports: vec![],
        },
        Unit {
            module: "RsRevIter",
            file: "sourceview.rs",
            fns: vec![
                Item::Opaque("SourceView"),
                Item::Extern("is_id_start_unicode", "fn(char) -> bool"),
                Item::Extern("is_id_continue_unicode", "fn(char) -> bool"),
                Item::ExternMethod("SourceView", "get_line", "SourceView_get_line", "fn(&SourceView, u32) -> Option<&str>"),
                Item::MethodRewritten(
                    "RevTokenIter",
                    "next",
                    "rev_token_iter_next",
                    "sv: &SourceView, cur: &mut Option<Token>, cache: &mut Option<(&str, usize, usize, usize)>",
                    "Option<(Token, Option<&str>)>",
                    &[
                        ("let token = self.token.take()?;", "let token = (*cur)?; *cur = None;"),
                        ("self.token = token.sm.get_token(idx - 1);", "*cur = token.sm.get_token(idx - 1);"),
                        (
                            "if_chain! { if let Some((source_line, dst_line, last_char_offset, last_byte_offset)) = self.source_line; if dst_line == token.get_dst_line() as usize; then { (source_line, last_char_offset, last_byte_offset) } else { if let Some(source_line) = self.sv.get_line(token.get_dst_line()) { (source_line, !0, !0) } else { (\"\", !0, !0) } } }",
                            "if let Some((source_line, dst_line, last_char_offset, last_byte_offset)) = *cache { if dst_line == token.get_dst_line() as usize { (source_line, last_char_offset, last_byte_offset) } else { if let Some(source_line) = sv.get_line(token.get_dst_line()) { (source_line, !0, !0) } else { (\"\", !0, !0) } } } else { if let Some(source_line) = sv.get_line(token.get_dst_line()) { (source_line, !0, !0) } else { (\"\", !0, !0) } }",
                        ),
                        ("self.source_line = Some", "*cache = Some"),
                        ("self.source_line = None;", "*cache = None;"),
                        ("source_line.get(byte_offset..).and_then(get_javascript_token)", "match source_line.get(byte_offset..) { Some(rest) => get_javascript_token(rest), None => None }"),
                    ],
                ),
            ],
            imports: vec!["RsUtils", "RsTypes", "RsJsIdent"],
        },
        Unit {
            module: "RsPrefix",
            file: "types.rs",
            fns: vec![Item::Method("SourceMap", "prefix_source")],
            imports: vec!["RsTypes"],
        },
        Unit {
            module: "RsBuilder",
            file: "builder.rs",
            fns: vec![
                Item::Alias("DebugId", "u64"),
                Item::Struct("SourceMapBuilder", &["file", "name_map", "names", "tokens", "source_map", "source_root", "sources", "source_contents", "sources_mapping", "ignore_list", "debug_id"]),
                Item::Method("SourceMapBuilder", "new"),
                Item::Method("SourceMapBuilder", "set_debug_id"),
                Item::Method("SourceMapBuilder", "set_file"),
                Item::Method("SourceMapBuilder", "get_file"),
                Item::Method("SourceMapBuilder", "set_source_root"),
                Item::Method("SourceMapBuilder", "get_source_root"),
                Item::Method("SourceMapBuilder", "add_to_ignore_list"),
                Item::Method("SourceMapBuilder", "add_source_with_id"),
                Item::Method("SourceMapBuilder", "add_source"),
                Item::Method("SourceMapBuilder", "get_source"),
                Item::Method("SourceMapBuilder", "set_source"),
                Item::Method("SourceMapBuilder", "set_source_contents"),
                Item::Method("SourceMapBuilder", "get_source_contents"),
                Item::Method("SourceMapBuilder", "has_source_contents"),
                Item::Method("SourceMapBuilder", "add_name"),
                Item::Method("SourceMapBuilder", "add_with_id"),
                Item::Method("SourceMapBuilder", "add"),
                Item::Method("SourceMapBuilder", "add_raw"),
                Item::Method("SourceMapBuilder", "take_mapping"),
                Item::Method("SourceMapBuilder", "add_token"),
                Item::Method("SourceMapBuilder", "strip_prefixes"),
                Item::Method("SourceMapBuilder", "into_sourcemap"),
            ],
            imports: vec!["RsUtils", "RsTypes", "RsSourceMap"],
        },
        Unit {
            module: "RsAdjust",
            file: "types.rs",
            fns: vec![
                Item::Struct("Range", &["start", "end", "value"]),
                Item::NestedFn("adjust_mappings", "create_ranges"),
                Item::Method("SourceMap", "adjust_mappings"),
            ],
            imports: vec!["RsUtils", "RsTypes"],
        },
        Unit {
            module: "RsIndex",
            file: "types.rs",
            fns: vec![
                Item::Opaque("DecodedMap"),
                Item::Struct("SourceMapSection", &["offset", "url", "map"]),
                Item::Struct("SourceMapIndex", &["sections"]),
                Item::InlineGetter("SourceMapSection", "get_offset"),
                Item::InlineGetter("SourceMapSection", "get_sourcemap"),
                Item::ExternMethod("DecodedMap", "lookup_token", "DecodedMap_lookup_token", "fn(&DecodedMap, u32, u32) -> Result<Option<Token>>"),
                Item::Method("SourceMapIndex", "lookup_token"),
            ],
            imports: vec!["RsUtils", "RsTypes"],
        },
        Unit {
            module: "RsDecodedMap",
            file: "types.rs",
            fns: vec![
                Item::Opaque("SourceMapIndex"),
                Item::Enum("DecodedMap"),
                Item::Opaque("SourceView"),
                Item::ExternMethod("SourceMapIndex", "lookup_token", "SourceMapIndex_lookup_token", "fn(&SourceMapIndex, u32, u32) -> Result<Option<Token>>"),
                Item::ExternMethod("SourceMap", "get_original_function_name", "SourceMap_get_original_function_name", "fn(&SourceMap, u32, u32, &str, &SourceView) -> Result<Option<&str>>"),
                Item::ExternMethod("SourceMapIndex", "get_original_function_name", "SourceMapIndex_get_original_function_name", "fn(&SourceMapIndex, u32, u32, &str, &SourceView) -> Result<Option<&str>>"),
                Item::Method("DecodedMap", "lookup_token"),
                Item::Method("DecodedMap", "get_original_function_name"),
            ],
            imports: vec!["RsUtils", "RsTypes", "RsHermes"],
        },
        Unit {
            module: "RsFlatten",
            file: "types.rs",
            fns: vec![Item::ForBody(
                "SourceMapIndex",
                "flatten",
                "token",
                "flatten_token",
                "builder: &mut SourceMapBuilder, map: &SourceMap, token: Token, off_line: u32, off_col: u32",
                "Result<()>",
                "Ok(())",
            )],
            imports: vec!["RsUtils", "RsTypes", "RsBuilder", "RsSourceMap"],
        },
        Unit {
            module: "RsRewrite",
            file: "types.rs",
            fns: vec![
                Item::Struct("RewriteOptions", &["with_names", "with_source_contents", "strip_prefixes"]),
                Item::ForBody(
                    "SourceMap",
                    "rewrite_with_mapping",
                    "token",
                    "rewrite_token",
                    "this: &SourceMap, builder: &mut SourceMapBuilder, token: Token, options: &RewriteOptions",
                    "()",
                    "",
                ),
            ],
            imports: vec!["RsUtils", "RsTypes", "RsBuilder", "RsSourceMap"],
        },
        Unit {
            module: "RsDetector",
            file: "detector.rs",
            fns: vec![
                Item::Enum("SourceMapRef"),
                Item::FnWithSig("locate_sourcemap_reference", "locate_sourcemap_reference", "rdr: &[u8]", "Result<Option<SourceMapRef>>"),
            ],
            imports: vec![],
        },
        Unit {
            module: "RsJsonTypes",
            file: "jsontypes.rs",
            fns: vec![Item::Struct("FacebookScopeMapping", &["names", "mappings"]), Item::Struct("MinimalRawSourceMap", &["version", "file", "sources", "source_root", "sources_content", "sections", "names", "mappings"])],
            imports: vec![],
        },
        Unit {
            module: "RsHermesDecode",
            file: "hermes.rs",
            fns: vec![Item::ClosureBody(
                "",
                "decode_hermes",
                "v",
                "decode_function_map",
                "v: &Option<Vec<FacebookScopeMapping>>, mut nums: Vec<i64>",
                "Option<HermesFunctionMap>",
            )],
            imports: vec!["RsVlq", "RsTypes", "RsHermes", "RsJsonTypes"],
        },
        Unit {
            module: "RsDecodeCommon",
            file: "decoder.rs",
            fns: vec![
                Item::Opaque("RawSection"),
                Item::Opaque("SourceMap"),
                Item::Opaque("SourceMapIndex"),
                Item::Opaque("SourceMapHermes"),
                Item::Alias("FacebookSources", "Option<Vec<Option<Vec<FacebookScopeMapping>>>>"),
                Item::Struct("RawSourceMap", &["sections", "x_facebook_sources"]),
                Item::Enum("DecodedMap"),
                Item::Extern("decode_index", "fn(RawSourceMap) -> Result<SourceMapIndex>"),
                Item::Extern("decode_hermes", "fn(RawSourceMap) -> Result<SourceMapHermes>"),
                Item::Extern("decode_regular", "fn(RawSourceMap) -> Result<SourceMap>"),
                Item::Fn("decode_common"),
            ],
            imports: vec!["RsJsonTypes"],
        },
        Unit {
            module: "RsDetectCommon",
            file: "detector.rs",
            fns: vec![Item::Fn("is_sourcemap_common")],
            imports: vec!["RsJsonTypes"],
        },
        Unit {
            module: "RsRamBundle",
            file: "ram_bundle.rs",
            fns: vec![
                Item::Const("RAM_BUNDLE_MAGIC"),
                Item::Struct("RamBundleHeader", &["magic", "module_count", "startup_code_size"]),
                Item::Struct("ModuleEntry", &["offset", "length"]),
                Item::Struct("RamBundleModule", &["id", "data"]),
                Item::Struct("IndexedRamBundle", &["bytes", "module_count", "startup_code_size", "startup_code_offset"]),
                Item::Method("RamBundleHeader", "is_valid_magic"),
                Item::Method("ModuleEntry", "is_empty"),
                Item::Method("IndexedRamBundle", "parse"),
                Item::Method("IndexedRamBundle", "module_count"),
                Item::Method("IndexedRamBundle", "startup_code"),
                Item::Method("IndexedRamBundle", "get_module"),
                Item::Fn("is_ram_bundle_slice"),
            ],
            imports: vec![],
        },
        Unit {
            module: "RsDecodeTokens",
            file: "decoder.rs",
            fns: vec![
                Item::Fn("decode_rmi"),
                Item::Region(
                    "decode_regular",
                    "decode_regular_tokens",
                    "names: Vec<()>, sources: Vec<()>, range_mappings: String, mappings: String",
                    &["names", "sources", "range_mappings", "mappings", "allocation_size"],
                    "tokens",
                    "Vec<RawToken>",
                ),
            ],
            imports: vec!["RsVlq", "RsTypes"],
        },
    ]
}
