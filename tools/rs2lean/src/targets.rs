//! Which items of /repo/src are translated, and into which Lean module.
//! Order matters inside a unit: callees before callers.

#[derive(Clone, Debug)]
pub enum Item {
    /// a free function `fn name`
    Fn(&'static str),
    /// a function nested inside another function's body: (outer, inner)
    NestedFn(&'static str, &'static str),
    /// a method of an `impl` block: (type, method)
    Method(&'static str, &'static str),
    /// a `const`/`static` array or scalar
    Const(&'static str),
}

impl Item {
    pub fn rust_name(&self) -> String {
        match self {
            Item::Fn(n) | Item::Const(n) => n.to_string(),
            Item::NestedFn(o, n) => format!("{}::{}", o, n),
            Item::Method(t, n) => format!("{}::{}", t, n),
        }
    }
}

#[derive(Clone, Debug)]
pub struct Unit {
    /// Lean module (file stem) under SmVerif/Generated, also the namespace suffix
    pub module: &'static str,
    /// Rust file under the source directory
    pub file: &'static str,
    pub fns: Vec<Item>,
    /// Lean modules of other units this one calls into
    pub imports: Vec<&'static str>,
}

pub fn units() -> Vec<Unit> {
    vec![
        Unit {
            module: "RsVlq",
            file: "vlq.rs",
            fns: vec![
                Item::Const("B64_CHARS"),
                Item::Const("B64"),
                Item::Fn("parse_vlq_segment_into"),
                Item::Fn("parse_vlq_segment"),
                Item::Fn("encode_vlq"),
                Item::Fn("generate_vlq_segment"),
            ],
            imports: vec![],
        },
        Unit {
            module: "RsDecoder",
            file: "decoder.rs",
            fns: vec![Item::Fn("is_junk_json"), Item::Fn("strip_junk_header")],
            imports: vec![],
        },
        Unit {
            module: "RsEncoder",
            file: "encoder.rs",
            fns: vec![Item::Fn("encode_vlq_diff"), Item::NestedFn("encode_rmi", "encode_byte")],
            imports: vec!["RsVlq"],
        },
        Unit {
            module: "RsUtils",
            file: "utils.rs",
            fns: vec![Item::Fn("is_abs_path")],
            imports: vec![],
        },
    ]
}
