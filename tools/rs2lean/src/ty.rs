//! Types of the translated subset and integer-literal unification.
use std::cell::RefCell;
use std::collections::HashMap;
use std::fmt;

thread_local! {
    /// named types that take the unit's opaque types as parameters: name -> argument text ("DecodedMap")
    pub static STRUCT_APP: RefCell<HashMap<String, String>> = RefCell::new(HashMap::new());
}


#[derive(Clone, Copy, PartialEq, Eq, Debug, Hash)]
pub enum IntTy {
    I8,
    I16,
    I32,
    I64,
    Isize,
    U8,
    U16,
    U32,
    U64,
    Usize,
}

impl IntTy {
    pub fn parse(s: &str) -> Option<IntTy> {
        Some(match s {
            "i8" => IntTy::I8,
            "i16" => IntTy::I16,
            "i32" => IntTy::I32,
            "i64" => IntTy::I64,
            "isize" => IntTy::Isize,
            "u8" => IntTy::U8,
            "u16" => IntTy::U16,
            "u32" => IntTy::U32,
            "u64" => IntTy::U64,
            "usize" => IntTy::Usize,
            _ => return None,
        })
    }
    pub fn bits(self) -> u32 {
        match self {
            IntTy::I8 | IntTy::U8 => 8,
            IntTy::I16 | IntTy::U16 => 16,
            IntTy::I32 | IntTy::U32 => 32,
            _ => 64,
        }
    }
    pub fn signed(self) -> bool {
        matches!(self, IntTy::I8 | IntTy::I16 | IntTy::I32 | IntTy::I64 | IntTy::Isize)
    }
    /// decimal text of the largest value
    pub fn max(self) -> String {
        let b = self.bits();
        if self.signed() {
            ((1u128 << (b - 1)) - 1).to_string()
        } else {
            ((1u128 << b) - 1).to_string()
        }
    }
    /// decimal text of the smallest value (signed: negative, in parentheses)
    pub fn min(self) -> String {
        if self.signed() {
            format!("(-{})", 1u128 << (self.bits() - 1))
        } else {
            "0".into()
        }
    }
    pub fn modulus(self) -> String {
        (1u128 << self.bits()).to_string()
    }
}

#[derive(Clone, PartialEq, Eq, Debug)]
pub enum Ty {
    Int(IntTy),
    /// an integer literal whose type is not fixed yet
    IVar(usize),
    Bool,
    Char,
    /// `&str`, `String`: bytes
    Str,
    List(Box<Ty>),
    Opt(Box<Ty>),
    /// the crate's `Result<T>` / `io::Result<T>`: `Res T`
    Res(Box<Ty>),
    /// `Result<T, E>` with a value-carrying error (e.g. `binary_search`): `Except E T`
    Res2(Box<Ty>, Box<Ty>),
    Tuple(Vec<Ty>),
    Unit,
    Struct(String),
    /// the crate's `Error` (or `io::Error`) as a value: `Err`
    Error,
    Never,
    /// `FxHashMap<K, V>` / `HashMap<K, V>`: an association list in insertion order
    Map(Box<Ty>, Box<Ty>),
    /// `BTreeSet<T>`: the ascending list of its elements
    Set(Box<Ty>),
    /// an `R: Read`: the chunks still to be delivered
    Reader,
    /// a type parameter of a generic function
    Param(String),
    /// a closure / function parameter `F: Fn(A) -> R`
    Fun(Vec<Ty>, Box<Ty>),
}

impl Ty {
    pub fn list(t: Ty) -> Ty {
        Ty::List(Box::new(t))
    }
    pub fn opt(t: Ty) -> Ty {
        Ty::Opt(Box::new(t))
    }
    pub fn res(t: Ty) -> Ty {
        Ty::Res(Box::new(t))
    }
    pub fn u8() -> Ty {
        Ty::Int(IntTy::U8)
    }
    pub fn usize() -> Ty {
        Ty::Int(IntTy::Usize)
    }
    pub fn bytes() -> Ty {
        Ty::List(Box::new(Ty::Int(IntTy::U8)))
    }
    pub fn is_int(&self) -> bool {
        matches!(self, Ty::Int(_) | Ty::IVar(_))
    }
}

pub struct Unifier {
    parent: Vec<usize>,
    bound: Vec<Option<Ty>>,
    /// the variable stands for an integer literal (defaults to i32 when nothing fixes it)
    lit: Vec<bool>,
    /// resolution of pass 1, consulted in pass 2
    pub resolved: Option<Vec<Ty>>,
    next: usize,
}

impl Unifier {
    pub fn new() -> Self {
        Unifier { parent: vec![], bound: vec![], lit: vec![], resolved: None, next: 0 }
    }
    pub fn restart_for_pass2(&mut self) {
        let n = self.parent.len();
        let mut r = Vec::with_capacity(n);
        for i in 0..n {
            let t = self.resolve(&Ty::IVar(i));
            r.push(match t {
                Ty::IVar(root) => {
                    if self.lit[root] || self.lit[i] {
                        Ty::Int(IntTy::I32)
                    } else {
                        Ty::Never
                    }
                }
                other => self.default_vars(&other),
            });
        }
        self.resolved = Some(r);
        self.next = 0;
    }
    /// a fresh integer-literal variable
    pub fn fresh(&mut self) -> Ty {
        self.fresh_var(true)
    }
    /// a fresh variable for any type (element type of `Vec::new()` …)
    pub fn fresh_any(&mut self) -> Ty {
        self.fresh_var(false)
    }
    fn fresh_var(&mut self, lit: bool) -> Ty {
        let k = self.next;
        self.next += 1;
        if let Some(r) = &self.resolved {
            // pass 2: the same traversal allocates the same ids
            return r.get(k).cloned().unwrap_or(Ty::Int(IntTy::I32));
        }
        self.parent.push(k);
        self.bound.push(None);
        self.lit.push(lit);
        Ty::IVar(k)
    }
    /// replace variables that stayed open inside a resolved type
    fn default_vars(&mut self, t: &Ty) -> Ty {
        match t {
            Ty::IVar(k) => {
                let r = self.resolve(t);
                match r {
                    Ty::IVar(root) => if self.lit[root] || self.lit[*k] { Ty::Int(IntTy::I32) } else { Ty::Never },
                    other => self.default_vars(&other),
                }
            }
            Ty::List(a) => Ty::list(self.default_vars(a)),
            Ty::Opt(a) => Ty::opt(self.default_vars(a)),
            Ty::Set(a) => Ty::Set(Box::new(self.default_vars(a))),
            Ty::Res(a) => Ty::res(self.default_vars(a)),
            Ty::Res2(a, b) => Ty::Res2(Box::new(self.default_vars(a)), Box::new(self.default_vars(b))),
            Ty::Tuple(v) => Ty::Tuple(v.iter().map(|x| self.default_vars(x)).collect()),
            _ => t.clone(),
        }
    }
    fn find(&mut self, mut i: usize) -> usize {
        while self.parent[i] != i {
            self.parent[i] = self.parent[self.parent[i]];
            i = self.parent[i];
        }
        i
    }
    pub fn resolve(&mut self, t: &Ty) -> Ty {
        match t {
            Ty::IVar(k) => {
                if *k >= self.parent.len() {
                    return t.clone();
                }
                let r = self.find(*k);
                match self.bound[r].clone() {
                    Some(b) => self.resolve(&b),
                    None => Ty::IVar(r),
                }
            }
            Ty::List(a) => Ty::list(self.resolve(a)),
            Ty::Opt(a) => Ty::opt(self.resolve(a)),
            Ty::Set(a) => Ty::Set(Box::new(self.resolve(a))),
            Ty::Res(a) => Ty::res(self.resolve(a)),
            Ty::Res2(a, b) => Ty::Res2(Box::new(self.resolve(a)), Box::new(self.resolve(b))),
            Ty::Tuple(v) => Ty::Tuple(v.iter().map(|x| self.resolve(x)).collect()),
            _ => t.clone(),
        }
    }
    pub fn unify(&mut self, a: &Ty, b: &Ty) -> Result<Ty, String> {
        let a = self.resolve(a);
        let b = self.resolve(b);
        match (&a, &b) {
            (Ty::Never, _) => Ok(b),
            (_, Ty::Never) => Ok(a),
            (Ty::IVar(x), Ty::IVar(y)) => {
                if x != y {
                    self.parent[*x] = *y;
                    if self.lit[*x] {
                        self.lit[*y] = true;
                    }
                }
                Ok(Ty::IVar(*y))
            }
            (Ty::IVar(x), other) | (other, Ty::IVar(x)) => {
                if self.lit[*x] && !matches!(other, Ty::Int(_)) {
                    return Err(format!("unsupported: integer literal used as {:?}", other));
                }
                self.bound[*x] = Some(other.clone());
                Ok(other.clone())
            }
            (Ty::Int(x), Ty::Int(y)) if x == y => Ok(a),
            (Ty::List(x), Ty::List(y)) => Ok(Ty::list(self.unify(x, y)?)),
            // bytes and strings share a representation
            (Ty::Str, Ty::List(y)) | (Ty::List(y), Ty::Str) => {
                self.unify(y, &Ty::u8())?;
                Ok(Ty::Str)
            }
            (Ty::Opt(x), Ty::Opt(y)) => Ok(Ty::opt(self.unify(x, y)?)),
            (Ty::Set(x), Ty::Set(y)) => Ok(Ty::Set(Box::new(self.unify(x, y)?))),
            (Ty::Res(x), Ty::Res(y)) => Ok(Ty::res(self.unify(x, y)?)),
            (Ty::Res2(x, e), Ty::Res2(y, f)) => Ok(Ty::Res2(Box::new(self.unify(x, y)?), Box::new(self.unify(e, f)?))),
            (Ty::Tuple(x), Ty::Tuple(y)) if x.len() == y.len() => {
                let mut v = vec![];
                for (p, q) in x.iter().zip(y.iter()) {
                    v.push(self.unify(p, q)?);
                }
                Ok(Ty::Tuple(v))
            }
            _ if a == b => Ok(a),
            _ => Err(format!("unsupported: type mismatch {:?} vs {:?}", a, b)),
        }
    }
}

/// Lean spelling of a type
pub fn lean_ty(t: &Ty) -> String {
    match t {
        Ty::Int(it) => if it.signed() { "Int".into() } else { "Nat".into() },
        Ty::IVar(_) => "Int".into(),
        Ty::Bool => "Bool".into(),
        Ty::Char => "Nat".into(),
        Ty::Str => "(List Nat)".into(),
        Ty::List(a) => format!("(List {})", lean_ty(a)),
        Ty::Opt(a) => format!("(Option {})", lean_ty(a)),
        Ty::Res(a) => format!("(Res {})", lean_ty(a)),
        Ty::Res2(a, e) => format!("(Except {} {})", lean_ty(e), lean_ty(a)),
        Ty::Tuple(v) if v.is_empty() => "Unit".into(),
        Ty::Tuple(v) => format!("({})", v.iter().map(lean_ty).collect::<Vec<_>>().join(" × ")),
        Ty::Unit => "Unit".into(),
        Ty::Struct(n) => match STRUCT_APP.with(|a| a.borrow().get(n).cloned()) {
            Some(args) => format!("({} {})", n, args),
            None => n.clone(),
        },
        Ty::Error => "Err".into(),
        Ty::Never => "Unit".into(),
        Ty::Map(k, v) => format!("(List ({} × {}))", lean_ty(k), lean_ty(v)),
        Ty::Set(a) => format!("(List {})", lean_ty(a)),
        Ty::Reader => "(List (List Nat))".into(),
        Ty::Param(n) => n.clone(),
        Ty::Fun(a, r) => format!("({} → {})", a.iter().map(lean_ty).collect::<Vec<_>>().join(" → "), lean_ty(r)),
    }
}

impl fmt::Display for Ty {
    fn fmt(&self, f: &mut fmt::Formatter) -> fmt::Result {
        write!(f, "{}", lean_ty(self))
    }
}
