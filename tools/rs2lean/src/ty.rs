//! Types of the translated subset and integer-literal unification.
use std::fmt;

#[derive(Clone, Copy, PartialEq, Eq, Debug, Hash)]
pub enum IntTy {
    I8,
    I16,
    I32,
    I64,
    Isize,
    U8,
    U16,
    U32,
    U64,
    Usize,
}

impl IntTy {
    pub fn parse(s: &str) -> Option<IntTy> {
        Some(match s {
            "i8" => IntTy::I8,
            "i16" => IntTy::I16,
            "i32" => IntTy::I32,
            "i64" => IntTy::I64,
            "isize" => IntTy::Isize,
            "u8" => IntTy::U8,
            "u16" => IntTy::U16,
            "u32" => IntTy::U32,
            "u64" => IntTy::U64,
            "usize" => IntTy::Usize,
            _ => return None,
        })
    }
    pub fn bits(self) -> u32 {
        match self {
            IntTy::I8 | IntTy::U8 => 8,
            IntTy::I16 | IntTy::U16 => 16,
            IntTy::I32 | IntTy::U32 => 32,
            _ => 64,
        }
    }
    pub fn signed(self) -> bool {
        matches!(self, IntTy::I8 | IntTy::I16 | IntTy::I32 | IntTy::I64 | IntTy::Isize)
    }
    /// decimal text of the largest value
    pub fn max(self) -> String {
        let b = self.bits();
        if self.signed() {
            ((1u128 << (b - 1)) - 1).to_string()
        } else {
            ((1u128 << b) - 1).to_string()
        }
    }
    /// decimal text of the smallest value (signed: negative, in parentheses)
    pub fn min(self) -> String {
        if self.signed() {
            format!("(-{})", 1u128 << (self.bits() - 1))
        } else {
            "0".into()
        }
    }
    pub fn modulus(self) -> String {
        (1u128 << self.bits()).to_string()
    }
}

#[derive(Clone, PartialEq, Eq, Debug)]
pub enum Ty {
    Int(IntTy),
    /// an integer literal whose type is not fixed yet
    IVar(usize),
    Bool,
    Char,
    /// `&str`, `String`: bytes
    Str,
    List(Box<Ty>),
    Opt(Box<Ty>),
    /// the crate's `Result<T>` / `io::Result<T>`: `Res T`
    Res(Box<Ty>),
    /// `Result<T, E>` with a value-carrying error (e.g. `binary_search`): `Except E T`
    Res2(Box<Ty>, Box<Ty>),
    Tuple(Vec<Ty>),
    Unit,
    Struct(String),
    /// the crate's `Error` (or `io::Error`) as a value: `Err`
    Error,
    Never,
}

impl Ty {
    pub fn list(t: Ty) -> Ty {
        Ty::List(Box::new(t))
    }
    pub fn opt(t: Ty) -> Ty {
        Ty::Opt(Box::new(t))
    }
    pub fn res(t: Ty) -> Ty {
        Ty::Res(Box::new(t))
    }
    pub fn u8() -> Ty {
        Ty::Int(IntTy::U8)
    }
    pub fn usize() -> Ty {
        Ty::Int(IntTy::Usize)
    }
    pub fn bytes() -> Ty {
        Ty::List(Box::new(Ty::Int(IntTy::U8)))
    }
    pub fn is_int(&self) -> bool {
        matches!(self, Ty::Int(_) | Ty::IVar(_))
    }
}

pub struct Unifier {
    parent: Vec<usize>,
    bound: Vec<Option<IntTy>>,
    /// resolution of pass 1, consulted in pass 2
    pub resolved: Option<Vec<IntTy>>,
    next: usize,
}

impl Unifier {
    pub fn new() -> Self {
        Unifier { parent: vec![], bound: vec![], resolved: None, next: 0 }
    }
    pub fn restart_for_pass2(&mut self) {
        let n = self.parent.len();
        let mut r = Vec::with_capacity(n);
        for i in 0..n {
            let root = self.find(i);
            r.push(self.bound[root].unwrap_or(IntTy::I32));
        }
        self.resolved = Some(r);
        self.next = 0;
    }
    pub fn fresh(&mut self) -> Ty {
        let k = self.next;
        self.next += 1;
        if let Some(r) = &self.resolved {
            // pass 2: the same traversal allocates the same ids
            return Ty::Int(*r.get(k).unwrap_or(&IntTy::I32));
        }
        self.parent.push(k);
        self.bound.push(None);
        Ty::IVar(k)
    }
    fn find(&mut self, mut i: usize) -> usize {
        while self.parent[i] != i {
            self.parent[i] = self.parent[self.parent[i]];
            i = self.parent[i];
        }
        i
    }
    pub fn resolve(&mut self, t: &Ty) -> Ty {
        match t {
            Ty::IVar(k) => {
                let r = self.find(*k);
                match self.bound[r] {
                    Some(it) => Ty::Int(it),
                    None => Ty::IVar(r),
                }
            }
            Ty::List(a) => Ty::list(self.resolve(a)),
            Ty::Opt(a) => Ty::opt(self.resolve(a)),
            Ty::Res(a) => Ty::res(self.resolve(a)),
            Ty::Res2(a, b) => Ty::Res2(Box::new(self.resolve(a)), Box::new(self.resolve(b))),
            Ty::Tuple(v) => Ty::Tuple(v.iter().map(|x| self.resolve(x)).collect()),
            _ => t.clone(),
        }
    }
    pub fn unify(&mut self, a: &Ty, b: &Ty) -> Result<Ty, String> {
        let a = self.resolve(a);
        let b = self.resolve(b);
        match (&a, &b) {
            (Ty::Never, _) => Ok(b),
            (_, Ty::Never) => Ok(a),
            (Ty::IVar(x), Ty::IVar(y)) => {
                if x != y {
                    self.parent[*x] = *y;
                }
                Ok(Ty::IVar(*y))
            }
            (Ty::IVar(x), Ty::Int(it)) | (Ty::Int(it), Ty::IVar(x)) => {
                self.bound[*x] = Some(*it);
                Ok(Ty::Int(*it))
            }
            (Ty::Int(x), Ty::Int(y)) if x == y => Ok(a),
            (Ty::List(x), Ty::List(y)) => Ok(Ty::list(self.unify(x, y)?)),
            // bytes and strings share a representation
            (Ty::Str, Ty::List(y)) | (Ty::List(y), Ty::Str) => {
                self.unify(y, &Ty::u8())?;
                Ok(Ty::Str)
            }
            (Ty::Opt(x), Ty::Opt(y)) => Ok(Ty::opt(self.unify(x, y)?)),
            (Ty::Res(x), Ty::Res(y)) => Ok(Ty::res(self.unify(x, y)?)),
            (Ty::Res2(x, e), Ty::Res2(y, f)) => Ok(Ty::Res2(Box::new(self.unify(x, y)?), Box::new(self.unify(e, f)?))),
            (Ty::Tuple(x), Ty::Tuple(y)) if x.len() == y.len() => {
                let mut v = vec![];
                for (p, q) in x.iter().zip(y.iter()) {
                    v.push(self.unify(p, q)?);
                }
                Ok(Ty::Tuple(v))
            }
            _ if a == b => Ok(a),
            _ => Err(format!("unsupported: type mismatch {:?} vs {:?}", a, b)),
        }
    }
}

/// Lean spelling of a type
pub fn lean_ty(t: &Ty) -> String {
    match t {
        Ty::Int(it) => if it.signed() { "Int".into() } else { "Nat".into() },
        Ty::IVar(_) => "Int".into(),
        Ty::Bool => "Bool".into(),
        Ty::Char => "Nat".into(),
        Ty::Str => "(List Nat)".into(),
        Ty::List(a) => format!("(List {})", lean_ty(a)),
        Ty::Opt(a) => format!("(Option {})", lean_ty(a)),
        Ty::Res(a) => format!("(Res {})", lean_ty(a)),
        Ty::Res2(a, e) => format!("(Except {} {})", lean_ty(e), lean_ty(a)),
        Ty::Tuple(v) if v.is_empty() => "Unit".into(),
        Ty::Tuple(v) => format!("({})", v.iter().map(lean_ty).collect::<Vec<_>>().join(" × ")),
        Ty::Unit => "Unit".into(),
        Ty::Struct(n) => n.clone(),
        Ty::Error => "Err".into(),
        Ty::Never => "Unit".into(),
    }
}

impl fmt::Display for Ty {
    fn fmt(&self, f: &mut fmt::Formatter) -> fmt::Result {
        write!(f, "{}", lean_ty(self))
    }
}
