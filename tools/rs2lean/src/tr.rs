//! Translation of items: unit driver, function signatures, statements and control flow.
//! Expressions are in `ex.rs`.
use crate::targets::{Item, Unit};
use crate::ty::*;
use std::collections::HashMap;
use std::fs;
use std::path::Path;
use syn::spanned::Spanned;

pub type R<T> = Result<T, String>;

pub fn unsupported<T>(what: &str, sp: proc_macro2::Span) -> R<T> {
    Err(format!("unsupported: {} (line {})", what, sp.start().line))
}

/// crate `Error` variants -> `SmVerif.Err` constructors (payloads are dropped)
pub fn err_variant(name: &str) -> Option<&'static str> {
    Some(match name {
        "InvalidBase64" => ".b64",
        "VlqLeftover" => ".leftover",
        "VlqNoValues" => ".novalues",
        "VlqOverflow" => ".overflow",
        "BadSegmentSize" => ".segsize",
        "BadSourceReference" => ".srcref",
        "BadNameReference" => ".nameref",
        "Io" => ".io",
        "BadJson" => ".json",
        "InvalidDataUrl" => ".dataurl",
        "CannotFlatten" => ".flatten",
        "IncompatibleSourceMap" => ".incompatible",
        "InvalidRamBundleMagic" => ".rammagic",
        "InvalidRamBundleIndex" => ".ramindex",
        "InvalidRamBundleEntry" => ".ramentry",
        _ => return None,
    })
}

#[derive(Clone, Debug)]
pub struct Param {
    pub name: String,
    pub ty: Ty,
    pub mut_ref: bool,
}

#[derive(Clone, Debug)]
pub struct FnSig {
    pub lean: String,
    pub params: Vec<Param>,
    pub ret: Ty,
    /// the function contains a `while`/`loop` (directly or through callees): first Lean parameter is fuel
    pub fuel: bool,
    /// type parameters (in order) and whether each needs an ordering (`K: Ord`)
    pub generics: Vec<(String, bool)>,
    /// names of the external-function parameters the function takes (see `Item::Extern`)
    pub externs: Vec<String>,
}

#[derive(Clone, Debug)]
pub struct Var {
    pub lean: String,
    pub ty: Ty,
}

/// one step of straight-line code in front of a value
#[derive(Clone, Debug)]
pub enum Step {
    Let(String, String),
    /// continue only if the condition holds, else `.error <err>`
    Guard(String, String),
    /// `match <expr : Res _> with | .error e => .error e | .ok <pat> => …`
    BindOk(String, String),
    /// `match <expr : Option _> with | none => <none_branch> | some <pat> => …`
    BindSome(String, String, String),
}

#[derive(Clone, Debug)]
pub struct Val {
    pub steps: Vec<Step>,
    pub atom: String,
    /// for `Bool` values: a `Prop` reading of the same condition, used in `if`
    pub prop: Option<String>,
    pub ty: Ty,
}

impl Val {
    pub fn pure(atom: impl Into<String>, ty: Ty) -> Val {
        Val { steps: vec![], atom: atom.into(), prop: None, ty }
    }
}

pub fn wrap(steps: &[Step], body: String) -> String {
    let mut out = body;
    for s in steps.iter().rev() {
        out = match s {
            Step::Let(n, t) => format!("let {} := {}\n{}", n, t, out),
            Step::Guard(c, e) => format!("if {} then\n{}\nelse .error {}", c, indent(&out), e),
            Step::BindOk(p, e) => format!("match {} with\n| .error e => .error e\n| .ok {} =>\n{}", e, p, indent(&out)),
            Step::BindSome(p, e, n) => format!("match {} with\n| none => {}\n| some {} =>\n{}", e, n, p, indent(&out)),
        };
    }
    out
}

pub fn indent(s: &str) -> String {
    s.lines().map(|l| format!("  {}", l)).collect::<Vec<_>>().join("\n")
}

/// parenthesise a multi-line term so that it can be used as a sub-term
pub fn paren(s: &str) -> String {
    format!("({})", s)
}

pub struct Global {
    /// external pure functions of the current unit: (rust name, lean parameter name, type)
    pub externs: Vec<(String, String, Ty)>,
    /// enum name -> variants (name, payload types)
    pub enums: HashMap<String, Vec<(String, Vec<Ty>)>>,
    /// structs declared `#[repr(C, packed)]` (size_of / pread are only modelled for these)
    pub packed: Vec<String>,
    /// struct name -> kept fields with their types
    pub structs: HashMap<String, Vec<(String, Ty)>>,
    pub fns: HashMap<String, FnSig>,
    pub consts: HashMap<String, (Ty, String)>,
    pub ns: String,
    /// opaque types of the current unit (see `Item::Opaque`)
    pub opaques: Vec<String>,
    /// one-expression getters expanded in place: "Type::method" -> (body, self type, result type)
    pub getters: HashMap<String, (syn::Expr, Ty, Ty)>,
    /// `impl Deref`: type -> field its `deref` returns
    pub derefs: HashMap<String, String>,
}

pub struct LoopCx {
    /// text that continues the loop with the current values of the mutated variables
    pub continue_text: String,
    /// text that leaves the loop normally
    pub break_text: String,
    /// the loop function returns `Exit`
    pub has_ret: bool,
    pub label: Option<String>,
    /// text for `break 'l` where `'l` is the loop directly enclosing this one
    pub far_break_text: Option<String>,
}

pub struct FnCx<'g> {
    pub g: &'g Global,
    pub lean_name: String,
    pub ret: Ty,
    pub mut_params: Vec<String>,
    pub scopes: Vec<HashMap<String, Var>>,
    pub u: Unifier,
    pub tmp: usize,
    pub loops: usize,
    pub aux: Vec<String>,
    pub loop_stack: Vec<LoopCx>,
    pub uses_fuel: bool,
    pub pass2: bool,
    /// inside a loop function: how a `return v` of the enclosing function is written
    pub in_loop_fn: bool,
    /// binders / explicit arguments for the type parameters, repeated on every auxiliary function
    pub generic_binders: String,
    pub generic_args: String,
    /// `let v = bytes.view_bits_mut::<Lsb0>()`: v -> bytes
    pub bit_views: HashMap<String, String>,
    /// label of the loop that directly encloses the loop being translated
    pub enclosing_label: Option<String>,
    /// `let x: &mut T = &mut y;`: x is another name for y
    pub aliases: HashMap<String, String>,
    /// `let f = || expr;`: zero-argument closures bound to a name, expanded where the name is used as a thunk
    pub thunks: HashMap<String, syn::Expr>,
}

pub type K<'a> = &'a dyn Fn(&mut FnCx, Option<Val>) -> R<String>;

impl<'g> FnCx<'g> {
    pub fn fresh_tmp(&mut self) -> String {
        self.tmp += 1;
        format!("t{}", self.tmp)
    }
    pub fn lookup(&self, name: &str) -> Option<Var> {
        if let Some(target) = self.aliases.get(name) {
            return self.lookup(&target.clone());
        }
        for s in self.scopes.iter().rev() {
            if let Some(v) = s.get(name) {
                return Some(v.clone());
            }
        }
        None
    }
    pub fn declare(&mut self, name: &str, ty: Ty) -> String {
        // a declaration that shadows a visible name gets a fresh Lean name, so that code after an inner
        // block (emitted inside it, in continuation style) still sees the outer variable
        let mut lean = sanitize(name);
        if self.lookup(name).is_some() || self.lean_name_in_use(&lean) {
            let mut i = 1;
            loop {
                let cand = format!("{}_{}", sanitize(name), i);
                if !self.lean_name_in_use(&cand) {
                    lean = cand;
                    break;
                }
                i += 1;
            }
        }
        self.scopes.last_mut().unwrap().insert(name.to_string(), Var { lean: lean.clone(), ty });
        lean
    }
    fn lean_name_in_use(&self, lean: &str) -> bool {
        self.scopes.iter().any(|s| s.values().any(|v| v.lean == lean))
    }
    pub fn set_ty(&mut self, name: &str, ty: Ty) {
        for s in self.scopes.iter_mut().rev() {
            if let Some(v) = s.get_mut(name) {
                v.ty = ty;
                return;
            }
        }
    }

    /// how `return <v>` of the whole function is written (v already of the declared return type)
    pub fn ret_text(&mut self, v: Option<&Val>) -> R<String> {
        // returned tuple: value (if not unit) then the &mut parameters
        let mut parts = vec![];
        let retty = self.ret.clone();
        let inner_unit = matches!(ret_payload(&retty), Ty::Unit);
        if let Some(v) = v {
            if !inner_unit {
                parts.push(v.atom.clone());
            }
        } else if !inner_unit {
            return Err("unsupported: return without a value".into());
        }
        for p in self.mut_params.clone() {
            let var = self.lookup(&p).ok_or("internal: mut param not in scope")?;
            parts.push(var.lean);
        }
        let payload = if parts.is_empty() { "()".to_string() } else if parts.len() == 1 { parts[0].clone() } else { format!("({})", parts.join(", ")) };
        Ok(if self.in_loop_fn { format!(".ok (.ret {})", payload) } else { format!(".ok {}", payload) })
    }
}

/// the success payload of a declared return type: `Result<T>` -> T, else the type itself
pub fn ret_payload(t: &Ty) -> Ty {
    match t {
        Ty::Res(a) => (**a).clone(),
        other => other.clone(),
    }
}

pub fn sanitize(n: &str) -> String {
    // Lean keywords / prelude names that Rust identifiers may collide with
    match n {
        "end" | "from" | "at" | "in" | "do" | "then" | "else" | "fun" | "show" | "have" | "open" | "prefix" | "where" | "with" | "by" | "if" | "let" | "match" | "namespace" | "section" | "variable" | "instance" | "structure" | "class" | "deriving" | "theorem" | "def" | "example" | "local" | "macro" | "syntax" | "mutual" | "rec" | "export" | "import" | "universe" | "set_option" | "attribute" | "private" | "protected" | "partial" | "unsafe" | "noncomputable" | "abbrev" | "axiom" | "opaque" | "inductive" | "extends" | "using" | "calc" | "suffices" | "obtain" | "fuel" | "e" | "self" => format!("{}_", n),
        _ => n.to_string(),
    }
}

thread_local! {
    /// unit-level readings of type names (e.g. the generic `R: Read` of `StripHeaderReader<R>`)
    pub static TYPE_ALIASES: std::cell::RefCell<HashMap<String, Ty>> = std::cell::RefCell::new(HashMap::new());
}

thread_local! {
    pub static SELF_TY: std::cell::RefCell<Option<Ty>> = std::cell::RefCell::new(None);
    /// names of the translated structs (for rust_ty)
    pub static STRUCTS: std::cell::RefCell<Vec<String>> = std::cell::RefCell::new(vec![]);
    /// type parameters of the function being translated: name -> Some(closure type) for `F: Fn(..) -> ..`
    pub static GENERICS: std::cell::RefCell<HashMap<String, Option<Ty>>> = std::cell::RefCell::new(HashMap::new());
}

pub fn rust_ty(t: &syn::Type) -> R<Ty> {
    match t {
        syn::Type::Reference(r) => rust_ty(&r.elem),
        syn::Type::Paren(p) => rust_ty(&p.elem),
        syn::Type::Slice(s) => Ok(Ty::list(rust_ty(&s.elem)?)),
        syn::Type::Array(a) => Ok(Ty::list(rust_ty(&a.elem)?)),
        syn::Type::BareFn(bf) => {
            let args = bf.inputs.iter().map(|a| rust_ty(&a.ty)).collect::<R<Vec<_>>>()?;
            let ret = match &bf.output {
                syn::ReturnType::Default => Ty::Unit,
                syn::ReturnType::Type(_, t) => rust_ty(t)?,
            };
            Ok(Ty::Fun(args, Box::new(ret)))
        }
        syn::Type::Tuple(t) if t.elems.is_empty() => Ok(Ty::Unit),
        syn::Type::Tuple(t) => Ok(Ty::Tuple(t.elems.iter().map(rust_ty).collect::<R<Vec<_>>>()?)),
        syn::Type::Path(p) => {
            let seg = p.path.segments.last().ok_or("unsupported: empty type path")?;
            let name = seg.ident.to_string();
            if let Some(it) = IntTy::parse(&name) {
                return Ok(Ty::Int(it));
            }
            let arg = |i: usize| -> R<Ty> {
                if let syn::PathArguments::AngleBracketed(ab) = &seg.arguments {
                    if let Some(syn::GenericArgument::Type(t)) = ab.args.iter().filter(|a| matches!(a, syn::GenericArgument::Type(_))).nth(i) {
                        return rust_ty(t);
                    }
                }
                Err(format!("unsupported: generic argument {} of {}", i, name))
            };
            if p.path.segments.len() == 1 {
                let g = GENERICS.with(|g| g.borrow().get(&name).cloned());
                if let Some(g) = g {
                    return Ok(match g {
                        Some(f) => f,
                        None => Ty::Param(name),
                    });
                }
            }
            // the unit's own readings of a name (opaque types, reader parameters) come before types of earlier units
            if p.path.segments.len() == 1 {
                if let Some(t) = TYPE_ALIASES.with(|a| a.borrow().get(&name).cloned()) {
                    return Ok(t);
                }
            }
            if STRUCTS.with(|st| st.borrow().contains(&name)) {
                return Ok(Ty::Struct(name));
            }
            if name == "IgnoredAny" {
                return Ok(Ty::Unit);
            }
            match name.as_str() {
                "Self" => SELF_TY.with(|t| t.borrow().clone()).ok_or_else(|| "unsupported: Self outside an impl".to_string()),
                "bool" => Ok(Ty::Bool),
                "char" => Ok(Ty::Char),
                "str" | "String" => Ok(Ty::Str),
                "Vec" => Ok(Ty::list(arg(0)?)),
                // Cow<[T]> / Cow<str>: the borrowed-or-owned distinction is not observable
                "Cow" | "Arc" | "Rc" | "Box" => arg(0),
                "BitVec" => Ok(Ty::list(Ty::Bool)),
                "BTreeSet" => Ok(Ty::Set(Box::new(arg(0)?))),
                "FxHashMap" | "HashMap" => Ok(Ty::Map(Box::new(arg(0)?), Box::new(arg(1)?))),
                "Option" => Ok(Ty::opt(arg(0)?)),
                "Result" => {
                    // crate::errors::Result<T>, io::Result<T>  (one type argument)
                    if let syn::PathArguments::AngleBracketed(ab) = &seg.arguments {
                        if ab.args.len() == 1 {
                            return Ok(Ty::res(arg(0)?));
                        }
                    }
                    Err("unsupported: two-argument Result in a signature".into())
                }
                _ => unsupported(&format!("type {}", name), t.span()),
            }
        }
        _ => unsupported("type form", t.span()),
    }
}

fn find_fn<'a>(file: &'a syn::File, item: &Item) -> R<&'a syn::ItemFn> {
    fn top<'a>(file: &'a syn::File, name: &str) -> Option<&'a syn::ItemFn> {
        file.items.iter().find_map(|i| match i {
            syn::Item::Fn(f) if f.sig.ident == name && !f.attrs.iter().any(|a| a.path().is_ident("test")) => Some(f),
            _ => None,
        })
    }
    match item {
        Item::Fn(n) => top(file, n).ok_or(format!("unsupported: fn {} not found", n)),
        Item::NestedFn(o, n) if top(file, o).is_none() => {
            // nested inside a method: any function item of that name inside a body whose owner is named `o`
            struct V<'a, 'f>(&'a str, &'a str, Option<&'f syn::ItemFn>, bool);
            impl<'ast, 'a> syn::visit::Visit<'ast> for V<'a, 'ast> {
                fn visit_impl_item_fn(&mut self, m: &'ast syn::ImplItemFn) {
                    let was = self.3;
                    self.3 = m.sig.ident == self.0;
                    syn::visit::visit_impl_item_fn(self, m);
                    self.3 = was;
                }
                fn visit_item_fn(&mut self, f: &'ast syn::ItemFn) {
                    if self.3 && self.2.is_none() && f.sig.ident == self.1 {
                        self.2 = Some(f);
                    }
                    syn::visit::visit_item_fn(self, f);
                }
            }
            let mut v = V(o, n, None, false);
            syn::visit::Visit::visit_file(&mut v, file);
            v.2.ok_or(format!("unsupported: nested fn {}::{} not found", o, n))
        }
        Item::NestedFn(o, n) => {
            let outer = top(file, o).ok_or(format!("unsupported: fn {} not found", o))?;
            outer
                .block
                .stmts
                .iter()
                .find_map(|s| match s {
                    syn::Stmt::Item(syn::Item::Fn(f)) if f.sig.ident == *n => Some(f),
                    _ => None,
                })
                .ok_or(format!("unsupported: nested fn {}::{} not found", o, n))
        }
        _ => Err("internal: find_fn on a non-fn item".into()),
    }
}

fn find_method<'a>(file: &'a syn::File, ty: &str, name: &str) -> R<&'a syn::ImplItemFn> {
    find_method_in(file, ty, name, false).or_else(|_| find_method_in(file, ty, name, true))
}

fn find_method_in<'a>(file: &'a syn::File, ty: &str, name: &str, traits: bool) -> R<&'a syn::ImplItemFn> {
    for i in &file.items {
        if let syn::Item::Impl(im) = i {
            if im.trait_.is_some() != traits {
                continue;
            }
            let tn = match &*im.self_ty {
                syn::Type::Path(p) => path_last(&p.path),
                _ => continue,
            };
            if tn != ty {
                continue;
            }
            for it in &im.items {
                if let syn::ImplItem::Fn(f) = it {
                    if f.sig.ident == name {
                        return Ok(f);
                    }
                }
            }
        }
    }
    Err(format!("unsupported: method {}::{} not found", ty, name))
}

fn is_packed(file: &syn::File, name: &str) -> bool {
    file.items.iter().any(|i| match i {
        syn::Item::Struct(st) if st.ident == name => st.attrs.iter().any(|a| a.path().is_ident("repr") && {
            let t = quote::ToTokens::to_token_stream(a).to_string();
            t.contains("packed") && t.contains('C')
        }),
        _ => false,
    })
}

fn all_structs(file: &syn::File) -> Vec<syn::ItemStruct> {
    struct V(Vec<syn::ItemStruct>);
    impl<'ast> syn::visit::Visit<'ast> for V {
        fn visit_item_struct(&mut self, s: &'ast syn::ItemStruct) {
            self.0.push(s.clone());
        }
    }
    let mut v = V(vec![]);
    syn::visit::Visit::visit_file(&mut v, file);
    v.0
}

fn translate_struct(file: &syn::File, name: &str, keep: &[&str], opaques: &[String]) -> R<(Vec<(String, Ty)>, String)> {
    for st in &all_structs(file) {
        {
            if st.ident != name {
                continue;
            }
            let mut fields = vec![];
            let binders: String = opaques.iter().map(|o| format!(" ({} : Type)", o)).collect();
            if !opaques.is_empty() {
                STRUCT_APP.with(|a| a.borrow_mut().insert(name.to_string(), opaques.join(" ")));
            }
            let mut text = format!("/-- `struct {}` (kept fields: {}) -/\nstructure {}{} where\n", name, keep.join(", "), name, binders);
            for f in &st.fields {
                let fname = f.ident.as_ref().ok_or("unsupported: tuple struct")?.to_string();
                if !keep.contains(&fname.as_str()) {
                    continue;
                }
                let t = rust_ty(&f.ty)?;
                text.push_str(&format!("  {} : {}\n", sanitize(&fname), lean_ty(&t)));
                fields.push((fname, t));
            }
            if fields.len() != keep.len() {
                return Err(format!("unsupported: struct {} lacks some of the expected fields", name));
            }
            text.push_str("  deriving DecidableEq, Repr, Inhabited\n\n");
            return Ok((fields, text));
        }
    }
    Err(format!("unsupported: struct {} not found", name))
}

pub fn translate_unit(src: &Path, unit: &Unit, g: &mut Global) -> R<String> {
    let path = src.join(unit.file);
    let text = fs::read_to_string(&path).map_err(|e| format!("unsupported: cannot read {}: {}", path.display(), e))?;
    let file = syn::parse_file(&text).map_err(|e| format!("unsupported: parse error in {}: {}", unit.file, e))?;
    g.ns = unit.module.to_string();
    CURRENT_FILE.with(|f| *f.borrow_mut() = unit.file.to_string());
    g.externs.clear();
    g.opaques.clear();
    g.getters.clear();
    STRUCT_APP.with(|a| a.borrow_mut().clear());
    TYPE_ALIASES.with(|a| a.borrow_mut().clear());
    let mut out = String::new();
    out.push_str("import SmVerif.Rs.Prelude\n");
    for imp in &unit.imports {
        out.push_str(&format!("import SmVerif.Generated.{}\n", imp));
    }
    out.push_str(&format!(
        "/-\nGENERATED by tools/rs2lean from /repo/src/{} - do not edit.\nRegenerated on every run of a check; the theorems in SmVerif/Tie/ relate these definitions to the\nhand-written model, so they are re-proved against what the Rust source says now.\n-/\nset_option linter.unusedVariables false\nnamespace SmVerif.Gen.{}\nopen SmVerif SmVerif.Rs\n\n",
        unit.file, ns_of(unit.module)
    ));
    for imp in &unit.imports {
        out.push_str(&format!("open SmVerif.Gen.{}\n", ns_of(imp)));
    }
    for it in &unit.fns {
        match it {
            Item::Const(name) => {
                let (ty, text) = translate_const(&file, name)?;
                let lean = sanitize(name);
                out.push_str(&format!("/-- `{}` ({}) -/\ndef {} : {} :=\n  {}\n\n", name, unit.file, lean, lean_ty(&ty), text));
                g.consts.insert(name.to_string(), (ty, format!("SmVerif.Gen.{}.{}", ns_of(unit.module), lean)));
            }
            Item::Fn(_) | Item::NestedFn(..) => {
                let func = find_fn(&file, it)?;
                let sig = signature(g, func, unit.module)?;
                g.fns.insert(func.sig.ident.to_string(), sig);
                let (text, fuel) = translate_fn(g, func, unit.module)?;
                g.fns.get_mut(&func.sig.ident.to_string()).unwrap().fuel = fuel;
                out.push_str(&text);
                out.push('\n');
            }
            Item::Region(func_name, new_name, params, skip, result, result_ty) => {
                let func = find_fn(&file, &Item::Fn(func_name))?;
                let mut stmts: Vec<syn::Stmt> = vec![];
                let mut seen_for = false;
                for st in &func.block.stmts {
                    if let syn::Stmt::Local(l) = st {
                        let pat = match &l.pat {
                            syn::Pat::Type(pt) => &*pt.pat,
                            p => p,
                        };
                        if let syn::Pat::Ident(pi) = pat {
                            if skip.contains(&pi.ident.to_string().as_str()) {
                                continue;
                            }
                        }
                    }
                    stmts.push(st.clone());
                    if matches!(st, syn::Stmt::Expr(syn::Expr::ForLoop(_), _)) {
                        seen_for = true;
                        break;
                    }
                }
                if !seen_for {
                    return Err(format!("unsupported: region of {}: no top-level for loop", func_name));
                }
                let header = format!("fn {}({}) -> Result<{}> {{ Ok({}) }}", new_name, params, result_ty, result);
                let mut synthetic: syn::ItemFn = syn::parse_str(&header).map_err(|e| format!("internal: region header: {}", e))?;
                let tail = synthetic.block.stmts.pop().unwrap();
                synthetic.block.stmts = stmts;
                synthetic.block.stmts.push(tail);
                let sig = signature(g, &synthetic, unit.module)?;
                g.fns.insert(new_name.to_string(), sig);
                let (text, fuel) = translate_fn(g, &synthetic, unit.module)?;
                g.fns.get_mut(&new_name.to_string()).unwrap().fuel = fuel;
                out.push_str(&format!("/- region of `{}`: its statements up to and including the first top-level `for` loop,\n   without the `let`s of {:?} (these are parameters here) -/\n", func_name, skip));
                out.push_str(&text);
                out.push('\n');
            }
            Item::MethodRewritten(owner, method, new_name, params, result_ty, rewrites) => {
                use quote::ToTokens;
                let m = find_method(&file, owner, method)?;
                // token-level matching: the flattened token sequences are compared ignoring the spacing flags of
                // punctuation (the printer and the lexer disagree on `?;`), the text is rebuilt with the flags kept
                fn flat(ts: proc_macro2::TokenStream, out: &mut Vec<(String, bool)>) {
                    for tt in ts {
                        match tt {
                            proc_macro2::TokenTree::Group(g) => {
                                let (o, c) = match g.delimiter() {
                                    proc_macro2::Delimiter::Parenthesis => ("(", ")"),
                                    proc_macro2::Delimiter::Brace => ("{", "}"),
                                    proc_macro2::Delimiter::Bracket => ("[", "]"),
                                    proc_macro2::Delimiter::None => ("", ""),
                                };
                                out.push((o.to_string(), false));
                                flat(g.stream(), out);
                                out.push((c.to_string(), false));
                            }
                            proc_macro2::TokenTree::Punct(p) => out.push((p.as_char().to_string(), p.spacing() == proc_macro2::Spacing::Joint)),
                            other => out.push((other.to_string(), false)),
                        }
                    }
                }
                let parse = |t: &str| -> R<Vec<(String, bool)>> {
                    let ts: proc_macro2::TokenStream = t.parse().map_err(|e| format!("internal: rewrite pattern `{}`: {}", t, e))?;
                    let mut v = vec![];
                    flat(ts, &mut v);
                    Ok(v)
                };
                let mut body: Vec<(String, bool)> = vec![];
                flat(m.block.to_token_stream(), &mut body);
                for (pat, rep) in rewrites.iter() {
                    let p = parse(pat)?;
                    let r = parse(rep)?;
                    let mut out: Vec<(String, bool)> = vec![];
                    let mut i = 0;
                    let mut hits = 0;
                    while i < body.len() {
                        if !p.is_empty() && i + p.len() <= body.len() && body[i..i + p.len()].iter().zip(p.iter()).all(|(a, b)| a.0 == b.0) {
                            out.extend(r.iter().cloned());
                            i += p.len();
                            hits += 1;
                        } else {
                            out.push(body[i].clone());
                            i += 1;
                        }
                    }
                    if hits == 0 {
                        return Err(format!("unsupported: {}::{} no longer contains `{}` (rewrite rule of the reading)", owner, method, pat));
                    }
                    body = out;
                }
                let mut body_text = String::new();
                for (t, joint) in &body {
                    body_text.push_str(t);
                    if !joint {
                        body_text.push(' ');
                    }
                }
                if rename_self(&body_text) != body_text {
                    return Err(format!("unsupported: {}::{} still mentions `self` after the rewrites", owner, method));
                }
                let text_fn = format!("fn {}({}) -> {} {}", new_name, params, result_ty, body_text);
                let synthetic: syn::ItemFn = syn::parse_str(&text_fn).map_err(|e| format!("internal: rewritten method: {}", e))?;
                let sig = signature(g, &synthetic, unit.module)?;
                g.fns.insert(new_name.to_string(), sig);
                let (text, fuel) = translate_fn(g, &synthetic, unit.module)?;
                g.fns.get_mut(&new_name.to_string()).unwrap().fuel = fuel;
                out.push_str(&format!("/- `{}::{}` under the reading given by the rewrite rules in tools/rs2lean/src/targets.rs (signature: {}) -/\n", owner, method, params));
                out.push_str(&text);
                out.push('\n');
            }
            Item::ForBody(owner, func_name, var, new_name, params, result_ty, tail) => {
                let block: syn::Block = if owner.is_empty() {
                    (*find_fn(&file, &Item::Fn(func_name))?.block).clone()
                } else {
                    find_method(&file, owner, func_name)?.block.clone()
                };
                struct V<'a>(&'a str, Option<syn::Block>);
                impl<'ast, 'a> syn::visit::Visit<'ast> for V<'a> {
                    fn visit_expr_for_loop(&mut self, l: &'ast syn::ExprForLoop) {
                        if self.1.is_none() {
                            if let syn::Pat::Ident(pi) = &*l.pat {
                                if pi.ident == self.0 {
                                    self.1 = Some(l.body.clone());
                                    return;
                                }
                            }
                        }
                        syn::visit::visit_expr_for_loop(self, l);
                    }
                }
                let mut v = V(var, None);
                syn::visit::Visit::visit_block(&mut v, &block);
                let body = v.1.ok_or(format!("unsupported: no `for {} in` loop in {}", var, func_name))?;
                if loop_left_early(&body) {
                    return Err(format!("unsupported: the `for {}` loop of {} is left early (break/continue/return)", var, func_name));
                }
                use quote::ToTokens;
                let body_text: String = body.stmts.iter().map(|s| s.to_token_stream().to_string()).collect::<Vec<_>>().join("\n");
                let body_text = rename_self(&body_text);
                let text_fn = format!("fn {}({}) -> {} {{ {} {} }}", new_name, params, result_ty, body_text, tail);
                let synthetic: syn::ItemFn = syn::parse_str(&text_fn).map_err(|e| format!("internal: for-body function: {}", e))?;
                let sig = signature(g, &synthetic, unit.module)?;
                g.fns.insert(new_name.to_string(), sig);
                let (text, fuel) = translate_fn(g, &synthetic, unit.module)?;
                g.fns.get_mut(&new_name.to_string()).unwrap().fuel = fuel;
                out.push_str(&format!("/- one iteration of the loop `for {} in …` of `{}::{}` as a function of its own (`self` is `this`) -/\n", var, owner, func_name));
                out.push_str(&text);
                out.push('\n');
            }
            Item::ClosureBody(owner, func_name, param, new_name, params, result_ty) => {
                let block: syn::Block = if owner.is_empty() {
                    (*find_fn(&file, &Item::Fn(func_name))?.block).clone()
                } else {
                    find_method(&file, owner, func_name)?.block.clone()
                };
                struct V<'a>(&'a str, Option<syn::Expr>);
                impl<'ast, 'a> syn::visit::Visit<'ast> for V<'a> {
                    fn visit_expr_closure(&mut self, c: &'ast syn::ExprClosure) {
                        if self.1.is_none() && c.inputs.len() == 1 {
                            if let syn::Pat::Ident(pi) = &c.inputs[0] {
                                if pi.ident == self.0 {
                                    self.1 = Some((*c.body).clone());
                                    return;
                                }
                            }
                        }
                        syn::visit::visit_expr_closure(self, c);
                    }
                }
                let mut v = V(param, None);
                syn::visit::Visit::visit_block(&mut v, &block);
                let body = v.1.ok_or(format!("unsupported: no closure |{}| in {}", param, func_name))?;
                let header = format!("fn {}({}) -> {} {{ 0 }}", new_name, params, result_ty);
                let mut synthetic: syn::ItemFn = syn::parse_str(&header).map_err(|e| format!("internal: closure header: {}", e))?;
                synthetic.block.stmts = match body {
                    syn::Expr::Block(b) => b.block.stmts,
                    other => vec![syn::Stmt::Expr(other, None)],
                };
                let sig = signature(g, &synthetic, unit.module)?;
                g.fns.insert(new_name.to_string(), sig);
                let (text, fuel) = translate_fn(g, &synthetic, unit.module)?;
                g.fns.get_mut(&new_name.to_string()).unwrap().fuel = fuel;
                out.push_str(&format!("/- body of the closure `|{}| …` of `{}::{}` as a function of its own -/\n", param, owner, func_name));
                out.push_str(&text);
                out.push('\n');
            }
            Item::Enum(name) => {
                let has_enum = |f: &syn::File| f.items.iter().any(|i| matches!(i, syn::Item::Enum(e) if e.ident == *name));
                let other_holder;
                let enum_file: &syn::File = if has_enum(&file) {
                    &file
                } else {
                    other_holder = other_file_with(src, unit.file, has_enum).ok_or(format!("unsupported: enum {} not found", name))?;
                    &other_holder
                };
                let en = enum_file
                    .items
                    .iter()
                    .find_map(|i| match i {
                        syn::Item::Enum(e) if e.ident == *name => Some(e),
                        _ => None,
                    })
                    .ok_or(format!("unsupported: enum {} not found", name))?;
                let mut variants = vec![];
                let binders: String = g.opaques.iter().map(|o| format!(" ({} : Type)", o)).collect();
                if !g.opaques.is_empty() {
                    STRUCT_APP.with(|a| a.borrow_mut().insert(name.to_string(), g.opaques.join(" ")));
                }
                let mut text = format!("/-- `enum {}` -/\ninductive {}{} where\n", name, name, binders);
                for v in &en.variants {
                    let tys = match &v.fields {
                        syn::Fields::Unit => vec![],
                        syn::Fields::Unnamed(u) => u.unnamed.iter().map(|f| rust_ty(&f.ty)).collect::<R<Vec<_>>>()?,
                        syn::Fields::Named(_) => return Err(format!("unsupported: struct variant in enum {}", name)),
                    };
                    let args = tys.iter().enumerate().map(|(i, t)| format!(" (a{} : {})", i, lean_ty(t))).collect::<String>();
                    text.push_str(&format!("  | {}{}\n", sanitize(&v.ident.to_string()), args));
                    variants.push((v.ident.to_string(), tys));
                }
                text.push_str("  deriving DecidableEq, Repr, Inhabited\n\n");
                out.push_str(&text);
                g.enums.insert(name.to_string(), variants);
                // enums are named types like structs
                STRUCTS.with(|st| st.borrow_mut().push(name.to_string()));
            }
            Item::FnWithSig(func_name, new_name, params, result_ty) => {
                let func = find_fn(&file, &Item::Fn(func_name))?;
                let header = format!("fn {}({}) -> {} {{ 0 }}", new_name, params, result_ty);
                let mut synthetic: syn::ItemFn = syn::parse_str(&header).map_err(|e| format!("internal: header: {}", e))?;
                synthetic.block = func.block.clone();
                let sig = signature(g, &synthetic, unit.module)?;
                g.fns.insert(new_name.to_string(), sig);
                let (text, fuel) = translate_fn(g, &synthetic, unit.module)?;
                g.fns.get_mut(&new_name.to_string()).unwrap().fuel = fuel;
                out.push_str(&format!("/- `{}` with its generic parameters read as ({}) -/\n", func_name, params));
                out.push_str(&text);
                out.push('\n');
            }
            Item::Extern(name, sig_text) => {
                let t: syn::Type = syn::parse_str(sig_text).map_err(|e| format!("internal: extern type: {}", e))?;
                let ty = rust_ty(&t)?;
                out.push_str(&format!("/- external function `{}` ({}): an explicit parameter of every function below -/\n\n", name, sig_text));
                g.externs.push((name.to_string(), sanitize(name), ty));
            }
            Item::Deref(name) => {
                // find `impl Deref for <name>` and read the field out of `fn deref(&self) -> &Self::Target { &self.<field> }`
                let mut field = None;
                for it in &file.items {
                    if let syn::Item::Impl(im) = it {
                        let is_deref = im.trait_.as_ref().map(|(_, p, _)| path_last_seg(p) == "Deref").unwrap_or(false);
                        let on = matches!(&*im.self_ty, syn::Type::Path(tp) if path_last_seg(&tp.path) == *name);
                        if is_deref && on {
                            for ii in &im.items {
                                if let syn::ImplItem::Fn(f) = ii {
                                    if f.sig.ident == "deref" {
                                        if let [syn::Stmt::Expr(syn::Expr::Reference(r), None)] = f.block.stmts.as_slice() {
                                            if let syn::Expr::Field(fe) = &*r.expr {
                                                if matches!(&*fe.base, syn::Expr::Path(p) if p.path.is_ident("self")) {
                                                    if let syn::Member::Named(id) = &fe.member {
                                                        field = Some(id.to_string());
                                                    }
                                                }
                                            }
                                        }
                                    }
                                }
                            }
                        }
                    }
                }
                let field = field.ok_or(format!("unsupported: `impl Deref for {}` of the form `&self.field` not found", name))?;
                out.push_str(&format!("/- `impl Deref for {}`: derefs to its field `{}` (method calls it does not answer itself go there) -/\n\n", name, field));
                g.derefs.insert(name.to_string(), field);
            }
            Item::Alias(name, text) => {
                let t: syn::Type = syn::parse_str(text).map_err(|e| format!("internal: alias type: {}", e))?;
                let ty = rust_ty(&t)?;
                TYPE_ALIASES.with(|a| a.borrow_mut().insert(name.to_string(), ty));
                out.push_str(&format!("/- the type `{}` is read as `{}` in this unit -/\n\n", name, text));
            }
            Item::Opaque(name) => {
                g.opaques.push(name.to_string());
                TYPE_ALIASES.with(|a| a.borrow_mut().insert(name.to_string(), Ty::Param(name.to_string())));
                out.push_str(&format!("/- the type `{}` is kept abstract in this unit: a type parameter of everything below -/\n\n", name));
            }
            Item::ExternMethod(ty, method, lean, sig_text) => {
                let t: syn::Type = syn::parse_str(sig_text).map_err(|e| format!("internal: extern type: {}", e))?;
                let fty = rust_ty(&t)?;
                out.push_str(&format!("/- method `{}::{}` ({}) is not translated here: an explicit parameter `{}` of every function below -/\n\n", ty, method, sig_text, lean));
                g.externs.push((format!("{}::{}", ty, method), lean.to_string(), fty));
            }
            Item::InlineGetter(ty, method) => {
                let m = find_method(&file, ty, method)?;
                let body = match m.block.stmts.as_slice() {
                    [syn::Stmt::Expr(e, None)] => e.clone(),
                    _ => return Err(format!("unsupported: {}::{} is no longer a one-expression getter", ty, method)),
                };
                if m.sig.inputs.len() != 1 || !matches!(m.sig.inputs.first(), Some(syn::FnArg::Receiver(_))) {
                    return Err(format!("unsupported: getter {}::{} takes arguments", ty, method));
                }
                let ret = match &m.sig.output {
                    syn::ReturnType::Default => Ty::Unit,
                    syn::ReturnType::Type(_, t) => rust_ty(t)?,
                };
                out.push_str(&format!("/- `{}::{}` (line {}) is a one-expression getter: expanded in place at its call sites -/\n\n", ty, method, m.sig.span().start().line));
                g.getters.insert(format!("{}::{}", ty, method), (body, Ty::Struct(ty.to_string()), ret));
            }
            Item::Reader(name) => {
                TYPE_ALIASES.with(|a| a.borrow_mut().insert(name.to_string(), Ty::Reader));
                out.push_str(&format!("/- the type parameter `{}: Read` is read as the list of chunks its successive `read` calls deliver (prelude `rsReaderRead`) -/\n\n", name));
            }
            Item::Mirror(name, text) => {
                out.push_str(&format!("/- mirror (written by hand in tools/rs2lean/src/targets.rs, part of the trusted base): {} -/\n{}\n\n", name, text));
            }
            Item::Struct(name, keep) => {
                let (fields, text) = match translate_struct(&file, name, keep, &g.opaques.clone()) {
                    Ok(x) => x,
                    Err(e) if e.ends_with("not found") => {
                        // a type of another file of the crate (the unit's functions live in one file, its types need not)
                        let other = other_file_with(src, unit.file, |f| all_structs(f).iter().any(|st| st.ident == *name)).ok_or(e)?;
                        translate_struct(&other, name, keep, &g.opaques.clone())?
                    }
                    Err(e) => return Err(e),
                };
                out.push_str(&text);
                g.structs.insert(name.to_string(), fields);
                if is_packed(&file, name) {
                    g.packed.push(name.to_string());
                }
                STRUCTS.with(|st| st.borrow_mut().push(name.to_string()));
            }
            Item::Method(ty, name) => {
                let m = find_method(&file, ty, name)?;
                SELF_TY.with(|t| *t.borrow_mut() = Some(Ty::Struct(ty.to_string())));
                let func = syn::ItemFn { attrs: vec![], vis: syn::Visibility::Inherited, sig: m.sig.clone(), block: Box::new(m.block.clone()) };
                let key = format!("{}::{}", ty, name);
                let mut sig = signature(g, &func, unit.module)?;
                // a method named like a field of its struct would collide with the projection in Lean
                let clash = g.structs.get(*ty).map(|fs| fs.iter().any(|(f, _)| f == name)).unwrap_or(false);
                let lean_method = if clash { format!("{}_fn", sanitize(name)) } else { sanitize(name) };
                sig.lean = format!("SmVerif.Gen.{}.{}.{}", ns_of(unit.module), ty, lean_method);
                g.fns.insert(key.clone(), sig);
                let owner_name = if clash { format!("{}.{}", ty, lean_method) } else { String::new() };
                let (text, fuel) = translate_fn_named(g, &func, unit.module, Some(if clash { owner_name.as_str() } else { ty }))?;
                g.fns.get_mut(&key).unwrap().fuel = fuel;
                SELF_TY.with(|t| *t.borrow_mut() = None);
                out.push_str(&text);
                out.push('\n');
            }
        }
    }
    out.push_str(&format!("end SmVerif.Gen.{}\n", ns_of(unit.module)));
    Ok(out)
}

fn translate_const(file: &syn::File, name: &str) -> R<(Ty, String)> {
    for i in &file.items {
        let (ident, ty, expr) = match i {
            syn::Item::Const(c) => (&c.ident, &*c.ty, &*c.expr),
            syn::Item::Static(s) => (&s.ident, &*s.ty, &*s.expr),
            _ => continue,
        };
        if ident != name {
            continue;
        }
        let t = rust_ty(ty)?;
        let text = const_expr(expr, &t)?;
        return Ok((t, text));
    }
    Err(format!("unsupported: const {} not found", name))
}

/// integer constant folding for table entries such as `-1 - 1`
fn const_eval(e: &syn::Expr) -> Option<i128> {
    match e {
        syn::Expr::Lit(l) => match &l.lit {
            syn::Lit::Int(i) => i.base10_parse::<i128>().ok(),
            syn::Lit::Byte(b) => Some(b.value() as i128),
            _ => None,
        },
        syn::Expr::Paren(p) => const_eval(&p.expr),
        syn::Expr::Unary(u) if matches!(u.op, syn::UnOp::Neg(_)) => const_eval(&u.expr).map(|v| -v),
        syn::Expr::Binary(b) => {
            let (l, r) = (const_eval(&b.left)?, const_eval(&b.right)?);
            match b.op {
                syn::BinOp::Add(_) => l.checked_add(r),
                syn::BinOp::Sub(_) => l.checked_sub(r),
                syn::BinOp::Mul(_) => l.checked_mul(r),
                _ => None,
            }
        }
        _ => None,
    }
}

fn const_expr(e: &syn::Expr, t: &Ty) -> R<String> {
    match (e, t) {
        (syn::Expr::Array(a), Ty::List(el)) => {
            let items = a.elems.iter().map(|x| const_expr(x, el)).collect::<R<Vec<_>>>()?;
            // 16 per line keeps the file readable
            let lines: Vec<String> = items.chunks(16).map(|c| c.join(", ")).collect();
            Ok(format!("[{}]", lines.join(",\n   ")))
        }
        (syn::Expr::Lit(l), _) => match &l.lit {
            syn::Lit::Int(i) => Ok(i.base10_digits().to_string()),
            syn::Lit::Byte(b) => Ok(b.value().to_string()),
            syn::Lit::Char(c) => Ok((c.value() as u32).to_string()),
            syn::Lit::Str(s) => Ok(format!("[{}]", s.value().bytes().map(|b| b.to_string()).collect::<Vec<_>>().join(", "))),
            syn::Lit::ByteStr(s) => Ok(format!("[{}]", s.value().iter().map(|b| b.to_string()).collect::<Vec<_>>().join(", "))),
            _ => unsupported("const literal", e.span()),
        },
        (syn::Expr::Reference(r), _) => const_expr(&r.expr, t),
        (syn::Expr::Unary(_), _) | (syn::Expr::Binary(_), _) | (syn::Expr::Paren(_), _) => {
            let v = const_eval(e).ok_or(format!("unsupported: const arithmetic (line {})", e.span().start().line))?;
            Ok(if v < 0 { format!("({})", v) } else { v.to_string() })
        }
        _ => unsupported("const initialiser", e.span()),
    }
}

pub fn signature(_g: &Global, f: &syn::ItemFn, module: &str) -> R<FnSig> {
    let mut generics: Vec<(String, bool)> = vec![];
    GENERICS.with(|g| g.borrow_mut().clear());
    for o in &_g.opaques {
        generics.push((o.clone(), false));
    }
    // first the plain type parameters, then the closure-typed ones (their bounds mention the former)
    for pass in 0..2 {
        for gp in &f.sig.generics.params {
            let tp = match gp {
                syn::GenericParam::Lifetime(_) => continue,
                syn::GenericParam::Type(tp) => tp,
                _ => return unsupported("const generic", f.sig.span()),
            };
            let name = tp.ident.to_string();
            let mut fn_bound = None;
            let mut ord = false;
            let mut stringy = false;
            for b in &tp.bounds {
                if let syn::TypeParamBound::Trait(tb) = b {
                    let seg = tb.path.segments.last().unwrap();
                    match seg.ident.to_string().as_str() {
                        // `T: Into<Arc<str>>`, `S: AsRef<str>`: the parameter is read as a string
                        "Into" | "AsRef" => {
                            let is_str = match &seg.arguments {
                                syn::PathArguments::AngleBracketed(ab) => match ab.args.first() {
                                    Some(syn::GenericArgument::Type(t)) => matches!(rust_ty(t), Ok(Ty::Str)),
                                    _ => false,
                                },
                                _ => false,
                            };
                            if !is_str {
                                return unsupported("Into/AsRef bound of a non-string", f.sig.span());
                            }
                            stringy = true;
                        }
                        "Fn" | "FnMut" | "FnOnce" => fn_bound = Some(seg.arguments.clone()),
                        "Ord" | "PartialOrd" => ord = true,
                        "Eq" | "PartialEq" | "Copy" | "Clone" | "Sized" => {}
                        other => return unsupported(&format!("trait bound {}", other), f.sig.span()),
                    }
                }
            }
            if stringy {
                GENERICS.with(|g| g.borrow_mut().insert(name.clone(), Some(Ty::Str)));
                continue;
            }
            match (pass, fn_bound) {
                (0, None) => {
                    GENERICS.with(|g| g.borrow_mut().insert(name.clone(), None));
                    generics.push((name, ord));
                }
                (1, Some(syn::PathArguments::Parenthesized(pa))) => {
                    let args = pa.inputs.iter().map(rust_ty).collect::<R<Vec<_>>>()?;
                    let ret = match &pa.output {
                        syn::ReturnType::Default => Ty::Unit,
                        syn::ReturnType::Type(_, t) => rust_ty(t)?,
                    };
                    GENERICS.with(|g| g.borrow_mut().insert(name.clone(), Some(Ty::Fun(args, Box::new(ret)))));
                }
                _ => {}
            }
        }
    }
    let mut params = vec![];
    for a in &f.sig.inputs {
        match a {
            syn::FnArg::Typed(pt) => {
                let name = match &*pt.pat {
                    syn::Pat::Ident(pi) => pi.ident.to_string(),
                    _ => return unsupported("parameter pattern", pt.span()),
                };
                let mut_ref = matches!(&*pt.ty, syn::Type::Reference(r) if r.mutability.is_some());
                params.push(Param { name, ty: rust_ty(&pt.ty)?, mut_ref });
            }
            syn::FnArg::Receiver(r) => {
                let t = SELF_TY.with(|t| t.borrow().clone()).ok_or_else(|| "unsupported: self outside an impl".to_string())?;
                params.push(Param { name: "self".into(), ty: t, mut_ref: r.mutability.is_some() && r.reference.is_some() });
            }
        }
    }
    let ret = match &f.sig.output {
        syn::ReturnType::Default => Ty::Unit,
        syn::ReturnType::Type(_, t) => rust_ty(t)?,
    };
    Ok(FnSig { lean: format!("SmVerif.Gen.{}.{}", ns_of(module), sanitize(&f.sig.ident.to_string())), params, ret, fuel: false, generics, externs: _g.externs.iter().map(|(_, l, _)| l.clone()).collect() })
}

/// Lean return type of a translated function
pub fn lean_ret(sig: &FnSig) -> String {
    let mut parts = vec![];
    let payload = ret_payload(&sig.ret);
    if !matches!(payload, Ty::Unit) {
        parts.push(lean_ty(&payload));
    }
    for p in sig.params.iter().filter(|p| p.mut_ref) {
        parts.push(lean_ty(&p.ty));
    }
    if parts.is_empty() {
        "Res Unit".into()
    } else {
        format!("Res ({})", parts.join(" × "))
    }
}

pub fn translate_fn(g: &Global, f: &syn::ItemFn, module: &str) -> R<(String, bool)> {
    translate_fn_named(g, f, module, None)
}

pub fn translate_fn_named(g: &Global, f: &syn::ItemFn, module: &str, owner: Option<&str>) -> R<(String, bool)> {
    let sig = signature(g, f, module)?; // also installs the function's type parameters for rust_ty
    let mut u = Unifier::new();
    let mut result = String::new();
    let mut fuel = false;
    for pass in 0..2 {
        if pass == 1 {
            u.restart_for_pass2();
        }
        let mut cx = FnCx {
            g,
            lean_name: match owner {
                // an owner that already contains a dot is the complete (renamed) method name
                Some(o) if o.contains('.') => o.to_string(),
                Some(o) => format!("{}.{}", o, sanitize(&f.sig.ident.to_string())),
                None => sanitize(&f.sig.ident.to_string()),
            },
            ret: sig.ret.clone(),
            mut_params: sig.params.iter().filter(|p| p.mut_ref).map(|p| p.name.clone()).collect(),
            scopes: vec![HashMap::new()],
            u: std::mem::replace(&mut u, Unifier::new()),
            tmp: 0,
            loops: 0,
            aux: vec![],
            loop_stack: vec![],
            uses_fuel: false,
            pass2: pass == 1,
            in_loop_fn: false,
            generic_binders: sig.generics.iter().map(|(n, ord)| format!(" {{{} : Type}} [DecidableEq {}]{}", n, n, if *ord { format!(" (lt_{} : {} → {} → Bool)", n, n, n) } else { String::new() })).collect(),
            generic_args: sig.generics.iter().filter(|(_, o)| *o).map(|(n, _)| format!(" lt_{}", n)).collect::<String>() + &g.externs.iter().map(|(_, l, _)| format!(" {}", l)).collect::<String>(),
            bit_views: HashMap::new(),
            enclosing_label: None,
            aliases: HashMap::new(),
            thunks: HashMap::new(),
        };
        for p in &sig.params {
            cx.declare(&p.name, p.ty.clone());
        }
        let body = cx.block(&f.block.stmts, &|cx, v| {
            // falling off the end: the tail value is the return value
            let retp = ret_payload(&cx.ret.clone());
            match v {
                Some(v) => cx.finish_return(v),
                None => {
                    if matches!(retp, Ty::Unit) {
                        cx.ret_text(None)
                    } else if matches!(f.block.stmts.last(), Some(syn::Stmt::Expr(syn::Expr::Loop(_), _))) {
                        // the body ends in a `loop` (type `!`): it only leaves through `return`; this point is unreachable
                        Ok(".error .diverge".into())
                    } else {
                        Err("unsupported: function body without a tail value".into())
                    }
                }
            }
        })?;
        fuel = cx.uses_fuel;
        let mut text = String::new();
        for a in &cx.aux {
            text.push_str(a);
            text.push('\n');
        }
        let mut ps = String::new();
        ps.push_str(&cx.generic_binders);
        for (_, l, t) in &g.externs {
            ps.push_str(&format!(" ({} : {})", l, lean_ty(t)));
        }
        if fuel {
            ps.push_str(" (fuel : Nat)");
        }
        for p in &sig.params {
            let v = cx.lookup(&p.name).unwrap();
            ps.push_str(&format!(" ({} : {})", v.lean, lean_ty(&p.ty)));
        }
        text.push_str(&format!(
            "/-- `{}` ({}.rs line {}) -/\ndef {}{} : {} :=\n{}\n",
            f.sig.ident,
            module_file(module),
            f.sig.span().start().line,
            cx.lean_name,
            ps,
            lean_ret(&sig),
            indent(&body)
        ));
        result = text;
        u = cx.u;
    }
    Ok((result, fuel))
}

thread_local! {
    static CURRENT_FILE: std::cell::RefCell<String> = std::cell::RefCell::new(String::new());
}

/// stem of the Rust file the current unit is translated from
/// `self` as an identifier token -> `this` (on the token text, where identifiers are space-separated or delimited)
fn rename_self(text: &str) -> String {
    let mut out = String::new();
    let b: Vec<char> = text.chars().collect();
    let mut i = 0;
    while i < b.len() {
        let is_start = i == 0 || !(b[i - 1].is_alphanumeric() || b[i - 1] == '_');
        if is_start && b[i..].starts_with(&['s', 'e', 'l', 'f']) && (i + 4 == b.len() || !(b[i + 4].is_alphanumeric() || b[i + 4] == '_')) {
            out.push_str("this");
            i += 4;
        } else {
            out.push(b[i]);
            i += 1;
        }
    }
    out
}

/// does the body of a loop contain a `break`/`continue` of that loop or a `return`? (`?` is allowed: it leaves the function)
fn loop_left_early(body: &syn::Block) -> bool {
    struct V(bool, usize);
    impl<'ast> syn::visit::Visit<'ast> for V {
        fn visit_expr_break(&mut self, b: &'ast syn::ExprBreak) {
            if self.1 == 0 || b.label.is_some() {
                self.0 = true;
            }
        }
        fn visit_expr_continue(&mut self, b: &'ast syn::ExprContinue) {
            if self.1 == 0 || b.label.is_some() {
                self.0 = true;
            }
        }
        fn visit_expr_return(&mut self, _r: &'ast syn::ExprReturn) {
            self.0 = true;
        }
        fn visit_expr_for_loop(&mut self, l: &'ast syn::ExprForLoop) {
            self.1 += 1;
            syn::visit::visit_expr_for_loop(self, l);
            self.1 -= 1;
        }
        fn visit_expr_while(&mut self, l: &'ast syn::ExprWhile) {
            self.1 += 1;
            syn::visit::visit_expr_while(self, l);
            self.1 -= 1;
        }
        fn visit_expr_loop(&mut self, l: &'ast syn::ExprLoop) {
            self.1 += 1;
            syn::visit::visit_expr_loop(self, l);
            self.1 -= 1;
        }
        fn visit_expr_closure(&mut self, _c: &'ast syn::ExprClosure) {}
    }
    let mut v = V(false, 0);
    syn::visit::Visit::visit_block(&mut v, body);
    v.0
}

/// Lean namespace of a unit: its module name, except for units that continue the namespace of another one (the file is
/// split only so that a change in one half does not take the ties of the other half with it)
pub fn ns_of(module: &str) -> &str {
    match module {
        "RsSourceMap" => "RsTypes",
        m => m,
    }
}

/// the first other file of the source directory whose parse satisfies the predicate
fn other_file_with(src: &Path, skip: &str, pred: impl Fn(&syn::File) -> bool) -> Option<syn::File> {
    let mut names: Vec<_> = fs::read_dir(src).ok()?.filter_map(|e| e.ok()).map(|e| e.path()).filter(|p| p.extension().map(|x| x == "rs").unwrap_or(false)).collect();
    names.sort();
    for p in names {
        if p.file_name().map(|n| n == skip).unwrap_or(false) {
            continue;
        }
        if let Ok(text) = fs::read_to_string(&p) {
            if let Ok(f) = syn::parse_file(&text) {
                if pred(&f) {
                    return Some(f);
                }
            }
        }
    }
    None
}

fn path_last_seg(p: &syn::Path) -> String {
    p.segments.last().map(|s| s.ident.to_string()).unwrap_or_default()
}

fn module_file(_module: &str) -> String {
    CURRENT_FILE.with(|f| f.borrow().trim_end_matches(".rs").to_string())
}

include!("st.rs");
