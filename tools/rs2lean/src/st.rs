// statements and control flow (included into tr.rs)

/// free variables of a loop body that are assigned in it (in order of first assignment)
/// (root variable of the receiver, method name) of every method call in the statements
fn method_receivers(stmts: &[syn::Stmt]) -> Vec<(String, String)> {
    struct V(Vec<(String, String)>);
    fn root(e: &syn::Expr) -> Option<String> {
        match e {
            syn::Expr::Path(p) if p.path.segments.len() == 1 => Some(p.path.segments[0].ident.to_string()),
            syn::Expr::Index(i) => root(&i.expr),
            syn::Expr::Field(f) => root(&f.base),
            syn::Expr::Unary(u) if matches!(u.op, syn::UnOp::Deref(_)) => root(&u.expr),
            syn::Expr::Paren(p) => root(&p.expr),
            syn::Expr::Reference(r) => root(&r.expr),
            _ => None,
        }
    }
    impl<'ast> syn::visit::Visit<'ast> for V {
        fn visit_expr_method_call(&mut self, m: &'ast syn::ExprMethodCall) {
            if let Some(r) = root(&m.receiver) {
                self.0.push((r, m.method.to_string()));
            }
            syn::visit::visit_expr_method_call(self, m);
        }
    }
    let mut v = V(vec![]);
    for s in stmts {
        syn::visit::Visit::visit_stmt(&mut v, s);
    }
    v.0
}

fn assigned_vars(stmts: &[syn::Stmt]) -> Vec<String> {
    struct V(Vec<String>);
    impl V {
        fn add(&mut self, n: String) {
            if !self.0.contains(&n) {
                self.0.push(n);
            }
        }
        fn root(e: &syn::Expr) -> Option<String> {
            match e {
                syn::Expr::Path(p) if p.path.segments.len() == 1 => Some(p.path.segments[0].ident.to_string()),
                syn::Expr::Index(i) => Self::root(&i.expr),
                syn::Expr::Field(f) => Self::root(&f.base),
                syn::Expr::Unary(u) if matches!(u.op, syn::UnOp::Deref(_)) => Self::root(&u.expr),
                syn::Expr::Paren(p) => Self::root(&p.expr),
                syn::Expr::Reference(r) => Self::root(&r.expr),
                _ => None,
            }
        }
    }
    impl<'ast> syn::visit::Visit<'ast> for V {
        fn visit_expr_assign(&mut self, a: &'ast syn::ExprAssign) {
            if let Some(n) = V::root(&a.left) {
                self.add(n);
            }
            syn::visit::visit_expr_assign(self, a);
        }
        fn visit_expr_binary(&mut self, b: &'ast syn::ExprBinary) {
            use syn::BinOp::*;
            if matches!(b.op, AddAssign(_) | SubAssign(_) | MulAssign(_) | DivAssign(_) | RemAssign(_) | BitXorAssign(_) | BitAndAssign(_) | BitOrAssign(_) | ShlAssign(_) | ShrAssign(_)) {
                if let Some(n) = V::root(&b.left) {
                    self.add(n);
                }
            }
            syn::visit::visit_expr_binary(self, b);
        }
        fn visit_expr_method_call(&mut self, m: &'ast syn::ExprMethodCall) {
            let name = m.method.to_string();
            if matches!(name.as_str(), "push" | "push_str" | "clear" | "resize" | "truncate" | "insert" | "pop" | "extend" | "extend_from_slice" | "set" | "store_le" | "next" | "copy_from_slice" | "read") {
                if let Some(n) = V::root(&m.receiver) {
                    self.add(n);
                }
                if name == "read" {
                    // Read::read(&mut self, buf): the buffer argument is written
                    if let Some(a) = m.args.first() {
                        if let Some(n) = V::root(a) {
                            self.add(n);
                        }
                    }
                }
            }
            syn::visit::visit_expr_method_call(self, m);
        }
        fn visit_expr_reference(&mut self, r: &'ast syn::ExprReference) {
            if r.mutability.is_some() {
                if let Some(n) = V::root(&r.expr) {
                    self.add(n);
                }
            }
            syn::visit::visit_expr_reference(self, r);
        }
    }
    let mut v = V(vec![]);
    for s in stmts {
        syn::visit::Visit::visit_stmt(&mut v, s);
    }
    v.0
}

/// identifiers mentioned in a body (single-segment paths)
fn mentioned_vars(stmts: &[syn::Stmt], extra: Option<&syn::Expr>) -> Vec<String> {
    struct V(Vec<String>);
    impl<'ast> syn::visit::Visit<'ast> for V {
        fn visit_expr_path(&mut self, p: &'ast syn::ExprPath) {
            if p.path.segments.len() == 1 {
                let n = p.path.segments[0].ident.to_string();
                if !self.0.contains(&n) {
                    self.0.push(n);
                }
            }
        }
        fn visit_macro(&mut self, m: &'ast syn::Macro) {
            // fail!(expr), vec![..]: look inside
            if let Ok(e) = m.parse_body::<syn::Expr>() {
                syn::visit::Visit::visit_expr(self, &e);
            }
        }
    }
    let mut v = V(vec![]);
    for s in stmts {
        syn::visit::Visit::visit_stmt(&mut v, s);
    }
    if let Some(e) = extra {
        syn::visit::Visit::visit_expr(&mut v, e);
    }
    v.0
}

/// does the expression contain anything that leaves it other than by producing its value?
fn has_escape(e: &syn::Expr) -> bool {
    has_escape_opt(e, false)
}

/// `allow_try`: in a function returning `Result`, `?` only ever propagates an `Err` through the monad, which a joined
/// value (itself a `Res`) does too - it is not a jump that the join would lose
fn has_escape_opt(e: &syn::Expr, allow_try: bool) -> bool {
    struct V(bool, bool);
    impl<'ast> syn::visit::Visit<'ast> for V {
        fn visit_expr_return(&mut self, _r: &'ast syn::ExprReturn) {
            self.0 = true;
        }
        fn visit_expr_break(&mut self, _r: &'ast syn::ExprBreak) {
            self.0 = true;
        }
        fn visit_expr_continue(&mut self, _r: &'ast syn::ExprContinue) {
            self.0 = true;
        }
        fn visit_expr_try(&mut self, r: &'ast syn::ExprTry) {
            if !self.1 {
                self.0 = true;
            }
            syn::visit::visit_expr_try(self, r);
        }
        fn visit_macro(&mut self, _m: &'ast syn::Macro) {
            self.0 = true;
        }
        fn visit_expr_closure(&mut self, _c: &'ast syn::ExprClosure) {}
    }
    let mut v = V(false, allow_try);
    syn::visit::Visit::visit_expr(&mut v, e);
    v.0
}

/// a `break 'l` in the body (outside nested closures) whose label is not the loop's own
fn has_far_break(stmts: &[syn::Stmt], own: Option<&str>) -> bool {
    struct V<'a>(Option<&'a str>, bool);
    impl<'ast, 'a> syn::visit::Visit<'ast> for V<'a> {
        fn visit_expr_break(&mut self, b: &'ast syn::ExprBreak) {
            if let Some(l) = &b.label {
                if Some(l.ident.to_string().as_str()) != self.0 {
                    self.1 = true;
                }
            }
        }
        fn visit_expr_closure(&mut self, _c: &'ast syn::ExprClosure) {}
    }
    let mut v = V(own, false);
    for s in stmts {
        syn::visit::Visit::visit_stmt(&mut v, s);
    }
    v.1
}

/// a `break`/`continue`/`return`/`?` that would leave the loop whose body this is (nested loops keep their own)
fn escapes_own_loop(stmts: &[syn::Stmt]) -> bool {
    struct V(bool);
    impl<'ast> syn::visit::Visit<'ast> for V {
        fn visit_expr_break(&mut self, _b: &'ast syn::ExprBreak) {
            self.0 = true;
        }
        fn visit_expr_continue(&mut self, _b: &'ast syn::ExprContinue) {
            self.0 = true;
        }
        fn visit_expr_return(&mut self, _b: &'ast syn::ExprReturn) {
            self.0 = true;
        }
        fn visit_expr_try(&mut self, _b: &'ast syn::ExprTry) {
            self.0 = true;
        }
        fn visit_expr_for_loop(&mut self, l: &'ast syn::ExprForLoop) {
            // unlabeled break/continue inside belong to the nested loop; labeled ones and returns do not
            struct W(bool);
            impl<'a> syn::visit::Visit<'a> for W {
                fn visit_expr_break(&mut self, b: &'a syn::ExprBreak) {
                    if b.label.is_some() {
                        self.0 = true;
                    }
                }
                fn visit_expr_continue(&mut self, b: &'a syn::ExprContinue) {
                    if b.label.is_some() {
                        self.0 = true;
                    }
                }
                fn visit_expr_return(&mut self, _b: &'a syn::ExprReturn) {
                    self.0 = true;
                }
                fn visit_expr_try(&mut self, _b: &'a syn::ExprTry) {
                    self.0 = true;
                }
                fn visit_expr_closure(&mut self, _c: &'a syn::ExprClosure) {}
            }
            let mut w = W(false);
            syn::visit::Visit::visit_block(&mut w, &l.body);
            if w.0 {
                self.0 = true;
            }
        }
        fn visit_expr_while(&mut self, _l: &'ast syn::ExprWhile) {
            self.0 = true; // not needed so far
        }
        fn visit_expr_loop(&mut self, _l: &'ast syn::ExprLoop) {
            self.0 = true;
        }
        fn visit_expr_closure(&mut self, _c: &'ast syn::ExprClosure) {}
    }
    let mut v = V(false);
    for s in stmts {
        syn::visit::Visit::visit_stmt(&mut v, s);
    }
    v.0
}

fn contains_try(stmts: &[syn::Stmt]) -> bool {
    struct V(bool);
    impl<'ast> syn::visit::Visit<'ast> for V {
        fn visit_expr_try(&mut self, _t: &'ast syn::ExprTry) {
            self.0 = true;
        }
        fn visit_expr_closure(&mut self, _c: &'ast syn::ExprClosure) {}
    }
    let mut v = V(false);
    for s in stmts {
        syn::visit::Visit::visit_stmt(&mut v, s);
    }
    v.0
}

fn has_value_return(stmts: &[syn::Stmt]) -> bool {
    // a `return` inside the body that is not `return Err(..)` / fail!(..)
    struct V(bool);
    impl<'ast> syn::visit::Visit<'ast> for V {
        fn visit_expr_return(&mut self, r: &'ast syn::ExprReturn) {
            let is_err = match &r.expr {
                Some(e) => matches!(&**e, syn::Expr::Call(c) if matches!(&*c.func, syn::Expr::Path(p) if p.path.is_ident("Err"))),
                None => false,
            };
            if !is_err {
                self.0 = true;
            }
        }
        fn visit_expr_try(&mut self, t: &'ast syn::ExprTry) {
            // `?` on an Option returns None from the function: a value return; on a Result it is an error.
            // We cannot tell here; the translation of `?` itself decides and reports if unsupported.
            syn::visit::visit_expr_try(self, t);
        }
        fn visit_expr_closure(&mut self, _c: &'ast syn::ExprClosure) {}
    }
    let mut v = V(false);
    for s in stmts {
        syn::visit::Visit::visit_stmt(&mut v, s);
    }
    v.0
}

impl<'g> FnCx<'g> {
    /// a value flowing out of the function: coerce to the declared return type and write the return
    pub fn finish_return(&mut self, v: Val) -> R<String> {
        let ret = self.ret.clone();
        match (&ret, &v.ty) {
            // returning a crate Result value: unwrap it into the Res monad
            (Ty::Res(inner), Ty::Res(_)) if v.atom.starts_with("(Except.error ") => {
                let _ = inner;
                let x = v.atom.trim_start_matches("(Except.error ").trim_end_matches(')').to_string();
                Ok(wrap(&v.steps, format!(".error {}", x)))
            }
            (Ty::Res(inner), Ty::Res(_)) if v.atom.starts_with("(Except.ok ") => {
                let x = v.atom["(Except.ok ".len()..v.atom.len() - 1].to_string();
                let inner_unit = matches!(**inner, Ty::Unit);
                let payload = Val::pure(x, (**inner).clone());
                let rt = self.ret_text(if inner_unit { None } else { Some(&payload) })?;
                Ok(wrap(&v.steps, rt))
            }
            (Ty::Res(inner), Ty::Res(_)) => {
                let t = self.fresh_tmp();
                let inner_unit = matches!(**inner, Ty::Unit);
                let payload = Val::pure(t.clone(), (**inner).clone());
                let rt = self.ret_text(if inner_unit { None } else { Some(&payload) })?;
                let mut steps = v.steps.clone();
                steps.push(Step::BindOk(if inner_unit { "_".into() } else { t }, v.atom.clone()));
                Ok(wrap(&steps, rt))
            }
            _ => {
                let payload = ret_payload(&ret);
                self.u.unify(&payload, &v.ty)?;
                let rt = self.ret_text(if matches!(payload, Ty::Unit) { None } else { Some(&v) })?;
                Ok(wrap(&v.steps, rt))
            }
        }
    }

    /// does evaluating the expression change a variable (assignment, mutating method, `&mut` argument, or a
    /// translated `&mut self` method)?  Such constructs cannot be joined as plain values.
    pub fn mutates_state(&self, e: &syn::Expr) -> bool {
        let st = syn::Stmt::Expr(e.clone(), None);
        if !assigned_vars(std::slice::from_ref(&st)).is_empty() {
            return true;
        }
        struct V<'a>(&'a Global, bool);
        impl<'ast, 'a> syn::visit::Visit<'ast> for V<'a> {
            fn visit_expr_method_call(&mut self, m: &'ast syn::ExprMethodCall) {
                let name = m.method.to_string();
                if self.0.fns.iter().any(|(k, sig)| k.ends_with(&format!("::{}", name)) && sig.params.first().map(|p| p.mut_ref).unwrap_or(false)) {
                    self.1 = true;
                }
                syn::visit::visit_expr_method_call(self, m);
            }
        }
        let mut v = V(self.g, false);
        syn::visit::Visit::visit_expr(&mut v, e);
        v.1
    }

    pub fn block(&mut self, stmts: &[syn::Stmt], k: K) -> R<String> {
        self.scopes.push(HashMap::new());
        let r = self.stmts(stmts, &|cx, v| {
            let saved = cx.scopes.pop().unwrap();
            let r = k(cx, v);
            cx.scopes.push(saved);
            r
        });
        self.scopes.pop();
        r
    }

    fn stmts(&mut self, stmts: &[syn::Stmt], k: K) -> R<String> {
        if stmts.is_empty() {
            return k(self, None);
        }
        let (first, rest) = stmts.split_first().unwrap();
        match first {
            syn::Stmt::Item(syn::Item::Fn(_)) | syn::Stmt::Item(syn::Item::Use(_)) | syn::Stmt::Item(syn::Item::Struct(_)) => self.stmts(rest, k),
            syn::Stmt::Item(_) => unsupported("item in a block", first.span()),
            syn::Stmt::Local(l) => {
                fn has_infer(t: &syn::Type) -> bool {
                    struct V(bool);
                    impl<'ast> syn::visit::Visit<'ast> for V {
                        fn visit_type_infer(&mut self, _i: &'ast syn::TypeInfer) {
                            self.0 = true;
                        }
                    }
                    let mut v = V(false);
                    syn::visit::Visit::visit_type(&mut v, t);
                    v.0
                }
                let declared_ty = match &l.pat {
                    // `Vec<_>` and the like: left to inference
                    syn::Pat::Type(pt) if has_infer(&pt.ty) => None,
                    syn::Pat::Type(pt) => Some(rust_ty(&pt.ty)?),
                    _ => None,
                };
                let pat = match &l.pat {
                    syn::Pat::Type(pt) => &*pt.pat,
                    p => p,
                };
                match &l.init {
                    None => {
                        // `let mut x;` - declared, assigned later
                        let name = match pat {
                            syn::Pat::Ident(pi) => pi.ident.to_string(),
                            _ => return unsupported("uninitialised pattern", l.span()),
                        };
                        let ty = match declared_ty {
                            Some(t) => t,
                            None => self.u.fresh(),
                        };
                        let lean = self.declare(&name, ty.clone());
                        let rest_text = self.stmts(rest, k)?;
                        // a placeholder value keeps the term well-scoped; Rust guarantees it is never read
                        Ok(format!("let {} : {} := default\n{}", lean, lean_ty(&self.u.resolve(&ty)), rest_text))
                    }
                    Some(init) => {
                        if init.diverge.is_some() {
                            return unsupported("let-else", l.span());
                        }
                        let e = &*init.expr;
                        // `let f = || expr;` (no captures that change afterwards are checked for: the body may only
                        // mention variables, which are immutable values here) - expanded at `ok_or_else(f)`
                        if let (syn::Expr::Closure(cl), syn::Pat::Ident(pi)) = (strip_paren(e), pat) {
                            if cl.inputs.is_empty() {
                                self.thunks.insert(pi.ident.to_string(), (*cl.body).clone());
                                return self.stmts(rest, k);
                            }
                        }
                        // `let x: &mut T = &mut y;` is another name for y
                        if let (syn::Expr::Reference(r), syn::Pat::Ident(pi)) = (strip_paren(e), pat) {
                            if r.mutability.is_some() {
                                if let syn::Expr::Path(pp) = strip_paren(&r.expr) {
                                    if pp.path.segments.len() == 1 && self.lookup(&pp.path.segments[0].ident.to_string()).is_some() {
                                        let target = self.lookup(&pp.path.segments[0].ident.to_string()).unwrap();
                                        if let Some(dt) = &declared_ty {
                                            let t = self.u.unify(dt, &target.ty)?;
                                            self.set_ty(&pp.path.segments[0].ident.to_string(), t);
                                        }
                                        self.aliases.insert(pi.ident.to_string(), pp.path.segments[0].ident.to_string());
                                        return self.stmts(rest, k);
                                    }
                                }
                            }
                        }
                        // `let view = bytes.view_bits_mut::<Lsb0>();` introduces an alias, not a value
                        if let (syn::Expr::MethodCall(mc), syn::Pat::Ident(pi)) = (strip_paren(e), pat) {
                            if mc.method == "view_bits_mut" {
                                let (tname, _) = self.assign_target(&mc.receiver)?;
                                self.bit_views.insert(pi.ident.to_string(), tname);
                                return self.stmts(rest, k);
                            }
                        }
                        if matches!(strip_paren(e), syn::Expr::If(_) | syn::Expr::Match(_) | syn::Expr::Block(_)) && !has_escape(e) && !self.mutates_state(e) {
                            let v = self.value_join(e, declared_ty.as_ref())?;
                            let mut steps = v.steps.clone();
                            let ty = match &declared_ty {
                                Some(t) => self.u.unify(t, &v.ty)?,
                                None => v.ty.clone(),
                            };
                            self.bind_pattern(pat, &v.atom, &ty, &mut steps)?;
                            let rest_text = self.stmts(rest, k)?;
                            return Ok(wrap(&steps, rest_text));
                        }
                        // control-flow expressions as initialisers go through the continuation;
                        // all branches flow into one variable: one type
                        let is_cf = matches!(strip_paren(e), syn::Expr::If(_) | syn::Expr::Match(_) | syn::Expr::Block(_));
                        let declared_ty = match declared_ty {
                            None if is_cf => Some(self.u.fresh_any()),
                            other => other,
                        };
                        self.expr_k(e, declared_ty.as_ref(), &|cx, v| {
                            let v = v.ok_or("unsupported: let without a value")?;
                            let mut steps = v.steps.clone();
                            let ty = match &declared_ty {
                                Some(t) => cx.u.unify(t, &v.ty)?,
                                None => v.ty.clone(),
                            };
                            cx.bind_pattern(pat, &v.atom, &ty, &mut steps)?;
                            let rest_text = cx.stmts(rest, k)?;
                            Ok(wrap(&steps, rest_text))
                        })
                    }
                }
            }
            syn::Stmt::Macro(m) => {
                let e = self.macro_expr(&m.mac)?;
                self.stmt_expr(&e, rest, k, true)
            }
            syn::Stmt::Expr(e, semi) => {
                if rest.is_empty() && semi.is_none() {
                    // tail expression: its value is the block's value
                    return self.expr_k(e, None, k);
                }
                self.stmt_expr(e, rest, k, semi.is_some())
            }
        }
    }

    /// `fail!(x)` -> `return Err(x)`; `vec![..]` -> array
    pub fn macro_expr(&mut self, m: &syn::Macro) -> R<syn::Expr> {
        let name = m.path.segments.last().map(|s| s.ident.to_string()).unwrap_or_default();
        match name.as_str() {
            "fail" => {
                let inner: syn::Expr = m.parse_body().map_err(|e| format!("unsupported: fail! body: {}", e))?;
                Ok(syn::parse_quote!(return Err(#inner)))
            }
            "vec" => {
                if m.tokens.is_empty() {
                    Ok(syn::parse_quote!(Vec::new()))
                } else if let Ok((v, n)) = m.parse_body_with(|input: syn::parse::ParseStream| {
                    let v: syn::Expr = input.parse()?;
                    input.parse::<syn::Token![;]>()?;
                    let n: syn::Expr = input.parse()?;
                    Ok((v, n))
                }) {
                    Ok(syn::parse_quote!(__rs2lean_vec_repeat(#v, #n)))
                } else {
                    let elems = m
                        .parse_body_with(syn::punctuated::Punctuated::<syn::Expr, syn::Token![,]>::parse_terminated)
                        .map_err(|e| format!("unsupported: vec! body: {}", e))?;
                    let elems: Vec<syn::Expr> = elems.into_iter().collect();
                    Ok(syn::parse_quote!(__rs2lean_vec(#(#elems),*)))
                }
            }
            "panic" | "unreachable" => Ok(syn::parse_quote!(__rs2lean_panic())),
            "format" => {
                // format!("…{a}…{b}…") with inline identifier placeholders only: concatenation of the pieces
                let lit: syn::LitStr = m.parse_body().map_err(|_| "unsupported: format! with arguments after the literal".to_string())?;
                let text = lit.value();
                let mut pieces: Vec<syn::Expr> = vec![];
                let mut cur = String::new();
                let mut chars = text.chars().peekable();
                while let Some(ch) = chars.next() {
                    if ch == '{' {
                        if chars.peek() == Some(&'{') {
                            chars.next();
                            cur.push('{');
                            continue;
                        }
                        let mut name = String::new();
                        for c2 in chars.by_ref() {
                            if c2 == '}' {
                                break;
                            }
                            name.push(c2);
                        }
                        if name.is_empty() || !name.chars().all(|c| c.is_alphanumeric() || c == '_') {
                            return unsupported("format! placeholder", m.span());
                        }
                        if !cur.is_empty() {
                            let l = syn::LitStr::new(&cur, proc_macro2::Span::call_site());
                            pieces.push(syn::parse_quote!(#l));
                            cur.clear();
                        }
                        let id = syn::Ident::new(&name, proc_macro2::Span::call_site());
                        pieces.push(syn::parse_quote!(#id));
                    } else if ch == '}' {
                        if chars.peek() == Some(&'}') {
                            chars.next();
                        }
                        cur.push('}');
                    } else {
                        cur.push(ch);
                    }
                }
                if !cur.is_empty() {
                    let l = syn::LitStr::new(&cur, proc_macro2::Span::call_site());
                    pieces.push(syn::parse_quote!(#l));
                }
                Ok(syn::parse_quote!(__rs2lean_concat(#(#pieces),*)))
            }
            "assert" => {
                // assert!(cond, "message"): panic unless cond
                let args = m
                    .parse_body_with(syn::punctuated::Punctuated::<syn::Expr, syn::Token![,]>::parse_terminated)
                    .map_err(|e| format!("unsupported: assert! body: {}", e))?;
                let cond = args.first().ok_or("unsupported: empty assert!")?.clone();
                Ok(syn::parse_quote!(if !(#cond) { __rs2lean_panic() }))
            }
            _ => unsupported(&format!("macro {}!", name), m.span()),
        }
    }

    /// an expression in statement position followed by `rest`
    fn stmt_expr(&mut self, e: &syn::Expr, rest: &[syn::Stmt], k: K, _semi: bool) -> R<String> {
        match e {
            syn::Expr::Assign(a) if matches!(strip_paren(&a.left), syn::Expr::Index(_)) => {
                // `place[i] = e`: panics when `i` is out of bounds
                let ix = match strip_paren(&a.left) {
                    syn::Expr::Index(ix) => ix,
                    _ => unreachable!(),
                };
                let (cur, pty, setter) = self.place(&ix.expr)?;
                let elem = match self.u.resolve(&pty) {
                    Ty::List(t) => *t,
                    _ => return unsupported("index assignment into a non-list", a.span()),
                };
                let i = self.expr(&ix.index, Some(&Ty::usize()))?;
                self.u.unify(&i.ty, &Ty::usize())?;
                let v = self.expr(&a.right, Some(&elem))?;
                self.u.unify(&elem, &v.ty)?;
                let mut steps = i.steps.clone();
                steps.extend(v.steps.clone());
                steps.push(Step::Guard(format!("{} < {}.length", i.atom, paren_atom(&cur)), ".panic".into()));
                steps.push(setter(&format!("{}.set {} {}", paren_atom(&cur), paren_atom(&i.atom), paren_atom(&v.atom))));
                let rest_text = self.stmts(rest, k)?;
                Ok(wrap(&steps, rest_text))
            }
            syn::Expr::Assign(a)
                if matches!(strip_paren(&a.right), syn::Expr::If(_) | syn::Expr::Match(_) | syn::Expr::Block(_))
                    && (has_escape(&a.right) || self.mutates_state(&a.right))
                    && matches!(strip_paren(&a.left), syn::Expr::Field(_) | syn::Expr::Path(_)) =>
            {
                // `place = match … { … return … }`: every branch that produces a value assigns it and goes on
                let (_, pty, _) = self.place(&a.left)?;
                let left = (*a.left).clone();
                self.expr_k(&a.right, Some(&pty), &|cx, v| {
                    let v = v.ok_or("unsupported: assignment from a branch without a value")?;
                    let (_, pty2, setter) = cx.place(&left)?;
                    cx.u.unify(&pty2, &v.ty)?;
                    let mut steps = v.steps.clone();
                    steps.push(setter(&v.atom));
                    let rest_text = cx.stmts(rest, k)?;
                    Ok(wrap(&steps, rest_text))
                })
            }
            syn::Expr::Assign(a) if matches!(strip_paren(&a.left), syn::Expr::Field(_)) => {
                // `x.f = e`: structure update
                let fe = match strip_paren(&a.left) {
                    syn::Expr::Field(f) => f,
                    _ => unreachable!(),
                };
                let (_, var) = self.assign_target(&fe.base)?;
                let fname = match &fe.member {
                    syn::Member::Named(i) => i.to_string(),
                    _ => return unsupported("tuple field assignment", a.span()),
                };
                let fty = match self.u.resolve(&var.ty) {
                    Ty::Struct(sn) => self.g.structs.get(&sn).and_then(|fs| fs.iter().find(|(n, _)| *n == fname).map(|(_, t)| t.clone())),
                    _ => None,
                }
                .ok_or(format!("unsupported: assignment to field {}", fname))?;
                let v = self.expr(&a.right, Some(&fty))?;
                self.u.unify(&fty, &v.ty)?;
                let mut steps = v.steps.clone();
                steps.push(Step::Let(var.lean.clone(), format!("{{ {} with {} := {} }}", var.lean, sanitize(&fname), v.atom)));
                let rest_text = self.stmts(rest, k)?;
                Ok(wrap(&steps, rest_text))
            }
            syn::Expr::Assign(a) => {
                let (name, var) = self.assign_target(&a.left)?;
                let v = self.expr(&a.right, Some(&var.ty))?;
                let ty = self.u.unify(&var.ty, &v.ty)?;
                self.set_ty(&name, ty);
                let mut steps = v.steps.clone();
                steps.push(Step::Let(var.lean.clone(), v.atom.clone()));
                let rest_text = self.stmts(rest, k)?;
                Ok(wrap(&steps, rest_text))
            }
            syn::Expr::Binary(b) if assign_op(&b.op).is_some() => {
                let (name, var) = self.assign_target(&b.left)?;
                let op = assign_op(&b.op).unwrap();
                let lhs = Val::pure(var.lean.clone(), var.ty.clone());
                let rhs = self.expr(&b.right, if is_shift(&op) { None } else { Some(&var.ty) })?;
                let v = self.binop(&op, lhs, rhs, b.span())?;
                let ty = self.u.unify(&var.ty, &v.ty)?;
                self.set_ty(&name, ty);
                let mut steps = v.steps.clone();
                steps.push(Step::Let(var.lean.clone(), v.atom.clone()));
                let rest_text = self.stmts(rest, k)?;
                Ok(wrap(&steps, rest_text))
            }
            syn::Expr::MethodCall(m) if self.is_mutating_method(m) => {
                let steps = self.mutating_method(m)?;
                let rest_text = self.stmts(rest, k)?;
                Ok(wrap(&steps, rest_text))
            }
            syn::Expr::ForLoop(_) | syn::Expr::While(_) | syn::Expr::Loop(_) | syn::Expr::If(_) | syn::Expr::Match(_) | syn::Expr::Block(_) | syn::Expr::Return(_) | syn::Expr::Break(_) | syn::Expr::Continue(_) | syn::Expr::Macro(_) => {
                self.expr_k(e, None, &|cx, _v| cx.stmts(rest, k))
            }
            _ => {
                // an expression evaluated for its effects: calls with &mut arguments rebind them
                let v = self.expr(e, None)?;
                let rest_text = self.stmts(rest, k)?;
                Ok(wrap(&v.steps, rest_text))
            }
        }
    }

    fn assign_target(&mut self, e: &syn::Expr) -> R<(String, Var)> {
        match e {
            syn::Expr::Path(p) if p.path.segments.len() == 1 => {
                let n = p.path.segments[0].ident.to_string();
                let v = self.lookup(&n).ok_or(format!("unsupported: assignment to unknown variable {}", n))?;
                Ok((n, v))
            }
            syn::Expr::Unary(u) if matches!(u.op, syn::UnOp::Deref(_)) => self.assign_target(&u.expr),
            syn::Expr::Paren(p) => self.assign_target(&p.expr),
            _ => unsupported("assignment target", e.span()),
        }
    }

    /// expressions that may contain control flow: compile with a continuation receiving the value
    pub fn expr_k(&mut self, e: &syn::Expr, expect: Option<&Ty>, k: K) -> R<String> {
        match e {
            syn::Expr::Paren(p) => self.expr_k(&p.expr, expect, k),
            syn::Expr::Block(b) if b.label.is_none() => self.block(&b.block.stmts, k),
            syn::Expr::Macro(m) => {
                let inner = self.macro_expr(&m.mac)?;
                self.expr_k(&inner, expect, k)
            }
            syn::Expr::Return(r) => {
                match &r.expr {
                    None => self.ret_text(None),
                    Some(inner) => {
                        // return Err(x) in a Result function: `.error x`
                        let retp = self.ret.clone();
                        let v = self.expr(inner, Some(&retp))?;
                        self.finish_return(v)
                    }
                }
            }
            syn::Expr::Break(b) => {
                if b.expr.is_some() {
                    return unsupported("break with value", b.span());
                }
                let l = self.loop_stack.last().ok_or("unsupported: break outside a loop")?;
                if let Some(lbl) = &b.label {
                    let name = lbl.ident.to_string();
                    if l.label.as_deref() != Some(name.as_str()) {
                        // a break of the directly enclosing loop
                        if self.enclosing_label.as_deref() == Some(name.as_str()) {
                            return l.far_break_text.clone().ok_or_else(|| "internal: far break text".to_string());
                        }
                        return unsupported("break of a loop that is not the current or the directly enclosing one", b.span());
                    }
                }
                Ok(l.break_text.clone())
            }
            syn::Expr::Continue(c) => {
                if let Some(lbl) = &c.label {
                    let own = self.loop_stack.last().and_then(|l| l.label.clone());
                    if own.as_deref() != Some(lbl.ident.to_string().as_str()) {
                        return unsupported("continue of an outer loop", c.span());
                    }
                }
                let l = self.loop_stack.last().ok_or("unsupported: continue outside a loop")?;
                Ok(l.continue_text.clone())
            }
            syn::Expr::If(i) => self.if_k(i, expect, k),
            syn::Expr::Match(m) => self.match_k(m, expect, k),
            syn::Expr::ForLoop(f) => self.for_loop(f, k),
            // statements used where a value is expected (match arms, closures): run them, value `()`
            syn::Expr::Assign(_) => self.stmt_expr(e, &[], &|cx, _| k(cx, None), true),
            syn::Expr::Binary(b) if assign_op(&b.op).is_some() => self.stmt_expr(e, &[], &|cx, _| k(cx, None), true),
            syn::Expr::MethodCall(m) if self.is_mutating_method(m) && !matches!(m.method.to_string().as_str(), "next" | "pop") => self.stmt_expr(e, &[], &|cx, _| k(cx, None), true),
            syn::Expr::While(w) => {
                let label = w.label.as_ref().map(|l| l.name.ident.to_string());
                if let syn::Expr::Let(l) = &*w.cond {
                    // `while let P = e { body }`  ==  `loop { match e { P => body, _ => break } }`
                    let (pat, scrut, body) = (&*l.pat, &*l.expr, &w.body);
                    if label.is_some() {
                        return unsupported("labelled while let", w.span());
                    }
                    let lp: syn::Expr = syn::parse_quote!(loop { match #scrut { #pat => #body, _ => break, } });
                    return self.expr_k(&lp, expect, k);
                }
                self.fuel_loop(Some(&w.cond), &w.body.stmts, label, k)
            }
            syn::Expr::Loop(l) => {
                let label = l.label.as_ref().map(|l| l.name.ident.to_string());
                self.fuel_loop(None, &l.body.stmts, label, k)
            }
            _ => {
                // the steps of the expression (guards, binds) enclose whatever the continuation does with the value,
                // also when the continuation ignores the value
                let v = self.expr(e, expect)?;
                let steps = v.steps.clone();
                let inner = k(self, Some(Val { steps: vec![], ..v }))?;
                Ok(wrap(&steps, inner))
            }
        }
    }

    /// branches that end in a value hand it to `k` through a join when the construct is used as a value
    fn if_k(&mut self, i: &syn::ExprIf, expect: Option<&Ty>, k: K) -> R<String> {
        // `if let` is a match
        if let syn::Expr::Let(l) = &*i.cond {
            return self.if_let_k(l, &i.then_branch, i.else_branch.as_ref().map(|(_, e)| &**e), expect, k);
        }
        let then_stmts = &i.then_branch.stmts;
        let else_e = i.else_branch.as_ref().map(|(_, e)| &**e);
        self.cond_k(
            &i.cond,
            &|cx| cx.block(then_stmts, k),
            &|cx| match else_e {
                Some(e) => cx.expr_k(e, expect, k),
                None => k(cx, None),
            },
        )
    }

    /// compile a condition in continuation style (short-circuit operators with fallible operands split)
    pub fn cond_k(&mut self, c: &syn::Expr, kt: &dyn Fn(&mut FnCx) -> R<String>, kf: &dyn Fn(&mut FnCx) -> R<String>) -> R<String> {
        let c = strip_paren(c);
        // try the whole condition as one pure proposition first
        let save = (self.tmp, self.scopes.clone());
        if let Ok(whole) = self.expr(c, Some(&Ty::Bool)) {
            if whole.steps.is_empty() {
                let p = whole.prop.clone().unwrap_or_else(|| format!("{} = true", whole.atom));
                let snap = self.scopes.clone();
                let t = kt(self)?;
                self.scopes = snap.clone();
                let f = kf(self)?;
                self.scopes = snap;
                return Ok(format!("if {} then\n{}\nelse\n{}", p, indent(&t), indent(&f)));
            }
        }
        self.tmp = save.0;
        self.scopes = save.1;
        match c {
            syn::Expr::Binary(b) if matches!(b.op, syn::BinOp::And(_)) => {
                let right = &*b.right;
                self.cond_k(&b.left, &|cx| cx.cond_k(right, kt, kf), kf)
            }
            syn::Expr::Binary(b) if matches!(b.op, syn::BinOp::Or(_)) => {
                let right = &*b.right;
                self.cond_k(&b.left, kt, &|cx| cx.cond_k(right, kt, kf))
            }
            syn::Expr::Unary(u) if matches!(u.op, syn::UnOp::Not(_)) => self.cond_k(&u.expr, kf, kt),
            _ => {
                let v = self.expr(c, Some(&Ty::Bool))?;
                let p = v.prop.clone().unwrap_or_else(|| format!("{} = true", v.atom));
                let snap = self.scopes.clone();
                let t = kt(self)?;
                self.scopes = snap.clone();
                let f = kf(self)?;
                self.scopes = snap;
                Ok(wrap(&v.steps, format!("if {} then\n{}\nelse\n{}", p, indent(&t), indent(&f))))
            }
        }
    }

    fn if_let_k(&mut self, l: &syn::ExprLet, then_b: &syn::Block, else_e: Option<&syn::Expr>, expect: Option<&Ty>, k: K) -> R<String> {
        let scrut = self.expr(&l.expr, None)?;
        let sty = self.u.resolve(&scrut.ty);
        self.reject_run_result(&scrut, &sty, l.span())?;
        let snap0 = self.scopes.clone();
        self.scopes.push(HashMap::new());
        let pat = self.pattern(&l.pat, &sty)?;
        let then_text = self.block(&then_b.stmts, &|cx, v| {
            let saved = cx.scopes.pop();
            let r = k(cx, v);
            cx.scopes.push(saved.unwrap());
            r
        })?;
        self.scopes = snap0;
        let else_text = match else_e {
            Some(e) => self.expr_k(e, expect, k)?,
            None => k(self, None)?,
        };
        Ok(wrap(&scrut.steps, format!("match {} with\n| {} =>\n{}\n| _ =>\n{}", scrut.atom, pat, indent(&then_text), indent(&else_text))))
    }

    fn match_k(&mut self, m: &syn::ExprMatch, expect: Option<&Ty>, k: K) -> R<String> {
        let scrut = self.expr(&m.expr, None)?;
        let sty = self.u.resolve(&scrut.ty);
        self.reject_run_result(&scrut, &sty, m.span())?;
        let mut arms = String::new();
        // integer scrutinee with literal / range patterns: an if-chain (Lean has no range patterns)
        if sty.is_int() || sty == Ty::Char {
            return self.int_match_k(m, scrut, expect, k);
        }
        let snap = self.scopes.clone();
        for arm in &m.arms {
            if arm.guard.is_some() {
                return unsupported("match guard", arm.span());
            }
            self.scopes = snap.clone();
            self.scopes.push(HashMap::new());
            let pat = self.pattern(&arm.pat, &sty)?;
            let body = self.expr_k(&arm.body, expect, &|cx, v| {
                let saved = cx.scopes.pop();
                let r = k(cx, v);
                cx.scopes.push(saved.unwrap());
                r
            })?;
            self.scopes.pop();
            arms.push_str(&format!("\n| {} =>\n{}", pat, indent(&body)));
        }
        self.scopes = snap;
        Ok(wrap(&scrut.steps, format!("match {} with{}", scrut.atom, arms)))
    }

    fn int_match_k(&mut self, m: &syn::ExprMatch, scrut: Val, expect: Option<&Ty>, k: K) -> R<String> {
        // bind the scrutinee once
        let mut steps = scrut.steps.clone();
        let s = self.fresh_tmp();
        steps.push(Step::Let(s.clone(), scrut.atom.clone()));
        let sty = scrut.ty.clone();
        fn go(cx: &mut FnCx, arms: &[syn::Arm], s: &str, sty: &Ty, expect: Option<&Ty>, k: K) -> R<String> {
            let (arm, rest) = arms.split_first().ok_or("unsupported: integer match without a catch-all arm")?;
            if arm.guard.is_some() {
                return unsupported("match guard", arm.span());
            }
            let cond = cx.int_pattern_cond(&arm.pat, s, sty)?;
            match cond {
                None => {
                    // catch-all (possibly binding)
                    cx.scopes.push(HashMap::new());
                    let mut pre = vec![];
                    if let syn::Pat::Ident(pi) = &arm.pat {
                        let lean = cx.declare(&pi.ident.to_string(), sty.clone());
                        pre.push(Step::Let(lean, s.to_string()));
                    }
                    let body = cx.expr_k(&arm.body, expect, &|cx, v| {
                        let saved = cx.scopes.pop();
                        let r = k(cx, v);
                        cx.scopes.push(saved.unwrap());
                        r
                    })?;
                    cx.scopes.pop();
                    Ok(wrap(&pre, body))
                }
                Some(c) => {
                    let snap = cx.scopes.clone();
                    let body = cx.expr_k(&arm.body, expect, k)?;
                    cx.scopes = snap.clone();
                    let other = go(cx, rest, s, sty, expect, k)?;
                    cx.scopes = snap;
                    Ok(format!("if {} then\n{}\nelse\n{}", c, indent(&body), indent(&other)))
                }
            }
        }
        let text = go(self, &m.arms, &s, &sty, expect, k)?;
        Ok(wrap(&steps, text))
    }

    /// condition under which an integer pattern matches `s`; None for a catch-all
    fn int_pattern_cond(&mut self, p: &syn::Pat, s: &str, sty: &Ty) -> R<Option<String>> {
        match p {
            syn::Pat::Wild(_) | syn::Pat::Ident(_) => Ok(None),
            syn::Pat::Lit(l) => {
                let v = self.expr(&syn::Expr::Lit(syn::ExprLit { attrs: vec![], lit: l.lit.clone() }), Some(sty))?;
                Ok(Some(format!("{} = {}", s, v.atom)))
            }
            syn::Pat::Range(r) => {
                let mut parts = vec![];
                if let Some(lo) = &r.start {
                    let v = self.expr(lo, Some(sty))?;
                    parts.push(format!("{} ≤ {}", v.atom, s));
                }
                if let Some(hi) = &r.end {
                    let v = self.expr(hi, Some(sty))?;
                    match r.limits {
                        syn::RangeLimits::Closed(_) => parts.push(format!("{} ≤ {}", s, v.atom)),
                        syn::RangeLimits::HalfOpen(_) => parts.push(format!("{} < {}", s, v.atom)),
                    }
                }
                Ok(Some(parts.join(" ∧ ")))
            }
            syn::Pat::Or(o) => {
                let mut parts = vec![];
                for c in &o.cases {
                    match self.int_pattern_cond(c, s, sty)? {
                        Some(c) => parts.push(format!("({})", c)),
                        None => return Ok(None),
                    }
                }
                Ok(Some(parts.join(" ∨ ")))
            }
            _ => unsupported("integer pattern", p.span()),
        }
    }

    /// a `for` loop: an auxiliary structurally recursive function over the iterated list
    fn for_loop(&mut self, f: &syn::ExprForLoop, k: K) -> R<String> {
        let label = f.label.as_ref().map(|l| l.name.ident.to_string());
        // `for x in place.iter_mut() { … *x = … }`: rebuilt as a loop over the old elements that pushes the (possibly
        // replaced) element to a new vector, which is assigned back to the place afterwards
        if let syn::Expr::MethodCall(mc) = strip_paren(&f.expr) {
            if mc.method == "iter_mut" && mc.args.is_empty() {
                let x = match &*f.pat {
                    syn::Pat::Ident(pi) if pi.subpat.is_none() => pi.ident.to_string(),
                    _ => return unsupported("iter_mut loop with a non-identifier pattern", f.span()),
                };
                if label.is_some() || escapes_own_loop(&f.body.stmts) {
                    return unsupported("iter_mut loop that leaves early", f.span());
                }
                use quote::ToTokens;
                let recv = mc.receiver.to_token_stream().to_string();
                let body: String = f.body.stmts.iter().map(|s| s.to_token_stream().to_string()).collect::<Vec<_>>().join("\n");
                let text = format!(
                    "{{ let mut out__ = Vec::new(); for {x} in ({recv}).iter() {{ let mut {x} = {x}.clone(); {body} out__.push({x}); }} {recv} = out__; }}",
                    x = x, recv = recv, body = body
                );
                let blk: syn::Block = syn::parse_str(&text).map_err(|e| format!("internal: iter_mut desugaring: {}", e))?;
                return self.block(&blk.stmts, &|cx, _| k(cx, None));
            }
        }
        let iter = self.iter_expr(&f.expr)?; // a list-valued Val
        let elem_ty = match self.u.resolve(&iter.ty) {
            Ty::List(t) => *t,
            Ty::Str => Ty::u8(),
            other => return Err(format!("unsupported: for over {:?}", other)),
        };
        self.loop_common(Some((&f.pat, elem_ty, iter)), None, &f.body.stmts, label, k)
    }

    fn fuel_loop(&mut self, cond: Option<&syn::Expr>, body: &[syn::Stmt], label: Option<String>, k: K) -> R<String> {
        self.uses_fuel = true;
        self.loop_common(None, cond, body, label, k)
    }

    fn loop_common(&mut self, iter: Option<(&syn::Pat, Ty, Val)>, cond: Option<&syn::Expr>, body: &[syn::Stmt], label: Option<String>, k: K) -> R<String> {
        self.loops += 1;
        let loop_name = format!("{}.loop{}", self.lean_name, self.loops);
        let mut assigned: Vec<String> = assigned_vars(body).into_iter().filter(|n| self.lookup(n).is_some()).collect();
        // receivers of translated `&mut self` methods are mutated too (by method name: an over-approximation only
        // threads more state through the loop)
        for (root, method) in method_receivers(body) {
            let mutating = self.g.fns.iter().any(|(k, sig)| k.ends_with(&format!("::{}", method)) && sig.params.first().map(|p| p.name == "self" && p.mut_ref).unwrap_or(false));
            if mutating && self.lookup(&root).is_some() && !assigned.contains(&root) {
                assigned.push(root);
            }
        }
        let mentioned: Vec<String> = mentioned_vars(body, cond).into_iter().filter(|n| self.lookup(n).is_some()).collect();
        // the &mut parameters must be threaded through when the body can return from the function
        let has_far = has_far_break(body, label.as_deref());
        // in a function returning `Option`, `?` returns `None` from inside the loop: a value return
        let ret_is_opt = matches!(self.u.resolve(&self.ret.clone()), Ty::Opt(_));
        let has_value_ret = has_value_return(body) || (ret_is_opt && contains_try(body));
        let has_ret = has_value_ret || has_far;
        let mut state: Vec<String> = assigned.clone();
        if has_ret {
            for p in self.mut_params.clone() {
                if !state.contains(&p) {
                    state.push(p);
                }
            }
        }
        let captured: Vec<String> = mentioned.iter().filter(|n| !state.contains(n)).cloned().collect();
        let cap_vars: Vec<Var> = captured.iter().map(|n| self.lookup(n).unwrap()).collect();
        let st_vars: Vec<Var> = state.iter().map(|n| self.lookup(n).unwrap()).collect();
        let st_tuple = tuple_text(&st_vars.iter().map(|v| v.lean.clone()).collect::<Vec<_>>());
        let cap_args = cap_vars.iter().map(|v| format!(" {}", v.lean)).collect::<String>();
        let st_args = st_vars.iter().map(|v| format!(" {}", v.lean)).collect::<String>();
        let is_for = iter.is_some();
        let fuel_arg = if self.uses_fuel_here(body, is_for) { " fuel" } else { "" };
        let ga = self.generic_args.clone();
        let continue_text = if is_for {
            format!("{}{}{}{} rest_{}", loop_name, ga, fuel_arg, cap_args, st_args)
        } else {
            format!("{}{}{} fuel{}", loop_name, ga, cap_args, st_args)
        };
        let break_text = if has_ret { format!(".ok (.done {})", st_tuple) } else { format!(".ok {}", st_tuple) };
        let far_break_text = if has_far { Some(format!(".ok (.brk {})", st_tuple)) } else { None };
        let outer_label_here = self.loop_stack.last().and_then(|l| l.label.clone());
        let outer_break_here = self.loop_stack.last().map(|l| l.break_text.clone());
        // ---- the loop function
        let saved_in_loop = self.in_loop_fn;
        let saved_stack = std::mem::take(&mut self.loop_stack);
        if has_ret {
            self.in_loop_fn = true;
        } else if saved_in_loop {
            // nested loop without its own value return inside a loop function: a `return` cannot occur in it
            self.in_loop_fn = false;
        }
        let saved_enclosing = std::mem::replace(&mut self.enclosing_label, outer_label_here);
        self.loop_stack.push(LoopCx { continue_text: continue_text.clone(), break_text: break_text.clone(), has_ret, label: label.clone(), far_break_text });
        self.scopes.push(HashMap::new());
        let mut head_steps = vec![];
        if let Some((pat, elem_ty, _)) = &iter {
            self.bind_pattern(pat, "x_", elem_ty, &mut head_steps)?;
        }
        let cont2 = continue_text.clone();
        let body_text = match cond {
            Some(c) => {
                let brk = break_text.clone();
                self.cond_k(c, &|cx| cx.block(body, &|_cx, _v| Ok(cont2.clone())), &|_cx| Ok(brk.clone()))?
            }
            None => self.block(body, &|_cx, _v| Ok(cont2.clone()))?,
        };
        let body_text = wrap(&head_steps, body_text);
        self.scopes.pop();
        self.loop_stack = saved_stack;
        self.in_loop_fn = saved_in_loop;
        self.enclosing_label = saved_enclosing;
        // types after the body has been seen (unification may have fixed literals)
        let cap_params = cap_vars.iter().map(|v| format!(" ({} : {})", v.lean, lean_ty(&self.u.resolve(&v.ty)))).collect::<String>();
        let st_tys: Vec<String> = st_vars.iter().map(|v| lean_ty(&self.u.resolve(&v.ty))).collect();
        let st_ty_text = if st_tys.is_empty() { "Unit".to_string() } else { st_tys.join(" × ") };
        let ret_payload_ty = {
            let sig_like = FnSig { lean: String::new(), params: self.mut_params.iter().map(|p| Param { name: p.clone(), ty: self.lookup(p).map(|v| v.ty).unwrap_or(Ty::Unit), mut_ref: true }).collect(), ret: self.ret.clone(), fuel: false, generics: vec![], externs: vec![] };
            lean_ret(&sig_like).trim_start_matches("Res ").to_string()
        };
        let out_ty = if has_ret { format!("Res ({} {} ({}))", if has_far { "ExitB" } else { "Exit" }, ret_payload_ty, st_ty_text) } else { format!("Res ({})", st_ty_text) };
        let st_arrows = st_tys.iter().map(|t| format!("{} → ", t)).collect::<String>();
        let st_pats = st_vars.iter().map(|v| format!(", {}", v.lean)).collect::<String>();
        let def = if let Some((_, elem_ty, _)) = &iter {
            let fuel_param = if fuel_arg.is_empty() { "" } else { " (fuel : Nat)" };
            format!(
                "def {}{}{}{} : List {} → {}{}\n  | []{} => {}\n  | x_ :: rest_{} =>\n{}\n",
                loop_name,
                self.generic_binders.clone() + &self.g.externs.iter().map(|(_, l, t)| format!(" ({} : {})", l, lean_ty(t))).collect::<String>(),
                fuel_param,
                cap_params,
                lean_ty(&self.u.resolve(elem_ty)),
                st_arrows,
                out_ty,
                st_pats,
                break_text,
                st_pats,
                indent(&indent(&body_text))
            )
        } else {
            format!(
                "def {}{}{} : Nat → {}{}\n  | 0{} => .error .diverge\n  | fuel + 1{} =>\n{}\n",
                loop_name,
                self.generic_binders.clone() + &self.g.externs.iter().map(|(_, l, t)| format!(" ({} : {})", l, lean_ty(t))).collect::<String>(),
                cap_params,
                st_arrows,
                out_ty,
                st_pats,
                st_pats,
                indent(&indent(&body_text))
            )
        };
        self.aux.push(def);
        // ---- the call
        let call = if let Some((_, _, it)) = &iter {
            format!("{}{}{}{} {}{}", loop_name, ga, fuel_arg, cap_args, it.atom, st_args)
        } else {
            format!("{}{}{} fuel{}", loop_name, ga, cap_args, st_args)
        };
        let after = k(self, None)?;
        let iter_steps = iter.map(|(_, _, v)| v.steps).unwrap_or_default();
        let text = if has_ret {
            let r = self.fresh_tmp();
            let ret_leaf = if !has_value_ret {
                ".error .panic".to_string() // not produced by this loop (it contains no `return`)
            } else if self.in_loop_fn {
                format!(".ok (.ret {})", r)
            } else {
                format!(".ok {}", r)
            };
            // `.brk`: the body broke out of the loop that encloses this one
            let brk_leaf = match (has_far, &outer_break_here) {
                (true, Some(b)) => b.clone(),
                _ => ".error .panic".to_string(), // not produced by this loop
            };
            if has_far {
                format!("match {} with\n| .error e => .error e\n| .ok (.ret {}) => {}\n| .ok (.brk {}) => {}\n| .ok (.done {}) =>\n{}", call, r, ret_leaf, st_tuple, brk_leaf, st_tuple, indent(&after))
            } else {
                format!("match {} with\n| .error e => .error e\n| .ok (.ret {}) => {}\n| .ok (.done {}) =>\n{}", call, r, ret_leaf, st_tuple, indent(&after))
            }
        } else {
            format!("match {} with\n| .error e => .error e\n| .ok {} =>\n{}", call, st_tuple, indent(&after))
        };
        Ok(wrap(&iter_steps, text))
    }

    fn uses_fuel_here(&mut self, body: &[syn::Stmt], is_for: bool) -> bool {
        // a `for` loop whose body contains a fuel loop or calls a fuel function needs the fuel too
        struct V<'a>(&'a Global, bool);
        impl<'ast, 'a> syn::visit::Visit<'ast> for V<'a> {
            fn visit_expr_while(&mut self, _w: &'ast syn::ExprWhile) {
                self.1 = true;
            }
            fn visit_expr_loop(&mut self, _w: &'ast syn::ExprLoop) {
                self.1 = true;
            }
            fn visit_expr_call(&mut self, c: &'ast syn::ExprCall) {
                if let syn::Expr::Path(p) = &*c.func {
                    if let Some(sig) = self.0.fns.get(&path_last(&p.path)) {
                        if sig.fuel {
                            self.1 = true;
                        }
                    }
                }
                syn::visit::visit_expr_call(self, c);
            }
        }
        let mut v = V(self.g, !is_for);
        for s in body {
            syn::visit::Visit::visit_stmt(&mut v, s);
        }
        if v.1 {
            self.uses_fuel = true;
        }
        v.1
    }
}

pub fn tuple_text(names: &[String]) -> String {
    match names.len() {
        0 => "()".into(),
        1 => names[0].clone(),
        _ => format!("({})", names.join(", ")),
    }
}

fn strip_paren(e: &syn::Expr) -> &syn::Expr {
    match e {
        syn::Expr::Paren(p) => strip_paren(&p.expr),
        _ => e,
    }
}

pub fn assign_op(op: &syn::BinOp) -> Option<syn::BinOp> {
    use syn::BinOp::*;
    Some(match op {
        AddAssign(_) => Add(Default::default()),
        SubAssign(_) => Sub(Default::default()),
        MulAssign(_) => Mul(Default::default()),
        DivAssign(_) => Div(Default::default()),
        RemAssign(_) => Rem(Default::default()),
        BitXorAssign(_) => BitXor(Default::default()),
        BitAndAssign(_) => BitAnd(Default::default()),
        BitOrAssign(_) => BitOr(Default::default()),
        ShlAssign(_) => Shl(Default::default()),
        ShrAssign(_) => Shr(Default::default()),
        _ => return None,
    })
}

pub fn is_shift(op: &syn::BinOp) -> bool {
    matches!(op, syn::BinOp::Shl(_) | syn::BinOp::Shr(_))
}

include!("ex.rs");
