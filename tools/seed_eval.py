#!/usr/bin/env python3
"""tools/seed_eval.py <seed-id> <worktree> <property> [--checks C01,C07] [--needs "..."] [--desc "..."]

Confirms a seeded change produced by a sub-agent (demo fails with it / passes without it / suite passes
with it), stores it under /verif/seeded/<seed-id>/ and runs the registered checks against it by applying
the patch to /repo and undoing it straight afterwards.  Never commits anything in /repo."""
import argparse, json, os, shutil, subprocess, sys, time

VERIF = os.path.normpath(os.path.join(os.path.dirname(os.path.abspath(__file__)), ".."))
ENV = dict(os.environ, CARGO_NET_OFFLINE="true")


def sh(cmd, cwd=None, timeout=3600):
    p = subprocess.run(cmd, shell=True, cwd=cwd, capture_output=True, text=True, env=ENV, timeout=timeout)
    return p.returncode, p.stdout + p.stderr


def main():
    ap = argparse.ArgumentParser()
    ap.add_argument("seed")
    ap.add_argument("worktree")
    ap.add_argument("prop")
    ap.add_argument("--checks", default=None)
    ap.add_argument("--needs", default="")
    ap.add_argument("--desc", default="")
    ap.add_argument("--tier", default="quick")
    ap.add_argument("--skip-confirm", action="store_true")
    ap.add_argument("--no-restore", action="store_true", help="do not re-run the checks on the unchanged tree afterwards (the caller does it once at the end)")
    ap.add_argument("--no-checks", action="store_true", help="only confirm and store the seed; run the checks later with --skip-confirm")
    ap.add_argument("--features", default="", help="cargo feature flags for the demo, e.g. '--features ram_bundle'")
    ap.add_argument("--rustflags", default="", help="RUSTFLAGS for the demo, e.g. '--cfg sourcemap_verif'")
    a = ap.parse_args()
    wt = a.worktree
    dst = os.path.join(VERIF, "seeded", a.seed)
    os.makedirs(dst, exist_ok=True)
    ran = []
    meta_path = os.path.join(dst, "meta.json")
    meta = json.load(open(meta_path)) if os.path.exists(meta_path) else {}
    demo_cmd = ("RUSTFLAGS='%s' " % a.rustflags if a.rustflags else "") + "cargo test --offline %s --test mut_demo" % a.features + (" --target-dir target/verif" if a.rustflags else "")
    if not a.skip_confirm:
        # the patch is the uncommitted src change of the worktree
        rc, diff = sh("git diff -- src", cwd=wt)
        assert diff.strip(), "no uncommitted src change in " + wt
        open(os.path.join(dst, "patch.diff"), "w").write(diff)
        shutil.copy(os.path.join(wt, "tests", "mut_demo.rs"), os.path.join(dst, "mut_demo.rs"))
        rc1, o1 = sh(demo_cmd + " 2>&1 | tail -15", cwd=wt)
        with_fail = "FAILED" in o1 or "failed" in o1 and "0 failed" not in o1
        ran.append({"cmd": demo_cmd + "  (with the change)", "failed_as_expected": with_fail, "tail": o1[-600:]})
        sh("git apply -R %s" % os.path.join(dst, "patch.diff"), cwd=wt)
        rc2, o2 = sh(demo_cmd + " 2>&1 | tail -8", cwd=wt)
        sh("git apply %s" % os.path.join(dst, "patch.diff"), cwd=wt)
        without_ok = "test result: ok" in o2
        ran.append({"cmd": "git apply -R patch.diff; cargo test --offline --test mut_demo; git apply patch.diff  (without the change)", "passed_as_expected": without_ok, "tail": o2[-300:]})
        sh("mv tests/mut_demo.rs /tmp/mut_demo_%s.rs" % a.seed, cwd=wt)
        rc3, o3 = sh("cargo test --offline --workspace 2>&1 | grep -E '^test result|FAILED|panicked' ", cwd=wt)
        sh("mv /tmp/mut_demo_%s.rs tests/mut_demo.rs" % a.seed, cwd=wt)
        suite_ok = "FAILED" not in o3 and "test result: ok" in o3 and " 0 passed" not in o3.replace("0 passed; 0 failed", "")
        npass = sum(int(l.split(" passed")[0].split()[-1]) for l in o3.splitlines() if " passed" in l)
        ran.append({"cmd": "cargo test --offline --workspace  (with the change, demo moved away)", "suite_passes": suite_ok, "tests_passed": npass})
        meta.update({"confirmed": bool(with_fail and without_ok and suite_ok)})
        print("confirm: demo fails with change=%s, passes without=%s, suite passes with change=%s (%d tests)" % (with_fail, without_ok, suite_ok, npass))
    if a.no_checks:
        meta.update({"seed": a.seed, "breaks_property": a.prop})
        if a.desc:
            meta["description"] = a.desc
        if a.needs:
            meta["needs_to_manifest"] = a.needs
        if ran:
            meta["what_was_run"] = ran
        json.dump(meta, open(meta_path, "w"), indent=1)
        return
    # run our checks against it
    checks = (a.checks or a.prop).split(",")
    patch = os.path.join(dst, "patch.diff")
    rc, st = sh("git -C /repo status --porcelain --untracked-files=no")
    assert not st.strip(), "/repo is dirty: " + st
    results = {}
    rc, o = sh("git -C /repo apply %s" % patch)
    assert rc == 0, "patch does not apply to /repo: " + o
    try:
        for c in checks:
            t0 = time.time()
            rc, o = sh("./check %s --tier %s" % (c, a.tier), cwd=VERIF, timeout=7200)
            viol = [l for l in o.splitlines() if l.startswith("VIOLATION")]
            rep = None
            if viol:
                try:
                    rp = viol[0].split("replay=")[1].split()[0]
                    rep = {k: (v[:300] if isinstance(v, str) else v) for k, v in json.load(open(rp)).items() if k in ("kind", "case", "impl", "model", "spec", "broken_obligations")}
                except Exception:
                    pass
            results[c] = {"exit": rc, "violation_lines": viol, "replay": rep, "wall_s": round(time.time() - t0, 1), "tier": a.tier}
            print("check %s (%s): exit %d %s" % (c, a.tier, rc, viol[:1]))
    finally:
        sh("git -C /repo checkout -- .")
    # restore evidence on the unchanged tree
    for c in ([] if a.no_restore else checks):
        sh("./check %s --tier quick" % c, cwd=VERIF, timeout=7200)
    meta.update({"seed": a.seed, "breaks_property": a.prop})
    if a.desc:
        meta["description"] = a.desc
    if a.needs:
        meta["needs_to_manifest"] = a.needs
    if ran:
        meta["what_was_run"] = ran
    meta.setdefault("check_results", {}).update(results)
    meta["caught_by"] = sorted(c for c, r in meta["check_results"].items() if r["exit"] != 0)
    json.dump(meta, open(meta_path, "w"), indent=1)
    print("caught_by:", meta["caught_by"])


main()
