"""Which Rust functions each property's Lean model mirrors (file, fn name or None for the whole file).
Read by tools/anchors.py; see its docstring."""
T, D, E = "src/types.rs", "src/decoder.rs", "src/encoder.rs"
VLQ = [("src/vlq.rs", "parse_vlq_segment_into"), ("src/vlq.rs", "encode_vlq"), ("src/vlq.rs", "generate_vlq_segment")]
DEC = [(D, "decode_regular"), (D, "decode_rmi")] + VLQ[:1]
ENC = [(E, "serialize_mappings"), (E, "serialize_range_mappings"), (E, "encode_rmi"), (E, "encode_vlq_diff")] + VLQ[1:2]
LOOKUP = [("src/utils.rs", "greatest_lower_bound"), (T, "lookup_token"), (T, "new"), (T, "get_src_col")]
DOC = [(D, "decode_common"), (D, "decode_index"), (E, "as_raw_sourcemap"), ("src/jsontypes.rs", None), (T, "prefix_source"), (T, "set_source_root"), (T, "get_source")]
BLD = [("src/builder.rs", n) for n in ("add_source_with_id", "add_source", "add_name", "add_with_id", "add", "add_raw", "add_token", "set_source_contents", "add_to_ignore_list", "strip_prefixes", "into_sourcemap", "set_source_root", "set_file", "set_debug_id")]
SMAP = [(T, n) for n in ("prefix_source", "set_source_root", "get_source", "set_source", "set_source_contents", "get_source_contents", "add_to_ignore_list")]
SV = [("src/sourceview.rs", "get_line"), ("src/sourceview.rs", "line_count"), ("src/sourceview.rs", "next"), ("src/sourceview.rs", "lines")]
ANCHORS = {
    "C01": DEC + ENC + DOC + LOOKUP[2:3],
    "C02": DEC + DOC + LOOKUP[2:3],
    "C03": ENC + DOC,
    "C04": LOOKUP,
    "C05": DEC + ENC + LOOKUP + [(D, "strip_head_read"), (D, "strip_junk_header"), (D, "decode_data_url"), (T, "flatten"), (T, "rewrite_with_mapping"), ("src/hermes.rs", "decode_hermes"), ("src/hermes.rs", "get_scope_for_token"), ("src/hermes.rs", "rewrite"), ("src/js_identifiers.rs", None)] + SV + [("src/sourceview.rs", "get_line_slice"), ("src/detector.rs", None)],
    "C06": DEC,
    "C07": DEC + ENC + LOOKUP,
    "C08": [(T, "flatten"), (T, "lookup_token"), (D, "decode_index"), (T, "get_source"), (T, "get_source_contents"), (T, "new"), ("src/builder.rs", "has_source_contents"), ("src/builder.rs", "get_source_contents")] + BLD + LOOKUP[:1],
    "C09": [(T, "rewrite_with_mapping"), (T, "rewrite"), (T, "new"), ("src/hermes.rs", "rewrite"), ("src/hermes.rs", "get_scope_for_token"), ("src/builder.rs", "has_source_contents"), ("src/builder.rs", "take_mapping")] + BLD,
    "C10": [(T, "adjust_mappings"), (T, "create_ranges"), (T, "new")],
    "C11": VLQ,
    "C12": [(D, "strip_head_read"), (D, "read"), (D, "is_junk_json"), (D, "strip_junk_header"), (D, "decode_data_url"), (D, "decode"), (D, "decode_slice"), ("src/detector.rs", "is_sourcemap_impl"), ("src/detector.rs", "is_sourcemap_slice_impl")],
    "C13": BLD + SMAP + [(E, "as_raw_sourcemap"), (D, "decode_regular")],
    "C14": [("src/hermes.rs", "decode_hermes"), ("src/hermes.rs", "get_scope_for_token"), ("src/hermes.rs", "get_original_function_name"), ("src/hermes.rs", "as_raw_sourcemap")] + VLQ[:1] + LOOKUP[:2],
    "C15": SV + [("src/sourceview.rs", "get_line_slice")],
    "C16": SV,
    "C17": [("src/sourceview.rs", "next"), ("src/sourceview.rs", "get_original_function_name"), ("src/sourceview.rs", "rev_token_iter"), ("src/js_identifiers.rs", None), (T, "get_original_function_name")] + LOOKUP[:2],
    "C18": [("src/detector.rs", None), (D, "decode_data_url"), (T, "to_data_url"), ("src/jsontypes.rs", None), (E, "as_raw_sourcemap")],
    "C19": [("src/utils.rs", "make_relative_path"), ("src/utils.rs", "find_common_prefix_of_sorted_vec"), ("src/utils.rs", "find_common_prefix"), ("src/utils.rs", "split_path"), ("src/utils.rs", "is_abs_path")],
    "C20": [("src/ram_bundle.rs", n) for n in ("parse", "startup_code", "get_module", "module_count", "next", "is_ram_bundle_slice", "iter_modules", "parse_indexed_from_slice")],
}
