"""Common machinery of /verif/check: regenerate constants, build and audit the Lean side, build
the Rust harness against /repo's working tree, run both on one case file, compare the streams,
shrink, consult known findings, write evidence.  See DESIGN.md sections 3 and 6."""
import fcntl, hashlib, json, os, re, shutil, subprocess, sys, time
from concurrent.futures import ThreadPoolExecutor

VERIF = os.path.normpath(os.path.join(os.path.dirname(os.path.abspath(__file__)), ".."))
LEAN = os.path.join(VERIF, "lean")
HARNESS = os.path.join(VERIF, "harness")
WORK = os.path.join(VERIF, ".work")
REPO = os.environ.get("VERIF_REPO", "/repo")
DRIVER = os.path.join(LEAN, ".lake", "build", "bin", "smdriver")
SMV = os.path.join(HARNESS, "target", "release", "smv")
ALLOWED_AXIOMS = {"propext", "Classical.choice", "Quot.sound"}
FORBIDDEN = re.compile(r"\b(sorry|admit|native_decide|bv_decide|implemented_by|unsafe)\b|^\s*axiom\s|maxHeartbeats\s+0\b")

ENV = dict(os.environ)
ENV.update({"CARGO_NET_OFFLINE": "true", "GOPROXY": "off", "PIP_NO_INDEX": "1"})


def log(*a):
    print(*a, flush=True)


class Lock:
    def __init__(self, name):
        os.makedirs(WORK, exist_ok=True)
        self.path = os.path.join(WORK, name + ".lock")

    def __enter__(self):
        self.f = open(self.path, "w")
        fcntl.flock(self.f, fcntl.LOCK_EX)
        return self

    def __exit__(self, *a):
        fcntl.flock(self.f, fcntl.LOCK_UN)
        self.f.close()


# ---------------------------------------------------------------- build steps

def extract_consts():
    """returns (ok, missing list)"""
    with Lock("lean"):
        p = subprocess.run([sys.executable, os.path.join(VERIF, "tools", "extract_consts.py")], capture_output=True, text=True, env=ENV)
    missing = [l.split(" ", 1)[1] for l in p.stdout.splitlines() if l.startswith("MISSING ")]
    if p.returncode not in (0, 3):
        missing.append("extractor crashed: " + p.stderr.strip()[-300:])
    return (p.returncode == 0, missing)


def rs2lean():
    """regenerate SmVerif/Generated/Rs*.lean from the current Rust source.
    returns dict unit -> (ok, detail); never raises"""
    res = {}
    try:
        crate = os.path.join(VERIF, "tools", "rs2lean")
        exe = os.path.join(crate, "target", "release", "rs2lean")
        with Lock("rs2lean"):
            srcs = [os.path.join(crate, "Cargo.toml")] + [os.path.join(crate, "src", f) for f in os.listdir(os.path.join(crate, "src"))]
            stale = os.path.exists(exe) and any(os.path.getmtime(f) > os.path.getmtime(exe) for f in srcs)
            if not os.path.exists(exe) or stale:
                # the translator is (re)built whenever its own sources are newer than the binary: a stale binary would
                # leave the files of units it does not know untouched, i.e. stale
                subprocess.run(["cargo", "build", "--release", "--offline"], cwd=crate, capture_output=True, text=True, env=ENV, timeout=1200)
            gen = os.path.join(LEAN, "SmVerif", "Generated")
            with Lock("lean"):
                p = subprocess.run([exe, os.path.join(REPO, "src"), gen], capture_output=True, text=True, env=ENV, timeout=300)
                for l in p.stdout.splitlines():
                    parts = l.split(" ", 2)
                    if len(parts) >= 2 and parts[0] in ("ok", "FAILED"):
                        res[parts[1]] = (parts[0] == "ok", parts[2] if len(parts) > 2 else "")
                        if parts[0] == "FAILED":
                            # never leave a stale translation behind: the tie theorems must not check against old code
                            with open(os.path.join(gen, parts[1] + ".lean"), "w") as f:
                                f.write("/- rs2lean could not translate this unit from the current source: %s -/\n" % (parts[2] if len(parts) > 2 else "").replace("-/", "- /"))
                if p.returncode not in (0, 2):
                    res["<translator>"] = (False, (p.stderr or "crashed")[-300:])
    except Exception as e:  # the tie is an addition: its machinery failing must not fail the check
        res["<translator>"] = (False, str(e)[-300:])
    return res


def tie_check(prop, units):
    """build and audit the tie theorems of a property against the regenerated code.
    returns dict: theorems (list), ok (list), lost (list of 'theorem: reason'), functions"""
    try:
        import tie_table
        entries = tie_table.tie_for(prop)
    except Exception as e:
        return {"theorems": [], "ok": [], "lost": ["tie table: %s" % e]}
    if not entries:
        return {"theorems": [], "ok": [], "lost": []}
    mods = sorted(set(m for m, _, _ in entries))
    built = {}
    ok_all, _ = lake_build(mods, timeout=1500)
    for m in mods:
        if ok_all:
            built[m] = True
            continue
        okb, outb = lake_build([m], timeout=1500)
        built[m] = okb
        if not okb:
            with open(os.path.join(WORK, "%s-tie-%s.log" % (prop, m.split(".")[-1])), "w") as f:
                f.write(outb)
    # one audit file per tie module: the modules' helper-lemma files are independent of each other and may not be
    # importable together
    aud = {}
    jobs = []
    for m in mods:
        good = [(m2, t) for m2, t, _ in entries if m2 == m and built[m]]
        if good:
            jobs.append(("%s-tie-%s" % (prop, m.split(".")[-1]), good))
    if jobs:
        from concurrent.futures import ThreadPoolExecutor
        with Lock("lean"):
            with ThreadPoolExecutor(max_workers=8) as ex:
                for a, _ in ex.map(lambda j: audit(j[0], j[1], locked=False), jobs):
                    aud.update(a)
    ok, lost = [], []
    for m, t, u in entries:
        if u in units and not units[u][0]:
            lost.append("%s: rs2lean cannot translate %s now (%s)" % (t, u, units[u][1][:120]))
        elif not built[m]:
            lost.append("%s: %s no longer checks against the regenerated %s" % (t, m, u))
        elif not aud.get(t, (False, []))[0]:
            lost.append("%s: %s" % (t, ", ".join(aud.get(t, (False, ["missing"]))[1])))
        else:
            ok.append(t)
    return {"theorems": [t for _, t, _ in entries], "ok": ok, "lost": lost}


def lake_build(targets, timeout=3000):
    """returns (ok, output)"""
    with Lock("lean"):
        p = subprocess.run(["lake", "build"] + targets, cwd=LEAN, capture_output=True, text=True, env=ENV, timeout=timeout)
    return (p.returncode == 0, p.stdout + p.stderr)


def strip_comments(text):
    # remove /- ... -/ (nested not handled beyond one level), -- ... and string literals
    text = re.sub(r"/-.*?-/", " ", text, flags=re.S)
    text = re.sub(r"--[^\n]*", " ", text)
    text = re.sub(r'"(?:\\.|[^"\\])*"', '""', text)
    return text


def source_scan():
    """grep the Lean sources for constructs that would weaken the trusted base"""
    hits = []
    for root, _, files in os.walk(LEAN):
        if ".lake" in root:
            continue
        for fn in files:
            if fn.endswith(".lean"):
                p = os.path.join(root, fn)
                body = strip_comments(open(p, encoding="utf-8").read())
                for i, line in enumerate(body.splitlines(), 1):
                    if FORBIDDEN.search(line):
                        hits.append("%s:%d: %s" % (os.path.relpath(p, VERIF), i, line.strip()[:100]))
    return hits


def audit(prop, theorems, locked=True):
    """run `#print axioms` for every property theorem; returns dict name -> (ok, axioms or error)"""
    os.makedirs(os.path.join(WORK, prop), exist_ok=True)
    path = os.path.join(WORK, prop, "Audit.lean")
    mods = sorted(set(m for m, _ in theorems))
    with open(path, "w") as f:
        for m in mods:
            f.write("import %s\n" % m)
        for _, t in theorems:
            f.write("#print axioms %s\n" % t)
    if locked:
        with Lock("lean"):
            p = subprocess.run(["lake", "env", "lean", path], cwd=LEAN, capture_output=True, text=True, env=ENV, timeout=1200)
    else:
        p = subprocess.run(["lake", "env", "lean", path], cwd=LEAN, capture_output=True, text=True, env=ENV, timeout=1200)
    out = p.stdout + p.stderr
    res = {}
    for _, t in theorems:
        short = t
        m = re.search(r"'%s' depends on axioms: \[(.*?)\]" % re.escape(short), out, re.S)
        if m:
            ax = [a.strip() for a in m.group(1).replace("\n", " ").split(",") if a.strip()]
            bad = [a for a in ax if a not in ALLOWED_AXIOMS]
            res[t] = (not bad, ax)
        elif re.search(r"'%s' does not depend on any axioms" % re.escape(short), out):
            res[t] = (True, [])
        else:
            res[t] = (False, ["<not found: theorem missing or module failed to build>"])
    return res, out


def leanchecker(mods):
    with Lock("lean"):
        p = subprocess.run(["lake", "env", "leanchecker"] + mods, cwd=LEAN, capture_output=True, text=True, env=ENV, timeout=3000)
    return p.returncode == 0, (p.stdout + p.stderr)[-2000:]


def cargo_build():
    """builds the harness against /repo's current working tree; returns (ok, output)"""
    lockfile = os.path.join(HARNESS, "Cargo.lock")
    with Lock("cargo"):
        if not os.path.exists(lockfile):
            shutil.copy(os.path.join(REPO, "Cargo.lock"), lockfile)
        p = subprocess.run(["cargo", "build", "--release", "--offline", "--bin", "smv"], cwd=HARNESS, capture_output=True, text=True, env=ENV, timeout=3000)
    return (p.returncode == 0, p.stdout + p.stderr)


# ---------------------------------------------------------------- running cases

def _run_harness(casefile, n, limit_ms):
    """returns list of n output lines, restarting after hangs / crashes"""
    outs = []
    while len(outs) < n:
        p = subprocess.run([SMV, casefile, "--skip", str(len(outs)), "--limit-ms", str(limit_ms)], capture_output=True, text=True, env=ENV)
        got = p.stdout.split("\n")
        if got and got[-1] == "":
            got.pop()
        outs.extend(got)
        if p.returncode == 0:
            break
        if p.returncode != 86:
            # crashed (abort, stack overflow, OOM kill): the case after the last printed one
            outs.append("crash rc=%d" % p.returncode)
    return outs[:n] + ["missing"] * max(0, n - len(outs))


def _run_driver(casefile, n):
    if not os.path.exists(DRIVER):
        return ["nodriver\t-\t1"] * n
    with open(casefile) as f:
        p = subprocess.run([DRIVER], stdin=f, capture_output=True, text=True, env=ENV)
    got = p.stdout.split("\n")
    if got and got[-1] == "":
        got.pop()
    if len(got) < n:
        got += ["driver-crash rc=%d\t-\t1" % p.returncode] * (n - len(got))
    return got[:n]


def run_cases(prop, lines, tag="cases", shards=16, limit_ms=10000):
    """lines: list of case lines (no comments).  returns list of dict(case, impl, model, spec, wf)"""
    d = os.path.join(WORK, prop)
    os.makedirs(d, exist_ok=True)
    n = len(lines)
    if n == 0:
        return []
    k = max(1, min(shards, n // 500 + 1))
    # round-robin: expensive cases that a generator emits next to each other are spread over all shards
    chunks = [lines[i::k] for i in range(k)]
    files = []
    for i, ch in enumerate(chunks):
        fp = os.path.join(d, "%s.%d.txt" % (tag, i))
        with open(fp, "w") as f:
            f.write("\n".join(ch) + "\n")
        files.append(fp)
    with ThreadPoolExecutor(max_workers=2 * k) as ex:
        hf = [ex.submit(_run_harness, fp, len(ch), limit_ms) for fp, ch in zip(files, chunks)]
        df = [ex.submit(_run_driver, fp, len(ch)) for fp, ch in zip(files, chunks)]
        hs = [f.result() for f in hf]
        ds = [f.result() for f in df]
    res = [None] * n
    for si, (ch, h, dr) in enumerate(zip(chunks, hs, ds)):
        for j, (c, i, m) in enumerate(zip(ch, h, dr)):
            parts = m.split("\t")
            while len(parts) < 3:
                parts.append("-")
            model, spec, wf = parts[0], parts[1], parts[2]
            if spec == "=":
                spec = model
            res[si + j * k] = {"case": c, "impl": i, "model": model, "spec": spec, "wf": wf}
    return res


def alternatives_match(impl, spec):
    a, b = impl.split(" ", 1), spec.split(" ", 1)
    if a[0] != b[0] or len(a) != len(b):
        return False
    if len(a) == 1:
        return True
    ia, sb = a[1].split(","), b[1].split(",")
    return len(ia) == len(sb) and all(x in y.split("|") for x, y in zip(ia, sb))


MODEL_ONLY_PREFIXES = ()   # set per run from the generator module (ops borrowed from another property's family)


def classify(r):
    """-> None (agree) | 'spec' (impl contradicts the property's own demand on an input inside the
    quantifier) | 'model' (impl differs from the model: correspondence broken) | 'note'"""
    if r["impl"] == "skip":
        return None
    if MODEL_ONLY_PREFIXES and r["case"].startswith(MODEL_ONLY_PREFIXES):
        # a case borrowed from another property's op family: that property's own specification is judged by its own
        # check; here only the tie to the model counts (e.g. C04 observes the ORDER of maps other operations produce)
        return None if r["impl"] == r["model"] else "model"
    wf = r["wf"]
    if wf == "2":
        return None if r["impl"] == r["model"] else "note"
    if r["spec"] == "safe":
        # unmodelled exploration op (C05): the property only demands that every call completes
        bad = (not r["impl"].startswith("ok")) or "MISMATCH" in r["impl"] or "FAILED" in r["impl"]
        return "spec" if bad else None
    if wf == "1" and r["spec"] == "err":
        # the property only demands *an* error here
        if not r["impl"].startswith("err ") or r["impl"] == "err panic":
            return "spec"
    elif wf == "1" and r["spec"] != "-" and r["impl"] != r["spec"]:
        if "|" in r["spec"] and alternatives_match(r["impl"], r["spec"]):
            pass  # the specification admits several answers (a|b per comma-separated entry)
        else:
            return "spec"
    if r["impl"] != r["model"]:
        return "model"
    return None


# ---------------------------------------------------------------- shrinking

def _variants(tok):
    """smaller versions of one whitespace-free token of a case line"""
    out = []
    if re.fullmatch(r"-?\d+", tok):
        v = int(tok)
        if v != 0:
            out += [0, v // 2, v - 1 if v > 0 else v + 1]
        return [str(x) for x in dict.fromkeys(out)]
    for sep in (";", "|", ",", ":", "/"):
        if sep in tok:
            parts = tok.split(sep)
            if len(parts) > 1:
                half = len(parts) // 2
                out.append(sep.join(parts[:half]))
                out.append(sep.join(parts[half:]))
                for i in range(min(len(parts), 24)):
                    out.append(sep.join(parts[:i] + parts[i + 1:]))
            for i, p in enumerate(parts[:24]):
                for v in _variants(p)[:3]:
                    out.append(sep.join(parts[:i] + [v] + parts[i + 1:]))
            return [x if x else "-" for x in dict.fromkeys(out)]
    if re.fullmatch(r"(?:[0-9a-f]{2})+", tok) and len(tok) > 2:
        n = len(tok) // 2
        out.append(tok[: (n // 2) * 2])
        out.append(tok[(n // 2) * 2:])
        for i in range(min(n, 32)):
            out.append(tok[: 2 * i] + tok[2 * i + 2:])
        return [x if x else "-" for x in dict.fromkeys(out)]
    return []


def shrink(prop, r, kind, budget=150, valid=None):
    """greedy delta debugging over the fields of the case line, keeping the same failure class"""
    best = r
    steps = 0
    improved = True
    deadline = time.time() + float(os.environ.get("VERIF_SHRINK_SECONDS", "45"))
    while improved and steps < budget and time.time() < deadline:
        improved = False
        toks = best["case"].split(" ")
        for i in range(1, len(toks)):
            cands = [" ".join(toks[:i] + [v] + toks[i + 1:]) for v in _variants(toks[i])]
            if valid:
                cands = [c for c in cands if valid(c)]
            cands = cands[: max(0, budget - steps)]
            if not cands or time.time() > deadline:
                continue
            # a bounded number of candidates per call and a short per-case limit: shrinking must never take longer than
            # finding did (candidates of very long case lines - hundreds of sources, 2^16 lines - can be slow or crash)
            cands = cands[:6 if len(best["case"]) > 2000 else 24]
            steps += len(cands)
            rs = run_cases(prop, cands, tag="shrink", shards=4, limit_ms=1500)
            # a shrunk case must fail the SAME way: never accept a candidate on which either side only reports that
            # the case line itself is malformed (bad-op, the generators' own cross-checks, pool / skip markers)
            junk = ("bad-op", "gen-vlq-mismatch", "bad-op-case", "pool-mismatch", "pool-missing", "skip")
            hit = [x for x in rs if classify(x) == kind and not any(j in x["impl"] or j in x["model"] for j in junk)
                   and x["impl"].split(" ")[0] == r["impl"].split(" ")[0]]
            if hit:
                best = min(hit, key=lambda x: len(x["case"]))
                improved = True
                break
    return best


# ---------------------------------------------------------------- findings / replay / evidence

def load_findings():
    p = os.path.join(VERIF, "known_findings.json")
    if not os.path.exists(p):
        return []
    return json.load(open(p))


def finding_for(prop, case, cls=None):
    """an open finding listed in known_findings.json that covers this failing case: either by its exact
    case line (`key`) or by its failure class (`class`), a string the property's generator module computes
    from the failing result with `finding_class(r)` (a narrow, documented predicate on the input and on the
    way it fails, so that any other violation of the same property is still reported)"""
    for f in load_findings():
        if f.get("property") != prop or f.get("status") != "open":
            continue
        if f.get("class"):
            if cls is not None and f.get("class") == cls:
                return f
        elif f.get("key") == case:
            return f
    return None


def safe_class(mod, r, kind):
    """the generator module's failure class of a failing result; a case line the classifier cannot read (e.g. one the
    shrinker mangled) simply has no class"""
    fc = getattr(mod, "finding_class", None)
    if not fc:
        return None
    try:
        return fc(r, kind)
    except Exception:
        return None


def write_replay(prop, name, payload):
    os.makedirs(os.path.join(VERIF, "replays"), exist_ok=True)
    path = os.path.join(VERIF, "replays", "%s-%s.json" % (prop, name))
    with open(path, "w") as f:
        json.dump(payload, f, indent=1)
    return path


def write_evidence(prop, ev):
    os.makedirs(os.path.join(VERIF, "evidence"), exist_ok=True)
    path = os.path.join(VERIF, "evidence", "%s.json" % prop)
    with open(path, "w") as f:
        json.dump(ev, f, indent=1)
    return path


def read_corpus(prop):
    d = os.path.join(VERIF, "corpus", prop)
    lines = []
    if os.path.isdir(d):
        for fn in sorted(os.listdir(d)):
            if fn.endswith(".case"):
                for l in open(os.path.join(d, fn)):
                    l = l.strip()
                    if l and not l.startswith("#"):
                        lines.append(l)
    return lines


# ---------------------------------------------------------------- the per-property check

def run_check(mod, tier, seed, replay=None):
    """mod: a tools/gen/cXX module.  Returns exit status."""
    from rng import Rng
    t0 = time.time()
    prop = mod.PROP
    global MODEL_ONLY_PREFIXES
    MODEL_ONLY_PREFIXES = tuple(getattr(mod, "MODEL_ONLY_PREFIXES", ()))
    violations = []  # (kind, text, replay payload)
    notes = []
    known = []

    # 1. constants regenerated from the source
    ok, missing = extract_consts()
    relevant_missing = [m for m in missing if any(m.startswith(c) for c in getattr(mod, "CONSTS", [])) or m.startswith("extractor")]
    consts_broken = bool(relevant_missing)

    # 2. Lean: build property modules + driver, audit axioms, scan sources
    theorems = [(m, t) for m, ts in mod.THEOREMS.items() for t in ts]
    mods = sorted(mod.THEOREMS.keys())
    okb, outb = lake_build(mods + ["smdriver"])
    broken_obligations = []
    if not okb:
        # find which modules failed; retry the driver alone so that the search can still run
        failed = re.findall(r"✖ \[\d+/\d+\] Building (\S+)", outb) or re.findall(r"error: (\S+\.lean)", outb)
        broken_obligations.append("lake build failed: %s" % (", ".join(sorted(set(failed))) or "see log"))
        lake_build(["smdriver"])
        with open(os.path.join(WORK, "%s-lake.log" % prop), "w") as f:
            f.write(outb)
    aud, audout = audit(prop, theorems)
    discharged = 0
    for (m, t) in theorems:
        okt, ax = aud[t]
        if okt:
            discharged += 1
        else:
            broken_obligations.append("theorem %s: %s" % (t, ", ".join(ax)))
    scan = source_scan()
    if scan:
        broken_obligations.append("forbidden construct in Lean sources: " + "; ".join(scan[:5]))
    # a constant whose source pattern no longer matches keeps its last extracted value: the theorems still check, but
    # against a value that is no longer re-read from the code - a lost tie (handled with the translation tie below),
    # not a broken obligation.  A constant that IS found and changed rewrites Consts.lean and breaks the obligations.
    lc_note = None
    if tier == "thorough" and not broken_obligations:
        okc, outc = leanchecker(mods)
        lc_note = "leanchecker %s: %s" % (" ".join(mods), "ok" if okc else "FAILED " + outc[-300:])
        if not okc:
            broken_obligations.append(lc_note)

    # 2b. source anchors: has the Rust code a model mirrors changed since the model was validated against it?
    anchors_changed = []
    try:
        import anchors as _anchors, anchor_table as _at
        anchors_changed = _anchors.changed(prop, _at.ANCHORS.get(prop, []))
    except Exception as e:  # never let the fingerprinting break a check
        anchors_changed = []
        log("NOTE anchors not evaluated: %s" % e)
    # 2c. translation tie: regenerate the Lean translation of the Rust core and re-check `generated = model`
    tie = {"theorems": [], "ok": [], "lost": []}
    try:
        units = rs2lean()
        tie = tie_check(prop, units)
        tie["units"] = {u: ("ok" if v[0] else "FAILED " + v[1][:160]) for u, v in units.items()}
    except Exception as e:
        tie["lost"] = ["tie machinery: %s" % e]
    if tier == "thorough" and not replay and tie.get("ok") and not tie.get("lost"):
        # independent re-check of the compiled tie modules (as for the property modules above); a failure loses the tie,
        # it does not raise an alarm by itself
        try:
            import tie_table as _tt
            tmods = sorted(set(m for m, _, _ in _tt.tie_for(prop)))
            okt, outt = leanchecker(tmods)
            tie["leanchecker"] = "leanchecker %s: %s" % (" ".join(tmods), "ok" if okt else "FAILED " + outt[-300:])
            if not okt:
                tie["lost"].append("leanchecker on the tie modules: " + outt[-200:])
        except Exception as e:
            tie["leanchecker"] = "leanchecker on the tie modules not run: %s" % str(e)[-200:]
    if consts_broken:
        tie.setdefault("lost", []).extend("const %s: source pattern not found, last extracted value kept" % m for m in relevant_missing)
    if tie["lost"] and not replay:
        log("NOTE translation tie lost (%s): deciding on the correspondence alone, with the search widened" % "; ".join(tie["lost"])[:600])
        anchors_changed = sorted(set(anchors_changed + ["tie:" + l.split(":")[0] for l in tie["lost"]]))
    if anchors_changed and not replay and not all(a.startswith("tie:") for a in anchors_changed):
        log("NOTE modelled source changed since validation (%s): widening the search to the thorough generators" % ", ".join(anchors_changed))

    # 3. harness against /repo's working tree
    okc, outc = cargo_build()
    if not okc:
        with open(os.path.join(WORK, "%s-cargo.log" % prop), "w") as f:
            f.write(outc)
        path = write_replay(prop, "harness-build", {"property": prop, "what": "the harness no longer builds against /repo (public API used by the correspondence changed or the crate does not compile)", "log_tail": outc[-3000:]})
        log("VIOLATION property=%s replay=%s no-failing-input-found" % (prop, path))
        write_evidence(prop, evidence(mod, tier, seed, t0, [], {}, len(theorems), discharged, broken_obligations, 1, lc_note))
        return 1

    # 4. cases
    rng = Rng(seed)
    hist = {}
    if replay:
        payload = json.load(open(replay))
        lines = payload.get("cases") or [payload["case"]]
    else:
        lines = read_corpus(prop) + list(mod.corpus())
        search_tier = "thorough" if (broken_obligations or anchors_changed) else tier
        # a generator may look at WIDENED to keep its widened stream within minutes (the cap below samples it anyway)
        mod.WIDENED = (search_tier != tier and not broken_obligations)
        gen = list(mod.generate(search_tier, rng, hist))
        cap = int(os.environ.get("VERIF_WIDEN_CAP", "150000"))
        if search_tier != tier and not broken_obligations and len(gen) > cap:
            # widened only because the mirrored source changed: an even sample of the thorough stream keeps the
            # quick command within minutes (the thorough command always runs the whole stream)
            stepf = len(gen) / float(cap)
            gen = [gen[int(i * stepf)] for i in range(cap)]
            hist["widened_sample_of_thorough"] = cap
        if search_tier != tier:
            # a widened run never explores less than the plain run of its tier: the tier's own stream (with its
            # one-of-a-kind cases, which an even sample of the thorough stream would drop) comes first, whole
            mod.WIDENED = False
            own = list(mod.generate(tier, Rng(seed), {}))
            mod.WIDENED = (not broken_obligations)
            seen_own = set(own)
            gen = own + [g for g in gen if g not in seen_own]
            hist["widened_plus_own_stream"] = len(own)
        lines += gen
    results = run_cases(prop, lines, limit_ms=getattr(mod, "LIMIT_MS", 10000))

    # 5. compare
    seen_fail = {}
    for r in results:
        k = classify(r)
        if k is None:
            continue
        if k == "note":
            if len(notes) < 5:
                notes.append(r)
            continue
        f = finding_for(prop, r["case"], safe_class(mod, r, k))
        if f:
            known.append((f, r))
            continue
        seen_fail.setdefault(k, []).append(r)
    by_finding = {}
    for f, r in known:
        by_finding.setdefault(f.get("id") or f.get("key"), (f, []))[1].append(r)
    for fid, (f, rs) in by_finding.items():
        log("KNOWN-FINDING: property=%s %s %s [%d case(s) in this run, e.g. %s]" % (prop, f.get("id", ""), f["what"], len(rs), min((x["case"] for x in rs), key=len)[:160]))
    for k in ("spec", "model"):
        fails = seen_fail.get(k, [])
        if not fails:
            continue
        first = min(fails[:50], key=lambda x: len(x["case"]))
        small = shrink(prop, first, k, valid=getattr(mod, "valid_case", None)) if not replay else first
        if finding_for(prop, small["case"], safe_class(mod, small, k)):
            small = first
        payload = {"property": prop, "kind": "impl-vs-spec (the real code contradicts the property on this input)" if k == "spec" else "impl-vs-model (correspondence between the Lean model and the code is broken; the theorems no longer speak about this code)",
                   "case": small["case"], "impl": small["impl"], "model": small["model"], "spec": small["spec"], "wf": small["wf"],
                   "original_case": first["case"], "seed": seed, "tier": tier, "failing_cases_in_run": len(fails),
                   "replay_cmd": "./check %s --replay <this file>" % prop}
        if k == "model":
            payload["theorems_no_longer_tied_to_code"] = [t for _, t in theorems]
        name = "%s-%s" % (k, hashlib.sha1(small["case"].encode()).hexdigest()[:10])
        path = write_replay(prop, name, payload)
        suffix = "" if (k == "spec" or getattr(mod, "MODEL_IS_SPEC", True) and small["wf"] == "1") else " no-failing-input-found"
        violations.append("VIOLATION property=%s replay=%s%s" % (prop, path, suffix))
    if any(not v.endswith("no-failing-input-found") for v in violations):
        # a concrete failing input was found: correspondence breaks without one are subsumed by it
        violations = [v for v in violations if not v.endswith("no-failing-input-found")]
    if broken_obligations:
        concrete = [v for v in violations if not v.endswith("no-failing-input-found")]
        if not concrete:
            path = write_replay(prop, "obligation", {"property": prop, "broken_obligations": broken_obligations, "searched_cases": len(results), "note": "a proof obligation of this property no longer checks against /repo's current source; the widened search found no input on which the implementation contradicts the property"})
            violations.append("VIOLATION property=%s replay=%s no-failing-input-found" % (prop, path))
        else:
            for v in concrete:
                pass
    for r in notes:
        log("NOTE outside-property disagreement: %s impl=%s model=%s" % (r["case"][:100], r["impl"][:60], r["model"][:60]))
    for v in violations:
        log(v)

    # 6. evidence
    ev = evidence(mod, tier, seed, t0, results, hist, len(theorems), discharged, broken_obligations, len(violations), lc_note, known=sorted(set(str(f.get("id") or f.get("key")) for f, _ in known)))
    ev["coverage"]["translation_tie"] = {"theorems_checked_against_regenerated_code": tie.get("ok", []), "lost": tie.get("lost", []), "units": tie.get("units", {})}
    if tie.get("leanchecker"):
        ev["coverage"]["translation_tie"]["leanchecker"] = tie["leanchecker"]
    ev["coverage"]["source_anchors_changed"] = anchors_changed
    ev["coverage"]["search_widened"] = bool(anchors_changed or broken_obligations)
    write_evidence(prop, ev)
    log("%s %s: %d theorems audited (%d ok), %d cases, %d distinct non-trivial, %d violations, %.1fs" % (prop, tier, len(theorems), discharged, len(results), ev["coverage"]["distinct_nontrivial"], len(violations), time.time() - t0))
    return 1 if violations else 0


def evidence(mod, tier, seed, t0, results, hist, nthm, discharged, broken, nviol, lc_note, known=()):
    distinct = set()
    for r in results:
        if r["impl"] != "skip" and mod.nontrivial(r):
            distinct.add(r["case"])
    outcome_hist = {}
    for r in results:
        key = " ".join(r["model"].split(" ")[:2]) if r["model"].startswith("err") else r["model"].split(" ")[0]
        outcome_hist[key] = outcome_hist.get(key, 0) + 1
    samples = []
    step = max(1, len(results) // 6)
    for r in results[::step][:6]:
        samples.append({"case": r["case"][:400], "impl": r["impl"][:300], "model": r["model"][:300]})
    theorems = [t for ts in mod.THEOREMS.values() for t in ts]
    cov = {
        "obligations": nthm,
        "discharged": discharged,
        "checker_cmd": "cd /verif/lean && lake build %s && lake env lean <#print axioms for each theorem>%s" % (" ".join(sorted(mod.THEOREMS.keys())), " && lake env leanchecker ..." if tier == "thorough" else ""),
        "trusted_base": mod.TRUSTED,
        "theorems": theorems,
        "broken_obligations": broken,
        "evaluations": len(results),
        "distinct_nontrivial": len(distinct),
        "rule": mod.RULE,
        "samples": samples or [{"obligation": t} for t in theorems[:3]],
        "traces_validated_against_impl": sum(1 for r in results if r["impl"] != "skip"),
        "model_outcome_histogram": outcome_hist,
        "generator_histogram": hist,
        "exhaustive": bool(getattr(mod, "EXHAUSTIVE", {}).get(tier, False)),
        "known_findings_hit": list(known),
    }
    if lc_note:
        cov["leanchecker"] = lc_note
    return {
        "property_id": mod.PROP,
        "tier": tier,
        "seed": seed,
        "level": "proof",
        "coverage": cov,
        "assumptions": mod.ASSUMPTIONS,
        "wall_s": round(time.time() - t0, 2),
        "violations": nviol,
    }
