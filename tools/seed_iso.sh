#!/bin/sh
# tools/seed_iso.sh <patch.diff> <checks...>: run checks against a patched scratch worktree of /repo WITHOUT touching /repo
# (used while other jobs are building against /repo; the recorded evaluation is still done by tools/seed_eval.py on /repo itself)
set -e
P=$(readlink -f "$1"); shift
S=/tmp/w/SEEDISO
rm -rf $S/repo; mkdir -p $S
git -C /repo worktree remove --force $S/repo 2>/dev/null || true
git -C /repo worktree add -q --detach $S/repo HEAD
git -C $S/repo apply "$P"
rsync -a --delete --exclude .git --exclude .work --exclude replays --exclude evidence /verif/ $S/verif/
mkdir -p $S/verif/replays $S/verif/evidence
sed -i "s|path = \"/repo\"|path = \"$S/repo\"|" $S/verif/harness/Cargo.toml
cp /repo/Cargo.lock $S/verif/harness/Cargo.lock; cp /repo/Cargo.lock $S/repo/Cargo.lock
cd $S/verif
for c in "$@"; do VERIF_REPO=$S/repo ./check $c --tier ${TIER:-quick} 2>&1 | grep -E "VIOLATION|KNOWN|quick:|thorough:" ; done
git -C /repo worktree remove --force $S/repo
