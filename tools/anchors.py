#!/usr/bin/env python3
"""Source anchors: a fingerprint of every Rust function a Lean model mirrors.

`tools/anchors.json` (committed) holds, per property, the normalised hash of each anchored function
body as it was when the model was last validated against it.  On every run the runner recomputes the
hashes from /repo's current source.  A changed hash is NOT a violation (a harmless rewrite changes it
too): it says that the code the model mirrors is no longer the code it was validated against, so the
run widens its search to the thorough generators before it concludes anything, and records the
changed functions in the evidence.

  python3 tools/anchors.py            # report
  python3 tools/anchors.py --update   # rewrite anchors.json from the current source (after validation)
"""
import hashlib, json, os, re, sys
HERE = os.path.normpath(os.path.join(os.path.dirname(os.path.abspath(__file__)), ".."))
REPO = os.environ.get("VERIF_REPO", "/repo")
PATH = os.path.join(HERE, "tools", "anchors.json")


def strip_noise(text):
    # comments, then all whitespace; string literals are kept (they are behaviour)
    out, i, n = [], 0, len(text)
    while i < n:
        c = text[i]
        if text.startswith("//", i):
            j = text.find("\n", i)
            i = n if j < 0 else j
        elif text.startswith("/*", i):
            j = text.find("*/", i + 2)
            i = n if j < 0 else j + 2
        elif c == '"':
            j = i + 1
            while j < n and text[j] != '"':
                j += 2 if text[j] == "\\" else 1
            out.append(text[i:j + 1]); i = j + 1
        else:
            out.append(c); i += 1
    return re.sub(r"\s+", "", "".join(out))


def fn_body(text, name):
    """source text of every `fn name` (signature + body), concatenated; None if absent"""
    found = []
    for m in re.finditer(r"\bfn\s+%s\b" % re.escape(name), text):
        i = text.find("{", m.end())
        semi = text.find(";", m.end())
        if i < 0 or (0 <= semi < i):
            continue
        depth, j = 0, i
        in_str = False
        while j < len(text):
            ch = text[j]
            if in_str:
                if ch == "\\":
                    j += 1
                elif ch == '"':
                    in_str = False
            elif ch == '"':
                in_str = True
            elif text.startswith("//", j):
                k = text.find("\n", j); j = len(text) if k < 0 else k
                continue
            elif ch == "'" and j + 2 < len(text) and (text[j + 2] == "'" or (text[j + 1] == "\\" and text.find("'", j + 2) - j <= 5)):
                j = text.find("'", j + 2)
            elif ch == "{":
                depth += 1
            elif ch == "}":
                depth -= 1
                if depth == 0:
                    break
            j += 1
        found.append(text[m.start():j + 1])
    return "\n".join(found) if found else None


def fingerprint(anchors):
    """anchors: list of (file, fn or None for the whole file) -> dict 'file::fn' -> hash|'MISSING'"""
    res = {}
    cache = {}
    for f, fn in anchors:
        p = os.path.join(REPO, f)
        if f not in cache:
            cache[f] = open(p, encoding="utf-8").read() if os.path.exists(p) else None
        t = cache[f]
        key = "%s::%s" % (f, fn or "*")
        body = None if t is None else (t if fn is None else fn_body(t, fn))
        res[key] = "MISSING" if body is None else hashlib.sha256(strip_noise(body).encode()).hexdigest()[:16]
    return res


def load():
    return json.load(open(PATH)) if os.path.exists(PATH) else {}


def changed(prop, anchors):
    """-> list of anchor keys whose current fingerprint differs from the recorded one"""
    rec = load().get(prop, {})
    cur = fingerprint(anchors)
    return sorted(k for k, v in cur.items() if rec.get(k) != v)


def all_modules():
    sys.path.insert(0, os.path.join(HERE, "tools"))
    import anchor_table
    return dict(anchor_table.ANCHORS)


if __name__ == "__main__":
    mods = all_modules()
    if "--update" in sys.argv:
        json.dump({p: fingerprint(a) for p, a in mods.items()}, open(PATH, "w"), indent=1, sort_keys=True)
        print("anchors.json updated for", ", ".join(mods))
    else:
        for p, a in mods.items():
            ch = changed(p, a)
            print(p, "changed: " + ", ".join(ch) if ch else "unchanged (%d anchors)" % len(a))
