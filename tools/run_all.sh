#!/bin/sh
# run every claimed quick check on the current tree; prints one summary line per property
cd "$(dirname "$0")/.."
for p in $(python3 -c "import json;print(' '.join(c['property_id'] for c in json.load(open('MANIFEST.json'))['checks']))") "$@"; do
  ./check $p --tier quick 2>&1 | grep -E "VIOLATION|KNOWN|quick:" | tr '\n' ' '; echo
done
