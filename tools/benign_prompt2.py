#!/usr/bin/env python3
"""prints the prompt for a benign-refactor sub-agent: a behaviour-preserving change near the property's code (false-alarm test)"""
import json, sys
pid = sys.argv[1]
for l in open('/verif/properties.jsonl'):
    p = json.loads(l)
    if p['id'] == pid:
        break
D = f"/tmp/mut/{pid}"
print(f"""You are a maintainer of the Rust library getsentry/rust-sourcemap (crate `sourcemap`); you have your own scratch git worktree of it at {D} (work only there; there is no network; `cargo build --offline` / `cargo test --offline` work, for the RAM-bundle code add `--features ram_bundle`; never touch /repo or /verif, never read /verif).

The library is supposed to satisfy this semantic property:

  Title: {p['title']}
  Statement: {p['statement']}
  Quantified over: {p['quantifier']['text']}
  Relevant files: {', '.join(p['anchors']['files'])}

Your job: produce TWO independent, realistic, BEHAVIOUR-PRESERVING changes, G and H, to the code this property is about (prefer the glue around the core this time: accessors and their wrappers, dispatch layers, setters and constructors, iterators, builder internals, the assembly of the serialised fields, private helper functions) - the kind of harmless rewrite that lands in a code base all the time: restructuring a loop (iterator chain <-> explicit loop, while <-> for), extracting or inlining a helper function, renaming locals and private items, reordering independent statements or independent checks, replacing a hand-written loop by an equivalent std call (or the reverse), changing a private data representation, using a wider intermediate integer type where it cannot change any result, adding a cache or fast path that is truly equivalent, rewording a comment or a panic/expect message.  Each change should be substantial (touch the logic of at least one function the property depends on, not only comments or whitespace) but the observable behaviour of the public API must stay EXACTLY the same for every input: same return values, same error variants on the same inputs, same panics or absence of panics (including arithmetic overflow behaviour in debug builds), same output bytes.  Be careful and conservative: if you are not sure a rewrite is equivalent on every corner case, pick another one.  The property above must still hold after each change.

Deliver, inside {D}, for X in G, H:
  1. {D}/patchX.diff  (`git diff -- src > patchX.diff` with only change X in the tree);
  2. confirm `cargo test --offline --workspace` (and `cargo test --offline --features ram_bundle` if you touched ram_bundle.rs) passes with change X applied;
  3. a short argument, per change, why it is equivalent on every input (mention the corner cases you considered: empty inputs, maximal integers, non-ASCII text, duplicates, ...).
Finish with the worktree's src/ unchanged (both patches reverted, `git status --short src` empty).  NEVER use `git stash` (the stash is shared between worktrees).
Reply with, for each of G and H: a one-paragraph description and the equivalence argument.""")
