#!/usr/bin/env python3
"""tools/record_lane_results.py <dir with <seed-id>.result files>

Writes the outcome of a lane evaluation (tools/iso_eval.sh: the patch applied to a scratch worktree of /repo's HEAD, the
property's quick command run from a private copy of /verif) into seeded/<id>/meta.json under `check_results`, marked with
how it was obtained.  Replay files live in the lane copy and are not kept; the violation line and the summary line are."""
import glob, json, os, re, sys
HERE = os.path.normpath(os.path.join(os.path.dirname(os.path.abspath(__file__)), ".."))
d = sys.argv[1]
n = 0
for rp in sorted(glob.glob(os.path.join(d, "*.result"))):
    sid = os.path.basename(rp)[:-7]
    mp = os.path.join(HERE, "seeded", sid, "meta.json")
    if not os.path.exists(mp):
        continue
    m = json.load(open(mp))
    lines = open(rp).read().splitlines()
    res = {}
    cur_v = []
    for l in lines:
        if l.startswith("VIOLATION"):
            cur_v.append(l.strip())
        mm = re.match(r"(C\d\d) quick: (.*)", l)
        if mm:
            prop = mm.group(1)
            res[prop] = {"exit": 1 if cur_v else 0, "violation_lines": [re.sub(r"replay=\S*/replays/", "replay=replays/", v) for v in cur_v],
                         "summary": mm.group(2)[:160], "tier": "quick",
                         "evaluated": "patch applied to a scratch worktree of /repo HEAD (tools/iso_eval.sh), final machinery of session 3"}
            cur_v = []
    if not res:
        continue
    m["check_results"] = res
    m["caught_by"] = sorted(p for p, r in res.items() if r["exit"])
    json.dump(m, open(mp, "w"), indent=1)
    n += 1
print("recorded", n)
