#!/bin/sh
# tools/seed_r3.sh <Cxx> <A|B> <seed-id> <desc> <needs> [extra seed_eval args]: confirm one round-3 change delivered as
# /tmp/mut/<Cxx>/patch<X>.diff + demo<X>.rs and store it under seeded/<seed-id>/ (checks are run later by seed_all.sh on /repo)
set -e
P=$1; X=$2; ID=$3; DESC=$4; NEEDS=$5; shift 5
W=/tmp/mut/$P
cd $W
git checkout -q -- src; rm -f tests/mut_demo.rs
git apply patch$X.diff
cp demo$X.rs tests/mut_demo.rs
python3 /verif/tools/seed_eval.py "$ID" $W $P --no-checks --desc "$DESC" --needs "$NEEDS" "$@"
git checkout -q -- src; rm -f tests/mut_demo.rs
