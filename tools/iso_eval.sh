#!/bin/sh
# tools/iso_eval.sh <lane> <patch.diff> <checks...>: run checks against a patched scratch worktree of /repo WITHOUT touching
# /repo, in lane directory /tmp/w/LANE<lane> (several lanes can run side by side).  Prints the summary lines of each check.
# Used for benign-refactor (false-alarm) evaluation and for first-pass seed evaluation; recorded seed results come from
# tools/seed_eval.py on /repo itself.
set -e
L=$1; P=$(readlink -f "$2"); shift 2
S=/tmp/w/LANE$L
mkdir -p $S
git -C /repo worktree remove --force $S/repo 2>/dev/null || true
rm -rf $S/repo
git -C /repo worktree add -q --detach $S/repo HEAD
git -C $S/repo apply "$P"
rsync -a --delete --exclude .git --exclude .work --exclude replays --exclude evidence --exclude tools/rs2lean/target /verif/ $S/verif/
mkdir -p $S/verif/replays $S/verif/evidence
sed -i "s|path = \"/repo\"|path = \"$S/repo\"|" $S/verif/harness/Cargo.toml
cp /repo/Cargo.lock $S/verif/harness/Cargo.lock; cp /repo/Cargo.lock $S/repo/Cargo.lock
cd $S/verif
for c in "$@"; do VERIF_REPO=$S/repo ./check $c --tier ${TIER:-quick} 2>&1 | grep -E "VIOLATION|KNOWN|quick:|thorough:|NOTE modelled" | cut -c1-300 ; done
git -C /repo worktree remove --force $S/repo
