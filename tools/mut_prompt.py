#!/usr/bin/env python3
"""prints the prompt for a seeded-mutation sub-agent: only the property text and its worktree"""
import json, sys
pid = sys.argv[1]
for l in open('/verif/properties.jsonl'):
    p = json.loads(l)
    if p['id'] == pid:
        break
print(f"""You are testing how robust a Rust library's guarantees are.  The library is getsentry/rust-sourcemap (crate `sourcemap`); you have your own scratch git worktree of it at /tmp/mut/{pid} (work only there; there is no network; `cargo build --offline` / `cargo test --offline` work; never touch /repo or /verif).

Here is a semantic property the library is supposed to satisfy:

  Title: {p['title']}
  Statement: {p['statement']}
  Quantified over: {p['quantifier']['text']}
  Relevant files: {', '.join(p['anchors']['files'])}

Your job: produce ONE realistic change to the library's source (the kind of slip or "optimisation" a maintainer could plausibly make: an off-by-one, a wrong comparison, a dropped special case, a refactor that is subtly not equivalent, two sites that each look fine alone) that BREAKS this property, while the crate still compiles and the ENTIRE existing test suite (`cd /tmp/mut/{pid} && cargo test --offline --workspace`) still passes.
The breakage should need something specific to manifest - an unusual input, a particular size, a multi-step sequence of operations, a particular interleaving or a corner of the input space - not something ordinary use would expose at once.  Do not just delete a whole feature or make a function panic unconditionally.

Deliver, inside /tmp/mut/{pid}:
  1. the change itself, left UNCOMMITTED in the worktree (only files under src/), and also saved as /tmp/mut/{pid}/patch.diff (`git diff > patch.diff`, made before adding the demo);
  2. a demonstration: a new integration test file tests/mut_demo.rs (using only the crate's public API) with one test that FAILS with your change and PASSES on the original code.  Verify both: run it with the change (must fail), then take the src change out with `git apply -R patch.diff` (NEVER use `git stash`: the stash is shared between worktrees and other people are working in sibling worktrees), run it again (must pass), then put it back with `git apply patch.diff` and check `git diff -- src | diff - patch.diff` is empty.
  3. confirm `cargo test --offline --workspace` passes with the change when tests/mut_demo.rs is excluded (e.g. temporarily move it away).
Reply with: a one-paragraph description of the change, what exactly is needed for it to manifest, and the exact commands you ran with their outcomes.""")
