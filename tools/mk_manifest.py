#!/usr/bin/env python3
"""Writes /verif/MANIFEST.json from the table below (kept in one place so the file stays valid)."""
import json, os
HERE = os.path.normpath(os.path.join(os.path.dirname(os.path.abspath(__file__)), ".."))

CLAIMED = {
    # id: (design section, level text, level note, technique)
    "C11": ("7/C11",
            "Kernel-checked Lean 4 theorems over the VLQ model: round trip for every list of 62-bit integers (unbounded length), canonical texts re-encode to themselves, all u32 differences, agreement with an independent reading of the standard on every alphabet string whose values fit 63 bits, unconditional error cases, and the 256-entry table facts by `decide +kernel` over constants regenerated from vlq.rs on every run. The model is tied to the code by a differential run (exhaustive short strings, +-2^22 / +-2^32 integer windows by checksum, random long strings).",
            "Trusted: Lean kernel (+ propext, Classical.choice, Quot.sound), the hand-written model lean/SmVerif/Model/Vlq.lean, the correspondence harness and extractor; i64 semantics of rustc. Values whose 13th digit overflows i64 are outside the standard and only compared model-vs-code.",
            "Lean 4 proof (induction) + regenerated constants + differential correspondence"),
    "C04": ("7/C04",
            "Kernel-checked theorems over the model of greatest_lower_bound (std's binary_search_by algorithm + walk-back) and lookup_token: for every position-ordered token list and every query, nothing is returned iff no token starts at or before the query, the returned token is the i-th token, lies at the greatest position not after the query and is the first of its position on an exact hit, the answer is one the declarative specification admits, and lookup cannot panic; SourceMap::new's sort yields an ordered permutation and leaves ordered input unchanged. Tied to the code by a differential run (all multisets of <= 4 positions on a 3x3 grid x 16 queries, random maps up to 60 tokens with ties, queries around every token and at u32::MAX; Token::idx observed through TokenIter::seek).",
            "Trusted: Lean kernel, the hand-written model lean/SmVerif/Model/Lookup.lean (std binary search mirrored literally), harness/driver; sort_unstable_by_key assumed to return a sorted permutation and to leave sorted input unchanged (tie order of unsorted input is not observable through the checks: ties are given pre-ordered). Ordering of maps produced by builder/rewrite/flatten/adjust is covered where those operations are modelled (they all end in SourceMap::new / an explicit sort).",
            "Lean 4 proof (bisection invariant, induction) + differential correspondence"),
    "C19": ("7/C19",
            "Kernel-checked theorems over the model of make_relative_path: for every base path and every target made of ordinary components (any depths, any shared prefix, both separators, repeated separators, absolute or relative), resolving the returned path against the base file's directory yields the target's components; the result is '.' exactly when the target is that directory; the common-prefix helper equals the longest-common-prefix length for two lists. Tied to the code by an exhaustive differential run over all pairs of 1..3(4)-component paths from a 3-name pool plus random deeper pairs.",
            "Trusted: Lean kernel, hand-written model lean/SmVerif/Model/Paths.lean, harness/driver; std str::split, stable sort_by_key and join as documented. Paths are compared as component lists.",
            "Lean 4 proof (list induction) + exhaustive small-scope differential correspondence"),
    "C06": ("7/C06",
            "Kernel-checked theorems over the model of decode_regular's token loop: whenever an independent reading of the mappings string (all segments located, read with the standard VLQ reader, indices accumulated as unbounded integers) finds one of the listed faults - foreign byte, cut-off value, value of more than 13 digits, 2/3/>5 fields, source or name running index outside its array in either direction - decoding returns an error (c06_fault_rejected, plus one text-level theorem per fault class); no successfully decoded token has an unresolvable index. Tied to the code by a differential run over single- and double-fault mutants of generated documents (incl. +-2^32 multiples, bytes >= 0x80 at every offset, empty arrays) and exhaustive short strings.",
            "Trusted: Lean kernel, models lean/SmVerif/Model/{Vlq,Mappings,V3Spec}.lean, harness/driver/extractor; serde_json hands the mappings string and array lengths to the decoder unchanged. Earlier faults may win: the theorems promise an error, not its kind. A 13-digit value that overflows i64 is outside the property (the reading reports `outside`).",
            "Lean 4 proof (simulation between decoder loops and a declarative reading) + differential correspondence"),
    "C07": ("7/C07",
            "Kernel-checked theorems: (a) for every position-ordered well-formed token list with any assignment of range flags, serialising mappings+rangeMappings and decoding again returns the deduplicated tokens in wire normal form, in particular exactly the same range flags (c01_mappings_roundtrip, c07_flags_roundtrip; unbounded tokens per line and lines); (b) the 6-bit bitfield codec is the identity on every index (c07_rmi_codec); (c) lookup on the token's own line reports the original column advanced by the distance (saturating), any other lookup the token's own column, and lookup never panics (c07_lookup_same_line/other, c04_lookup_safe). Tied to the code by a differential run: every subset of flags on lines of <= 6 tokens, long lines with flags at 0/15/16/17/31/32/last, duplicates before range tokens, several lines with gaps, lookups on/after/below the token.",
            "Trusted: Lean kernel, models lean/SmVerif/Model/{Mappings,Lookup,V3Spec}.lean, harness/driver; bitvec Lsb0 load/store_le on a little-endian target; tokens reach SourceMap::new ordered whenever positions repeat. Four defects found by this property (F3-F6) were repaired in /repo; their witnesses stay in the corpus.",
            "Lean 4 proof (lock-step induction over encoder and decoder) + exhaustive small-scope differential correspondence"),
    "C20": ("7/C20",
            "Kernel-checked theorems over the model of the indexed RAM bundle reader (IndexedRamBundle::parse, startup_code, get_module, the module iterator, is_ram_bundle_slice on top of scroll's Pread bounds rules): for every image that satisfies a layout predicate (header fields, startup code behind the table, every present module's bytes + NUL somewhere in the data area - any physical order, gaps allowed) parsing reports the written count and startup code, every present module without its NUL, nothing for empty slots, an index error past the table, and the iterator yields the present modules in id order (c20_*_layout); the model's own writer is an instance (c20_parse_serialize, c20_get_module, c20_past_table, c20_iter). For every byte string recognition holds iff 12 bytes with the regenerated magic lead, parsing succeeds iff recognised, every access returns a value or one of four refusals and every returned slice is a window of the buffer (c20_recognise, c20_parse_iff, c20_parse_refused, c20_total, c20_in_bounds). Tied to the code by a differential run: exhaustive small bundles in every physical order, truncation at every length, every header/table byte corrupted, fields at/around the buffer end and near 2^31/2^32, random bundles and bytes.",
            "Trusted: Lean kernel, model lean/SmVerif/Model/RamBundle.lean (scroll 0.10 bounds rules: BadOffset when offset >= len, TooBig when size > remaining; little-endian reads), harness/driver; RAM_BUNDLE_MAGIC regenerated from ram_bundle.rs on every run. Memory safety itself is Rust's (safe code + scroll); the theorems are about returned values. 64-bit usize. An empty startup code at the very end of the buffer is refused (outside the property: it demands non-empty startup code). Unbundle-to-filesystem and the file-RAM-bundle variant are not modelled.",
            "Lean 4 proof (layout predicate, list lemmas) + regenerated constant + exhaustive small-scope differential correspondence"),
    "C15": ("7/C15",
            "Kernel-checked theorems over the sequential model of SourceView (get_line with its processed_until/lines cache, line_count, lines(), get_line_slice): for every byte text and every finite sequence of requests issued before, get_line(i) returns the i-th piece of the text split at CRLF, LF or lone CR (nothing past the end) and never panics or hangs (c15_get_line, c15_inv, c15_line_starts), line_count is the number of pieces (c15_line_count), the iterator yields all pieces in order (c15_lines_iter), every request sequence completes (c15_no_panic), and for valid UTF-8 text get_line_slice(l, c, n) returns exactly the characters whose UTF-16 extent meets [c, c+n) - whole surrogate pairs at the end included - and nothing when the line has fewer than c+n units, for every column that is not strictly inside a surrogate pair, with no bound on c or n (c15_slice); c15_requests: a whole request sequence is answered by the stateless specification. Tied to the code by a differential run: all texts over {a, e-acute, astral, LF, CR} up to length 4 (7-8 thorough) x request orders (late line first, missing before present, count before/after, repeats) x all (line, col, span) triples incl. u32::MAX.",
            "Trusted: Lean kernel, models lean/SmVerif/Model/{SourceView,SourceViewSlice}.lean, harness/driver; std str::chars / len_utf8 / len_utf16 / str::get as modelled; 64-bit usize. A column strictly inside a surrogate pair: the property text does not settle whether the cut pair belongs to the slice (the code starts after it; c15_slice_midpair states exactly what it returns, c15_midpair_witness the difference to the inclusive reading); such cases are compared impl-vs-model only (op sv.corr) and never raise a spec alarm. Hypotheses visible in the theorems: fewer than 2^32 lines (u32 counters of line_count / Lines) - untestable (needs a 4 GiB text).",
            "Lean 4 proof (invariant over request sequences, UTF-8/UTF-16 decoding lemmas) + exhaustive small-scope differential correspondence"),
    "C10": ("7/C10",
            "Kernel-checked theorems over the model of SourceMap::adjust_mappings (create_ranges with its sort, the two-pointer sweep, the i32 displacement arithmetic with explicit overflow, the final sort) against a specification written from the property text (stretch = from a token to the next token or end of line; one token per pair of stretches with non-empty overlap, at the start of the overlap moved by the adjustment token's generated-minus-original displacement, carrying the original token's data; result ordered): c10_exact (for all inputs with coordinates < 2^30, duplicates included, the result is the position-sort of one token per overlapping (adjustment range, original range) pair), c10_sound, c10_complete_once, c10_eq_spec / c10_eq_spec_canonical / c10_eq_spec_exact (equal to the specification when no two tokens share a key on either side), c10_spec_no_truncation, c10_untouched (sources, names, contents, root, file, ignore list, debug id), c10_sorted (all inputs), c10_safe (no panic below 2^30). c10_dup_counterexample shows the distinct-keys hypothesis is necessary on both sides: that is the open finding F16. Tied to the code by a differential run: all pairs of multisets of <= 3 tokens on a 2x4 grid x 4 displacement patterns (thorough), random maps up to 30x30 tokens with duplicates on either side, adjustment in any order, multi-line displacement, coordinates around 2^30/2^31/2^32 (impl-vs-model only).",
            "Trusted: Lean kernel, model lean/SmVerif/Model/Adjust.lean, harness/driver; sort_unstable modelled as a stable sort (holds below 21 elements and for ordered input: longer lists with tied keys are handed over pre-ordered). KNOWN FINDING F16 (open, listed in known_findings.json by failure class): with a duplicated position on either side the code emits a token for the EMPTY stretch of every duplicate but the last when that position lies strictly inside the other side's stretch (and not when it coincides with its start) - the property allows one token per NON-empty overlap; the narrow class (duplicated key + implementation equal to the validated model + only extra tokens) is reported as KNOWN-FINDING, anything else is a violation. Not repaired: dropping empty ranges makes the crate's own test_adjust_mappings_injection fixtures fail. Outside the quantifier: for coordinates >= 2^31 the i32 casts overflow (panic with overflow checks) although the exact result is representable.",
            "Lean 4 proof (two-pointer sweep invariant, permutation with a declarative overlap specification) + exhaustive small-scope differential correspondence"),
    "C17": ("7/C17",
            "Kernel-checked theorems over the model of function-name resolution (RevTokenIter with its (line, UTF-16 column, byte offset) cache, get_javascript_token / strip_identifier, the take(128).peekable() pairing, lookup_token's start index), parametric in the identifier predicates (for every idStart / idContinue / isWhitespace): c17_cache_correct (for every position-ordered token list and every window whose tokens sit on character boundaries, the reverse iterator yields each token with exactly the text a from-scratch reading gives at its UTF-16 column - the cache is only an optimisation; BMP and astral characters), c17_resolve_eq_spec / c17_resolve_new_eq_spec (resolution = the declarative rule: among the at most 128 tokens walking back from the looked-up token, the first whose text is the given identifier and whose predecessor inside the window reads 'function'; nothing if the name is not an identifier), c17_lookup_index (the start token is the first at an exact position, else the last before), c17_identifier_chars, c17_identifier_text, c17_not_identifier_none, c17_textAt_suffix, and c17_safe / c17_safe_new: no text, map, position or name makes resolution panic or hang (the usize subtraction of the backward walk cannot underflow on an ordered map; witnesses show both hypotheses are necessary). The 128 is regenerated from sourceview.rs. Tied to the code by a differential run over generated minified programs (several functions per line/lines, non-ASCII and astral identifiers, ZWJ, names that are prefixes of one another, tokens on/before/after declarations and past end of line, windows at distance 123-131, exact and inexact lookups, non-identifier candidates).",
            "Trusted: Lean kernel, models lean/SmVerif/Model/{NameRes,NameResSpec,Lookup}.lean, harness/driver; unicode-id-start tables and char::is_whitespace are parameters of every theorem (for execution the character pool of each case is cross-checked against the crate in the harness: pool-mismatch otherwise). A token whose column lies inside a surrogate pair is outside the property (text is read at UTF-16 columns): such cases are compared impl-vs-model only.",
            "Lean 4 proof (cache invariant over the reverse walk, stream refinement of the peekable window) + regenerated constant + differential correspondence"),
}

PENDING_REASON = "not claimed yet: model/theorems for this property are still being built (see DESIGN.md section 7); no check is registered rather than registering an unsound one"

def main():
    props = [json.loads(l)["id"] for l in open(os.path.join(HERE, "properties.jsonl"))]
    checks = []
    for pid in props:
        if pid in CLAIMED:
            ref, text, note, tech = CLAIMED[pid]
            checks.append({
                "property_id": pid,
                "quick_cmd": "./check %s --tier quick" % pid,
                "thorough_cmd": "./check %s --tier thorough" % pid,
                "evidence_file": "/verif/evidence/%s.json" % pid,
                "replay_cmd_template": "./check %s --replay {path}" % pid,
                "engine": "lean4-proof+correspondence",
                "level_claimed": {"category": "proof", "text": text, "design_ref": "DESIGN.md section " + ref},
                "level_note": note,
                "technique": tech,
            })
    na = [{"property_id": p, "reason": NA.get(p, PENDING_REASON)} for p in props if p not in CLAIMED]
    m = {
        "version": 1,
        "setup_cmd": "./setup.sh",
        "hooks": {
            "guard": "sourcemap_verif",
            "enable": "RUSTFLAGS=--cfg sourcemap_verif (set in /verif/harness/.cargo/config.toml; the harness is a path-dependency build of /repo's working tree)",
            "baseline_off_cmd": "cd /repo && cargo test --workspace --no-fail-fast --offline",
            "source_commits": HOOK_COMMITS,
            "add_only": True,
        },
        "engines": [{
            "name": "lean4-proof+correspondence",
            "path": "/verif/check",
            "serves_properties": sorted(CLAIMED.keys()),
            "kind_free_text": "Lean 4 theorems over a hand-written executable model (lean/SmVerif), constants regenerated from the Rust source on every run, and a differential run of the compiled Lean driver against a Rust harness that calls the real crate in-process",
        }],
        "checks": checks,
        "not_applicable": na,
        "notes": "Defects repaired in /repo by `fix:` commits are listed in known_findings.json (status fixed); see DESIGN.md section 8.",
    }
    with open(os.path.join(HERE, "MANIFEST.json"), "w") as f:
        json.dump(m, f, indent=1)
    print("MANIFEST.json: %d claimed, %d not_applicable" % (len(checks), len(na)))

NA = {}
HOOK_COMMITS = []
if __name__ == "__main__":
    import subprocess
    try:
        out = subprocess.check_output(["git", "-C", "/repo", "log", "--format=%H %s"], text=True)
        HOOK_COMMITS = [l.split(" ")[0] for l in out.splitlines() if l.split(" ", 1)[1].startswith("verif hook")]
    except Exception:
        pass
    main()
