#!/usr/bin/env python3
"""prints the prompt for a round-8 seeded-mutation sub-agent (one change, files patchQ.diff/demoQ.rs; short round): only the property text and its worktree"""
import json, sys
pid = sys.argv[1]
for l in open('/verif/properties.jsonl'):
    p = json.loads(l)
    if p['id'] == pid:
        break
D = f"/tmp/mut/{pid}"
print(f"""You are testing how robust a Rust library's guarantees are.  The library is getsentry/rust-sourcemap (crate `sourcemap`); you have your own scratch git worktree of it at {D} (work only there; there is no network; `cargo build --offline` / `cargo test --offline` work, for the RAM-bundle code add `--features ram_bundle`; never touch /repo or /verif, never read /verif).

Here is a semantic property the library is supposed to satisfy:

  Title: {p['title']}
  Statement: {p['statement']}
  Quantified over: {p['quantifier']['text']}
  Relevant files: {', '.join(p['anchors']['files'])}

Your job: produce ONE realistic change to the library's source, called Q.  It is the kind of slip or "optimisation" a maintainer could plausibly make - an off-by-one, a wrong comparison, a narrower integer type, a dropped special case, a fast path that is subtly not equivalent, state carried over between iterations or calls, two sites that each look fine alone - and it BREAKS this property, while the crate still compiles and the ENTIRE existing test suite (`cd {D} && cargo test --offline --workspace`) still passes.
The breakage must need something specific to manifest - an unusual input, a particular size or value range, a multi-step sequence of operations, a particular interleaving, a rarely used clause of the statement - not something ordinary use would expose at once.  Avoid the most obvious spot (the central loop or the first function one would think of): go for the less travelled clauses of the statement, for glue code around the core (option handling, conversions between representations, wrappers that dispatch to the typed implementations, setters that must keep two tables in step, iterators and their edge conditions), and for breakages that only show after a SEQUENCE of public API calls.  Be inventive: the obvious one-line slips in the central functions have been tried many times already; look for a change whose demo needs at least three public API calls, or two maps, or a map that was itself produced by another operation (decoded, then modified through setters, then flattened / rewritten / adjusted / serialised).  This time prefer, in this order: (1) INTERACTIONS of two features that are each fine alone (range tokens x index maps, source root x rewrite or flatten, Hermes maps x index maps, ignore list x flatten, contents x duplicate source names, junk header x reader API, debug id x rewrite, clones x later mutation); (2) SIZE BOUNDARIES (a count, index, line or column reaching 2^8, 2^16 or 2^31; the 13th VLQ digit; more than 128 tokens; a table longer or shorter than its sibling table); (3) functions that are rarely the focus: constructors, Clone / Default / From impls, the from_reader variants, iterators and their seek / size behaviour, error paths that must stay errors.  Do not delete a whole feature or make a function panic unconditionally.

Deliver, inside {D}, for X = Q:
  1. {D}/patchX.diff  (`git diff -- src > patchX.diff` with only change X in the tree);
  2. {D}/demoX.rs : an integration test file (uses only the crate's public API; it will be copied to tests/mut_demo.rs to run) with one test that FAILS with change X and PASSES on the original code.  Verify both: apply only patch X, copy demoX.rs to tests/mut_demo.rs, run `cargo test --offline --test mut_demo` (must fail); `git apply -R patchX.diff`, run again (must pass).  NEVER use `git stash` (the stash is shared between worktrees and other people work in sibling worktrees);
  3. confirm `cargo test --offline --workspace` passes with change X applied and tests/mut_demo.rs absent.
Finish with the worktree's src/ unchanged (both patches reverted, `git status --short src` empty) and tests/mut_demo.rs removed.
You have about 12 minutes: pick quickly, keep the demo small.  Reply with: a one-paragraph description of the change, what exactly is needed for it to manifest, and the exact commands you ran with their outcomes.""")
