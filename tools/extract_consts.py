#!/usr/bin/env python3
"""Regenerate lean/SmVerif/Generated/Consts.lean from /repo's *current* source.

Every constant the Lean model depends on is re-read from the Rust source on
every run, so the `decide`-style obligations in Props/ are re-checked against
what the code says now.  Pattern based; when a pattern is not found the script
exits 3 and prints `MISSING <const>` lines (the runner turns that into a broken
obligation for the properties that use the constant).

The output file is rewritten only when its content changes (keeps lake's
incremental build quiet).
"""
import json, os, re, sys

REPO = os.environ.get("VERIF_REPO", "/repo")
OUT = os.path.join(os.path.dirname(os.path.abspath(__file__)), "..", "lean", "SmVerif", "Generated", "Consts.lean")

missing = []


def src(name):
    with open(os.path.join(REPO, "src", name), encoding="utf-8") as f:
        return f.read()


def rust_str(lit):
    """Decode the inside of a Rust (byte) string literal with simple escapes."""
    out = bytearray()
    i = 0
    while i < len(lit):
        c = lit[i]
        if c == "\\":
            n = lit[i + 1]
            if n == "n":
                out.append(10)
            elif n == "r":
                out.append(13)
            elif n == "t":
                out.append(9)
            elif n == "0":
                out.append(0)
            elif n == "\\":
                out.append(92)
            elif n == "'":
                out.append(39)
            elif n == '"':
                out.append(34)
            elif n == "x":
                out.append(int(lit[i + 2 : i + 4], 16))
                i += 2
            else:
                raise ValueError("escape " + n)
            i += 2
        else:
            out += c.encode("utf-8")
            i += 1
    return bytes(out)


def find(name, text, pattern, flags=re.S, group=1, all_=False):
    if all_:
        r = re.findall(pattern, text, flags)
        if not r:
            missing.append(name)
        return r
    m = re.search(pattern, text, flags)
    if not m:
        missing.append(name)
        return None
    return m.group(group)


def lean_bytes(b):
    return "[" + ", ".join(str(x) for x in b) + "]"


def main():
    vlq = src("vlq.rs")
    dec = src("decoder.rs")
    det = src("detector.rs")
    typ = src("types.rs")
    sv = src("sourceview.rs")
    jt = src("jsontypes.rs")
    try:
        ram = src("ram_bundle.rs")
    except OSError:
        ram = ""

    chars = find("B64_CHARS", vlq, r'const\s+B64_CHARS\s*:\s*&\[u8\]\s*=\s*b"([^"]*)"')
    table = find("B64", vlq, r"const\s+B64\s*:\s*\[i8;\s*256\]\s*=\s*\[(.*?)\];")
    table_vals = None
    if table is not None:
        table_vals = []
        for ent in table.split(","):
            ent = ent.strip()
            if not ent:
                continue
            if not re.fullmatch(r"[-+ 0-9]+", ent):
                missing.append("B64(entry %r)" % ent)
                break
            table_vals.append(eval(ent))  # digits, +, - and spaces only (checked above)
        if len(table_vals) != 256:
            missing.append("B64(len=%d)" % len(table_vals))
            table_vals = None

    # junk header bytes: body of is_junk_json
    junk_body = find("is_junk_json", dec, r"fn\s+is_junk_json\s*\(\s*byte\s*:\s*u8\s*\)\s*->\s*bool\s*\{(.*?)\n\}")
    junk = None
    if junk_body is not None:
        lits = re.findall(r"b'((?:\\.|[^'\\])+)'", junk_body)
        junk = sorted(rust_str(x)[0] for x in lits)
        if not junk:
            missing.append("is_junk_json(bytes)")

    # data url preambles accepted by decode_data_url: every DATA_PREAMBLE* const that the function mentions
    preamble_consts = dict(re.findall(r'const\s+(DATA_PREAMBLE\w*)\s*:\s*&str\s*=\s*"([^"]*)"', dec))
    ddu = find("decode_data_url", dec, r"pub fn decode_data_url\b(.*?)\n\}")
    accepted = []
    if ddu is not None:
        for k, v in preamble_consts.items():
            if re.search(r"\b%s\b" % k, ddu):
                accepted.append(rust_str(v))
        if not accepted:
            missing.append("DATA_PREAMBLE(uses)")
    tdu = find("to_data_url", typ, r"pub fn to_data_url\b.*?format!\(\s*\"([^\"{]*)\{\}\"")
    produced = rust_str(tdu) if tdu is not None else None

    # sourceMappingURL prefixes + the skip literal
    loc = find("locate_sourcemap_reference", det, r"pub fn locate_sourcemap_reference<.*?\n\}", group=0)
    ref_prefixes, ref_skip, legacy_marker = None, None, None
    if loc is not None:
        ref_prefixes = [rust_str(x) for x in re.findall(r'line\.starts_with\("(//[#@] sourceMappingURL=)"\)', loc)]
        if len(ref_prefixes) != 2:
            missing.append("sourceMappingURL prefixes")
            ref_prefixes = None
        m = re.search(r"as_bytes\(\)\[(\d+)\.\.\]", loc)
        if m:
            ref_skip = int(m.group(1))
        else:
            missing.append("sourceMappingURL skip literal")
        m = re.search(r'if\s+line\.starts_with\("(//@?)"\)\s*\{\s*return\s+Ok\(Some\(SourceMapRef::LegacyRef', loc)
        if m:
            legacy_marker = rust_str(m.group(1))
        else:
            missing.append("legacy marker")

    # prefix_source absolute prefixes
    ps = find("prefix_source", typ, r"fn prefix_source\b(.*?)\n    \}")
    abs_prefixes = None
    if ps is not None:
        abs_prefixes = [rust_str(x) for x in re.findall(r"source\.starts_with\(['\"]([^'\"]+)['\"]\)", ps)]
        if not abs_prefixes:
            missing.append("prefix_source(prefixes)")

    window = find("take(128)", sv, r"rev_token_iter\(token\)\.take\((\d+)\)")
    magic = find("RAM_BUNDLE_MAGIC", ram, r"pub const RAM_BUNDLE_MAGIC\s*:\s*u32\s*=\s*(0x[0-9A-Fa-f_]+|\d+)\s*;") if ram else None

    # serde table of RawSourceMap: (json key, skip_serializing_if = Option::is_none ?)
    rsm = find("RawSourceMap", jt, r"pub struct RawSourceMap\s*\{(.*?)\n\}")
    serde_fields = None
    if rsm is not None:
        serde_fields = []
        attrs = ""
        for line in rsm.splitlines():
            s = line.strip()
            if s.startswith("#["):
                attrs += s
            elif s.startswith("//") or not s:
                continue
            else:
                m = re.match(r"pub(?:\(crate\))?\s+(\w+)\s*:", s)
                if m:
                    field = m.group(1)
                    rn = re.search(r'rename\s*=\s*"([^"]+)"', attrs)
                    key = rn.group(1) if rn else field
                    skip = bool(re.search(r'skip_serializing_if\s*=\s*"Option::is_none"', attrs))
                    serde_fields.append((field, key, skip))
                attrs = ""
        if len(serde_fields) < 5:
            missing.append("RawSourceMap(fields)")

    # (C01-C03) serde table of RawSection (the entries of `sections`), and the literals the encoder /
    # decoder use: `version: Some(N)` in every as_raw_sourcemap, the "<invalid>" stand-in for a non-string `file`
    enc = src("encoder.rs")
    rsec = find("RawSection", jt, r"pub struct RawSection\s*\{(.*?)\n\}")
    section_fields = None
    if rsec is not None:
        section_fields = []
        attrs = ""
        for line in rsec.splitlines():
            s = line.strip()
            if s.startswith("#["):
                attrs += s
            elif s.startswith("//") or not s:
                continue
            else:
                m = re.match(r"pub(?:\(crate\))?\s+(\w+)\s*:", s)
                if m:
                    field = m.group(1)
                    rn = re.search(r'rename\s*=\s*"([^"]+)"', attrs)
                    key = rn.group(1) if rn else field
                    skip = bool(re.search(r'skip_serializing_if\s*=\s*"Option::is_none"', attrs))
                    section_fields.append((field, key, skip))
                attrs = ""
        if len(section_fields) < 2:
            missing.append("RawSection(fields)")
    enc_versions = [int(x) for x in find("encoder version", enc, r"version\s*:\s*Some\((\d+)\)", all_=True)]
    invalid_lits = find("file <invalid>", dec, r'_\s*=>\s*"([^"]*)"\.into\(\)', all_=True)
    invalid_lits = [rust_str(x) for x in invalid_lits if x]
    if not invalid_lits:
        missing.append("file <invalid> literal")

    # C18: serde view of MinimalRawSourceMap (what is_sourcemap parses): (rust field, JSON key)
    mrsm = find("MinimalRawSourceMap", jt, r"pub struct MinimalRawSourceMap\s*\{(.*?)\n\}")
    minimal_fields = None
    if mrsm is not None:
        minimal_fields = []
        attrs = ""
        for line in mrsm.splitlines():
            s = line.strip()
            if s.startswith("#["):
                attrs += s
            elif s.startswith("//") or not s:
                continue
            else:
                m = re.match(r"pub(?:\(crate\))?\s+(\w+)\s*:", s)
                if m:
                    rn = re.search(r'rename\s*=\s*"([^"]+)"', attrs)
                    minimal_fields.append((m.group(1), rn.group(1) if rn else m.group(1)))
                attrs = ""
        if len(minimal_fields) < 3:
            missing.append("MinimalRawSourceMap(fields)")

    # constants whose pattern no longer matches keep their last extracted value (tools/consts_cache.json, refreshed by
    # every complete extraction), so that one rewritten function does not stop the others from being regenerated; the
    # runner reports each MISSING constant as a lost tie (NOTE + widened search), not as a broken proof obligation
    cache_path = os.path.join(os.path.dirname(os.path.abspath(__file__)), "consts_cache.json")
    names = ["chars", "table_vals", "junk", "accepted", "produced", "ref_prefixes", "ref_skip", "legacy_marker", "abs_prefixes",
             "window", "magic", "serde_fields", "section_fields", "enc_versions", "invalid_lits", "minimal_fields"]
    loc_ = locals()
    cur = {n: loc_.get(n) for n in names}
    def enc_(v):
        if isinstance(v, (bytes, bytearray)):
            return {"__b": list(v)}
        if isinstance(v, (list, tuple)):
            return [enc_(x) for x in v]
        return v
    def dec_(v):
        if isinstance(v, dict) and "__b" in v:
            return bytes(v["__b"])
        if isinstance(v, list):
            return [dec_(x) for x in v]
        return v
    rc = 0
    if missing:
        for m_ in missing:
            print("MISSING", m_)
        rc = 3
        try:
            cached = {k: dec_(v) for k, v in json.load(open(cache_path)).items()}
        except Exception:
            return 3
        def bad(n, v):
            if v is None:
                return True
            if isinstance(v, (list, tuple, bytes, str)) and len(v) == 0 and n not in ("enc_versions",):
                return True
            if n == "table_vals" and len(v) != 256:
                return True
            if n in ("serde_fields", "section_fields", "minimal_fields") and len(v) < 3:
                return True
            if n == "ref_prefixes" and len(v) != 2:
                return True
            if n == "abs_prefixes" and len(v) < 1:
                return True
            return False
        for n in names:
            if bad(n, cur[n]) and n in cached:
                cur[n] = cached[n]
        if any(bad(n, cur[n]) for n in names if n != "magic"):
            return 3
        # tuples come back as lists
        for n in ("serde_fields", "section_fields", "minimal_fields"):
            cur[n] = [tuple(x) for x in cur[n]]
    else:
        try:
            txt = json.dumps({n: enc_(cur[n]) for n in names}, indent=0, sort_keys=True)
            if not os.path.exists(cache_path) or open(cache_path).read() != txt:
                open(cache_path, "w").write(txt)
        except Exception:
            pass
    (chars, table_vals, junk, accepted, produced, ref_prefixes, ref_skip, legacy_marker, abs_prefixes, window, magic,
     serde_fields, section_fields, enc_versions, invalid_lits, minimal_fields) = [cur[n] for n in names]

    L = []
    L.append("-- GENERATED by tools/extract_consts.py from /repo/src on every run.  Do not edit.")
    L.append("namespace SmVerif.Consts")
    L.append("")
    L.append("/-- `B64_CHARS` (vlq.rs): the 64 alphabet bytes in digit order. -/")
    L.append("def b64Chars : List Nat := " + lean_bytes(rust_str(chars)))
    L.append("/-- `B64` (vlq.rs): the 256-entry reverse table, -1 for bytes outside the alphabet. -/")
    L.append("def b64Table : List Int := [" + ", ".join(str(x) for x in table_vals) + "]")
    L.append("/-- bytes for which `is_junk_json` (decoder.rs) is true, sorted. -/")
    L.append("def junkBytes : List Nat := " + lean_bytes(junk))
    L.append("/-- preambles accepted by `decode_data_url` (decoder.rs). -/")
    L.append("def dataUrlAccepted : List (List Nat) := [" + ", ".join(lean_bytes(x) for x in accepted) + "]")
    L.append("/-- prefix written by `SourceMap::to_data_url` (types.rs). -/")
    L.append("def dataUrlProduced : List Nat := " + lean_bytes(produced))
    L.append("/-- the two line prefixes tested by `locate_sourcemap_reference` (detector.rs), in source order. -/")
    L.append("def refPrefixes : List (List Nat) := [" + ", ".join(lean_bytes(x) for x in ref_prefixes) + "]")
    L.append("/-- the literal number of bytes skipped before the URL. -/")
    L.append("def refSkip : Nat := %d" % ref_skip)
    L.append("/-- prefix that marks a reference as legacy. -/")
    L.append("def refLegacyMarker : List Nat := " + lean_bytes(legacy_marker))
    L.append("/-- `prefix_source` (types.rs): a source starting with one of these is not joined to the root. -/")
    L.append("def absPrefixes : List (List Nat) := [" + ", ".join(lean_bytes(x) for x in abs_prefixes) + "]")
    L.append("/-- `take(N)` window of `get_original_function_name` (sourceview.rs). -/")
    L.append("def nameWindow : Nat := %s" % window)
    L.append("/-- `RAM_BUNDLE_MAGIC` (ram_bundle.rs). -/")
    L.append("def ramMagic : Nat := %d" % (int(magic.replace("_", ""), 0) if magic else 0))
    L.append("/-- serde view of `RawSourceMap` (jsontypes.rs): (rust field, JSON key as bytes, skipped when None). -/")
    L.append("def serdeFields : List (String × List Nat × Bool) := [")
    L.append(",\n".join('  ("%s", %s, %s)' % (f, lean_bytes(k.encode()), "true" if s else "false") for f, k, s in serde_fields))
    L.append("]")
    L.append("/-- serde view of `RawSection` (jsontypes.rs): (rust field, JSON key as bytes, skipped when None). -/")
    L.append("def serdeSectionFields : List (String × List Nat × Bool) := [")
    L.append(",\n".join('  ("%s", %s, %s)' % (f, lean_bytes(k.encode()), "true" if s else "false") for f, k, s in section_fields))
    L.append("]")
    L.append("/-- the `version: Some(N)` literals of the `as_raw_sourcemap` impls (encoder.rs), in source order (regular, index). -/")
    L.append("def encoderVersions : List Nat := [" + ", ".join(str(x) for x in enc_versions) + "]")
    L.append("/-- stand-ins the decoder uses for a `file` value that is not a string (decoder.rs), in source order (regular, index). -/")
    L.append("def invalidFile : List (List Nat) := [" + ", ".join(lean_bytes(x) for x in invalid_lits) + "]")
    L.append("/-- C18: `serdeFields` with the rust field name as bytes: (rust field, JSON key, skipped when None). -/")
    L.append("def rawFieldsB : List (List Nat × List Nat × Bool) := [")
    L.append(",\n".join('  (%s, %s, %s)' % (lean_bytes(f.encode()), lean_bytes(k.encode()), "true" if s else "false") for f, k, s in serde_fields))
    L.append("]")
    L.append("/-- C18: serde view of `MinimalRawSourceMap` (jsontypes.rs): (rust field as bytes, JSON key as bytes). -/")
    L.append("def minimalFields : List (List Nat × List Nat) := [")
    L.append(",\n".join('  (%s, %s)' % (lean_bytes(f.encode()), lean_bytes(k.encode())) for f, k in minimal_fields))
    L.append("]")
    L.append("")
    L.append("end SmVerif.Consts")
    text = "\n".join(L) + "\n"
    out = os.path.normpath(OUT)
    os.makedirs(os.path.dirname(out), exist_ok=True)
    old = None
    if os.path.exists(out):
        with open(out) as f:
            old = f.read()
    if old != text:
        with open(out, "w") as f:
            f.write(text)
        print("UPDATED", out)
    else:
        print("UNCHANGED", out)
    return rc


if __name__ == "__main__":
    sys.exit(main())
