#!/bin/sh
# evaluate every stored seeded change on /repo itself (apply, run the check(s) of the property it breaks, undo)
cd "$(dirname "$0")/.."
for d in seeded/*/; do
  id=$(basename $d)
  prop=$(python3 -c "import json;print(json.load(open('$d/meta.json'))['breaks_property'])")
  extra=""
  case $id in C01-vlq*) extra=",C11,C02";; C02-vlq*) extra=",C06,C11";; C03-encode*) extra=",C07,C01";; esac
  [ -n "$ONLY" ] && case " $ONLY " in *" $id "*) ;; *) continue;; esac
  echo "=== $id ($prop$extra)"
  python3 tools/seed_eval.py $id x $prop --skip-confirm --no-restore --checks $prop$extra 2>&1 | grep -E "^check|caught_by|Error|assert"
done
git -C /repo status --short | head -3
