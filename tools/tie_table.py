"""Translation tie: which kernel-checked `generated code = model` theorems serve which property.

UNITS   generated Lean module -> the Rust functions it is regenerated from (by tools/rs2lean, every run)
TIE     property -> list of (tie module, theorem, generated unit it speaks about)

A theorem listed here says: the Lean definition that rs2lean produces from the CURRENT Rust source of that function
equals the hand-written model function (for all inputs).  When the translator cannot handle the current source, or the
theorem no longer checks against the regenerated definition, the tie is LOST for that function: the check says so in a
NOTE and in the evidence, widens the differential search to the thorough generators, and decides on the
correspondence alone (exactly the level every function outside this table has).  A lost tie is never by itself an alarm.
"""
TIE_THEOREMS = {
    # module: {theorem: unit}
}

def _add(module, unit, names):
    TIE_THEOREMS.setdefault(module, {})
    for n in names:
        TIE_THEOREMS[module][n] = unit

_add("SmVerif.Tie.Vlq", "RsVlq", [
    "SmVerif.Tie.Vlq.tie_b64_table", "SmVerif.Tie.Vlq.tie_b64_chars",
    "SmVerif.Tie.Vlq.tie_parse_vlq_segment_into", "SmVerif.Tie.Vlq.tie_parse_vlq_segment",
    "SmVerif.Tie.Vlq.tie_encode_vlq", "SmVerif.Tie.Vlq.tie_encode_vlq_diverge", "SmVerif.Tie.Vlq.tie_encode_vlq_panic",
    "SmVerif.Tie.Vlq.tie_encode_vlq_any", "SmVerif.Tie.Vlq.tie_generate_vlq_segment",
    "SmVerif.Tie.Vlq.tie_generate_vlq_segment_diverge"])
_add("SmVerif.Tie.Vlq", "RsEncoder", [
    "SmVerif.Tie.Vlq.tie_encode_vlq_diff", "SmVerif.Tie.Vlq.tie_encode_vlq_diff_ok", "SmVerif.Tie.Vlq.tie_encode_vlq_diff_safe"])
_add("SmVerif.Tie.Header", "RsDecoder", [
    "SmVerif.Tie.tie_is_junk_json", "SmVerif.Tie.tie_strip_junk_header", "SmVerif.Tie.strip_junk_header_no_panic"])
_add("SmVerif.Tie.Small", "RsEncoder", [
    "SmVerif.Tie.tie_encode_byte", "SmVerif.Tie.tie_encode_byte_panics", "SmVerif.Tie.encode_byte_ok_iff"])
_add("SmVerif.Tie.Small", "RsUtils", ["SmVerif.Tie.tie_is_abs_path", "SmVerif.Tie.is_abs_path_total"])

# which tie modules speak about code a property's theorems depend on
PROP_MODULES = {
    "C01": ["SmVerif.Tie.Vlq"], "C02": ["SmVerif.Tie.Vlq"], "C03": ["SmVerif.Tie.Vlq"],
    "C05": ["SmVerif.Tie.Vlq", "SmVerif.Tie.Header"], "C06": ["SmVerif.Tie.Vlq"],
    "C07": ["SmVerif.Tie.Vlq", "SmVerif.Tie.Small"], "C11": ["SmVerif.Tie.Vlq"],
    "C12": ["SmVerif.Tie.Header"], "C14": ["SmVerif.Tie.Vlq"], "C19": ["SmVerif.Tie.Small"],
}

def tie_for(prop):
    """-> list of (module, theorem, unit)"""
    out = []
    for m in PROP_MODULES.get(prop, []):
        for t, u in TIE_THEOREMS.get(m, {}).items():
            out.append((m, t, u))
    return out
