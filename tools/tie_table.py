"""Translation tie: which kernel-checked `generated code = model` theorems serve which property.

UNITS   generated Lean module -> the Rust functions it is regenerated from (by tools/rs2lean, every run)
TIE     property -> list of (tie module, theorem, generated unit it speaks about)

A theorem listed here says: the Lean definition that rs2lean produces from the CURRENT Rust source of that function
equals the hand-written model function (for all inputs).  When the translator cannot handle the current source, or the
theorem no longer checks against the regenerated definition, the tie is LOST for that function: the check says so in a
NOTE and in the evidence, widens the differential search to the thorough generators, and decides on the
correspondence alone (exactly the level every function outside this table has).  A lost tie is never by itself an alarm.
"""
TIE_THEOREMS = {
    # module: {theorem: unit}
}

def _add(module, unit, names):
    TIE_THEOREMS.setdefault(module, {})
    for n in names:
        TIE_THEOREMS[module][n] = unit

_add("SmVerif.Tie.Vlq", "RsVlq", [
    "SmVerif.Tie.Vlq.tie_b64_table", "SmVerif.Tie.Vlq.tie_b64_chars",
    "SmVerif.Tie.Vlq.tie_parse_vlq_segment_into", "SmVerif.Tie.Vlq.tie_parse_vlq_segment",
    "SmVerif.Tie.Vlq.tie_encode_vlq", "SmVerif.Tie.Vlq.tie_encode_vlq_diverge", "SmVerif.Tie.Vlq.tie_encode_vlq_panic",
    "SmVerif.Tie.Vlq.tie_encode_vlq_any", "SmVerif.Tie.Vlq.tie_generate_vlq_segment",
    "SmVerif.Tie.Vlq.tie_generate_vlq_segment_diverge"])
_add("SmVerif.Tie.Vlq", "RsEncoder", [
    "SmVerif.Tie.Vlq.tie_encode_vlq_diff", "SmVerif.Tie.Vlq.tie_encode_vlq_diff_ok", "SmVerif.Tie.Vlq.tie_encode_vlq_diff_safe"])
_add("SmVerif.Tie.Header", "RsDecoder", [
    "SmVerif.Tie.tie_is_junk_json", "SmVerif.Tie.tie_strip_junk_header", "SmVerif.Tie.strip_junk_header_no_panic"])
_add("SmVerif.Tie.Small", "RsEncoder", [
    "SmVerif.Tie.tie_encode_byte", "SmVerif.Tie.tie_encode_byte_panics", "SmVerif.Tie.encode_byte_ok_iff"])
_add("SmVerif.Tie.Small", "RsUtils", ["SmVerif.Tie.tie_is_abs_path", "SmVerif.Tie.is_abs_path_total"])

_add("SmVerif.Tie.Lookup", "RsUtils", ["SmVerif.Tie.tie_bsearch", "SmVerif.Tie.tie_glb", "SmVerif.Tie.tie_glb_none_iff"])
_add("SmVerif.Tie.Lookup", "RsTypes", [
    "SmVerif.Tie.tie_token_getters", "SmVerif.Tie.tie_lookup_token", "SmVerif.Tie.tie_lookup_token_some",
    "SmVerif.Tie.tie_lookup_token_none", "SmVerif.Tie.tie_lookup_token_error", "SmVerif.Tie.lookup_token_total"])
_add("SmVerif.Tie.Paths", "RsUtils", [
    "SmVerif.Tie.tie_splitAny", "SmVerif.Tie.tie_join", "SmVerif.Tie.tie_comps", "SmVerif.Tie.tie_sort_two",
    "SmVerif.Tie.tie_common_prefix_two", "SmVerif.Tie.tie_make_relative_path", "SmVerif.Tie.make_relative_path_total",
    "SmVerif.Tie.tie_c19_resolves", "SmVerif.Tie.tie_c19_dot_iff", "SmVerif.Tie.tie_c19_shape", "SmVerif.Tie.tie_c19_nonempty", "SmVerif.Tie.tie_c19_descend"])
_add("SmVerif.Tie.Hermes", "RsHermes", [
    "SmVerif.Tie.tie_partition_point", "SmVerif.Tie.tie_partition_point_map", "SmVerif.Tie.tie_get_scope_for_token",
    "SmVerif.Tie.get_scope_for_token_total", "SmVerif.Tie.tie_get_scope_for_token_iter"])
_add("SmVerif.Tie.Decode", "RsDecodeTokens", [
    "SmVerif.Tie.Decode.tie_splitOn", "SmVerif.Tie.Decode.tie_decode_rmi", "SmVerif.Tie.Decode.tie_decode_rmi_panics",
    "SmVerif.Tie.Decode.tie_decode_regular_tokens", "SmVerif.Tie.Decode.tie_decode_regular_tokens_4GiB",
    "SmVerif.Tie.Decode.lines_hypothesis_needed"])

_add("SmVerif.Tie.Serialize", "RsSerialize", [
    "SmVerif.Tie.tie_serialize_mappings", "SmVerif.Tie.tie_serialize_mappings_sortedByPos", "SmVerif.Tie.serialize_mappings_ok",
    "SmVerif.Tie.tie_serialize_mappings_any", "SmVerif.Tie.tie_serialize_mappings_unsorted", "SmVerif.Tie.tie_serialize_mappings_diverge",
    "SmVerif.Tie.tie_encode_rmi", "SmVerif.Tie.encode_rmi_nil",
    "SmVerif.Tie.tie_serialize_range_mappings", "SmVerif.Tie.serialize_range_mappings_ok", "SmVerif.Tie.tie_serialize_range_mappings_any",
    "SmVerif.Tie.tie_serialize_range_mappings_unsorted", "SmVerif.Tie.tie_serialize_range_mappings_diverge"])
_T = "SmVerif.Tie."
_add("SmVerif.Tie.RamBundle", "RsRamBundle", [_T + n for n in
    "tie_ram_magic tie_le32 tie_pread_u32s tie_pread_bytes tie_ram_parse parse_ok_bounds tie_ram_module_count tie_ram_startup_code tie_ram_get_module tie_ram_get_module_parsed tie_is_ram_bundle_slice_any gen_c20_recognise gen_c20_parse_iff gen_c20_parse_refused gen_c20_total gen_c20_in_bounds gen_c20_parse_layout gen_c20_get_module_layout gen_c20_past_table_layout gen_c20_parse_serialize gen_c20_get_module gen_c20_past_table".split()])
_add("SmVerif.Tie.SourceView", "RsSourceView", [_T + "SourceView." + n for n in
    "tie_len_utf8 tie_len_utf16 tie_chars tie_is_char_boundary tie_str_get tie_get_line_slice tie_get_line_slice_skipped tie_get_line_slice_bytes tie_get_line_slice_diverge tie_get_line_slice_no_panic gen_c15_slice gen_c15_slice_midpair gen_c15_slice_view gen_c15_slice_midpair_view".split()])
_add("SmVerif.Tie.Detect", "RsDetector", [_T + "Detect." + n for n in
    "tie_lines_aux tie_lines_total tie_lines tie_trim locate_total tie_locate_sourcemap_reference locate_error_is_io locate_invalid_utf8 valid_hypothesis_needed locate_before_invalid gen_c18_locate gen_c18_first_line gen_c18_none_iff gen_c18_legacy_iff gen_c18_embedded".split()])
_add("SmVerif.Tie.Detect", "RsDetectCommon", [_T + "Detect." + n for n in "tie_is_sourcemap_common gen_c18_detects_serialised gen_c18_detects_serialised'".split()])
_add("SmVerif.Tie.Prefix", "RsPrefix", [_T + "Prefix.tie_prefix_source", _T + "Prefix.prefix_source_total"])
_add("SmVerif.Tie.Prefix", "RsSourceMap", [_T + "Prefix.tie_prefix_source_types", _T + "Prefix.prefix_source_units_agree"])
_add("SmVerif.Tie.Builder", "RsBuilder", [_T + n for n in
    "tie_new tie_set_debug_id tie_set_file tie_get_file tie_set_source_root tie_get_source_root tie_add_to_ignore_list".split()])
_add("SmVerif.Tie.Builder2", "RsSourceMap", [_T + n for n in
    "tie_sm_get_file tie_sm_get_source tie_sm_get_source_contents tie_sm_get_name tie_sm_add_to_ignore_list tie_sm_set_debug_id tie_sm_set_source_root sort_toTok tie_sm_new tie_token_get_source tie_token_get_name".split()])
_add("SmVerif.Tie.Builder2", "RsBuilder", [_T + n for n in
    "tie_add_token_gen tie_add_token add_token_offset tie_strip_loop2 tie_strip_prefixes strip_prefixes_needs_utf8 tie_into_sourcemap tie_run_into_sourcemap".split()])
_add("SmVerif.Tie.Flatten", "RsFlatten", [_T + n for n in
    "tie_flatten_token tie_flatten_token_rel tie_flatten_toks_along tie_flatten_tokens tie_flatten_tokens_error gen_c08_flatten_col_only_first_line gen_c08_flatten_line_overflow gen_c08_flatten_col_overflow gen_c08_flatten_token_pos".split()])
_add("SmVerif.Tie.Rewrite", "RsRewrite", [_T + n for n in
    "tie_rewrite_token tie_rewrite_token_rel tie_rewrite_toks_along tie_rewrite_tokens tie_rewrite_tokens_error gen_c09_no_names gen_c09_no_names_token gen_c09_contents_only_if_asked gen_c09_contents_first_time".split()])
_add("SmVerif.Tie.Rewrite2", "RsRewrite", [_T + n for n in
    "tie_gen_rewrite_with_mapping_along tie_gen_rewrite_along tie_gen_rewrite_with_mapping tie_gen_rewrite tie_gen_rewrite_noprefix tie_gen_rewrite_opts gen_rewrite_model gen_c09_whole_safe gen_c09_whole_sorted gen_c09_whole_tokens gen_c09_whole_token_count gen_c09_whole_token_at gen_c09_whole_sources gen_c09_whole_names gen_c09_whole_no_unreferenced gen_c09_whole_no_dup gen_c09_whole_contents gen_c09_whole_contents_dropped gen_c09_whole_file_debugid gen_c09_whole_root_ignore_dropped gen_c09_whole_mapping".split()])
_add("SmVerif.Tie.Flatten2", "RsFlatten", [_T + n for n in
    "secsSmallAlong_of_final secsSmallAlong_of_count tie_flatten_tokens_eq tie_gen_secs tie_gen_flatten_eq gen_flatten_model tie_gen_flatten tie_gen_flatten_error tie_gen_flatten_whole gen_c08_whole_tokens gen_c08_whole_tokens_wf gen_c08_whole_contents gen_c08_whole_ignore gen_c08_whole_sources gen_c08_whole_file gen_c08_whole_ok_iff gen_c08_whole_safe gen_c08_whole_agree".split()])
_add("SmVerif.Tie.HermesDecode", "RsHermesDecode", [_T + "HermesDecode." + n for n in
    "loop2_cons_err loop2_cons_ok tie_loop2 loop2_error_panic loop2_total tie_loop1 loop1_error_panic loop1_total tie_decode_function_map decode_function_map_nums_irrel decode_function_map_eq bytes_needed tie_decode_sources decodeAll_eq gen_c14_decode_eq_metro gen_c14_decode_all_eq_metro gen_c14_decode_unreadable gen_c14_decode_unparsable gen_c14_decode_bad_map_local gen_c14_decode_panic_iff gen_c14_decode_no_overflow gen_c14_decode_safe gen_c14_decode_all_safe".split()])
_add("SmVerif.Tie.GetLine", "RsGetLine", [_T + "GetLine." + n for n in
    "tie_scan_step loop1_done loop1_panic tie_loop1_above tie_loop1 tie_loop1_diverge tie_loop1_same_fuel loop1_fuel_witness loop1_enough get_line_seq_eq tie_get_line_seq tie_get_line_seq_fuel genRun_eq_runReqs gen_c15_inv gen_c15_get_line gen_c15_no_panic gen_c15_run gen_c16_loop_step gen_c16_loop_panic".split()])
_add("SmVerif.Tie.RevIter", "RsRevIter", [_T + "RevIter." + n for n in
    "tie_take_bytes tie_drop_bytes loop1_eq loop2_eq loop3_eq loop4_eq tie_loop1 tie_loop1_str tie_loop2 tie_rev_token_iter_next tie_rev_token_iter_next_none tie_rev_token_iter_next_ok tie_rev_token_iter_next_error tie_rev_token_iter_next_str nextTok_eq_get_token revNext_shape revNext_cache_inv lines_are_enc sentinel_discrepancy tie_rev_collect gen_c17_rev_cache_correct gen_c17_rev_no_panic gen_c17_rev_underflow_unsorted".split()])
_add("SmVerif.Tie.Builder", "RsBuilder", [_T + n for n in
    "tie_add_source_with_id tie_add_source tie_add_name tie_add_with_id tie_add tie_add_raw tie_set_source tie_set_source_contents tie_get_source tie_get_source_contents tie_has_source_contents tie_take_mapping tie_step tie_run_along tie_run tie_run_error tie_run_gen add_source_with_id_truncation gen_c13_abs_add_source gen_c13_abs_add_name gen_c13_inv_reachable gen_c13_builder_refines gen_c13_token_resolves".split()])
_add("SmVerif.Tie.JsIdent", "RsJsIdent", [_T + "JsIdent." + n for n in
    "tie_is_valid_start tie_is_valid_continue str_is_enc tie_chars_enc tie_char_indices tie_str_slice_prefix tie_strip_identifier strip_identifier_total tie_is_valid_javascript_identifier tie_first_word tie_get_javascript_token tie_strip_identifier_str tie_is_valid_javascript_identifier_str tie_get_javascript_token_str js_identifiers_total gen_c17_identifier_chars gen_is_valid_javascript_identifier gen_c17_not_identifier_none gen_c17_identifier_text".split()])
_add("SmVerif.Tie.Reader", "RsReader", [_T + n for n in
    "tie_reader_is_junk_json tie_loop2 tie_loop2_chunk tie_loop1 tie_strip_head_read strip_head_read_zero tie_reader_read tie_reader_read_ok tie_reader_read_error tie_consume tie_reader_output gen_c12_chunking_irrelevant gen_c12_no_false_eof gen_c12_reader_eq_slice".split()])
_add("SmVerif.Tie.Index", "RsIndex", [_T + "Index." + n for n in
    "tie_index_lookup_token glb_section_some index_lookup_token_cases index_lookup_token_error gLookup_regular gLookup_hermes gLookup_index_gen gLookup_index gLookup_fuel_succ gLookup_fuel gLookup_total lookup_token_sm tie_leaf tie_gLookup tie_gLookup_index dmapLookup_eq_raw lookupAt_eq_raw rawLookup_index tie_leaf_raw tie_gLookup_raw gen_c08_no_underflow gen_c08_total_of_total gen_c08_lookup_total gen_c08_model_no_underflow gen_c08_section_choice gen_c08_unresolved_none gen_c08_section_choice_closed gen_c08_agree".split()])
_add("SmVerif.Tie.Index", "RsDecodedMap", [_T + "Index." + n for n in
    "gen_c04_dispatch_regular gen_c04_dispatch_hermes gen_c04_dispatch_index gen_c14_dispatch_hermes gen_c14_dispatch_regular gen_c14_dispatch_index gen_c14_dispatch_no_name gen_c14_dispatch_no_view gen_c14_dispatch_hermes_model".split()])
_add("SmVerif.Tie.Index", "RsHermes", [_T + "Index." + n for n in
    "tie_get_original_function_name tie_get_original_function_name' get_original_function_name_total gen_c14_scope_offset".split()])
_add("SmVerif.Tie.Adjust", "RsAdjust", [_T + n for n in
    "tie_sort_by_key_pair tie_sort_by_key_dst tie_sort_by_key_src tie_sort_toks tie_create_ranges tie_create_ranges_diverge create_ranges_spec tie_adjust_mappings_full tie_adjust_mappings tie_adjust_mappings_names tie_adjust_mappings_ok tie_adjust_mappings_error tie_adjust_mappings_diverge gen_c10_untouched gen_c10_sorted gen_c10_safe gen_c10_sound gen_c10_eq_spec gen_c10_panic_witness".split()])
# property theorems restated about the generated code (compositions property o tie)
_P = "SmVerif.Tie.Props."
_add("SmVerif.Tie.Props", "RsVlq", [_P + n for n in [
    "gen_c11_roundtrip", "gen_c11_u32_diffs", "gen_c11_encode_vlq_diff", "gen_c11_agrees_standard", "gen_c11_err_empty",
    "gen_c11_err_unterminated", "gen_c11_err_too_long"]])
_add("SmVerif.Tie.Props", "RsDecodeTokens", [_P + n for n in [
    "gen_c02_decode_eq_spec", "gen_c06_fault_rejected", "gen_c06_ok_resolves", "gen_c05_decode_safe", "gen_c05_decode_no_crash"]])
_add("SmVerif.Tie.Props", "RsTypes", [_P + n for n in [
    "gen_c04_lookup_none_iff", "gen_c04_lookup_greatest", "gen_c04_lookup_exact_first", "gen_c07_lookup_same_line", "gen_c07_lookup_other"]])
_add("SmVerif.Tie.Props", "RsHermes", [_P + "gen_c14_scope", _P + "gen_c14_none_cases"])
_add("SmVerif.Tie.Props2", "RsDecoder", [_P + n for n in [
    "gen_c12_header_rule_slice", "gen_c12_header_rule_empty", "gen_c12_reader_eq_slice", "gen_c12_errors_coincide"]])

# which tie modules speak about code a property's theorems depend on
_add("SmVerif.Tie.Props3", "RsSerialize", [_P + n for n in
    "emit_bytes emit_lines rmiTail_pieces gen_serialisers gen_c01_mappings_roundtrip gen_c01_mappings_roundtrip_self gen_c01_mappings_roundtrip_raw gen_c07_flags_roundtrip gen_c01_idempotent gen_c03_spec_reads_encoder".split()])

_add("SmVerif.Tie.DecodeCommon", "RsDecodeCommon", [_T + "DecodeCommon." + n for n in
    "tie_decode_common gen_c02_kind_index gen_c02_kind_hermes gen_c02_kind_regular gen_c02_kind_error".split()])

PROP_MODULES = {
    "C01": ["SmVerif.Tie.Vlq", "SmVerif.Tie.Decode", "SmVerif.Tie.Serialize", "SmVerif.Tie.Props3"],
    "C02": ["SmVerif.Tie.Vlq", "SmVerif.Tie.Decode", "SmVerif.Tie.Props", "SmVerif.Tie.Prefix", "SmVerif.Tie.DecodeCommon"],
    "C03": ["SmVerif.Tie.Vlq", "SmVerif.Tie.Serialize", "SmVerif.Tie.Props3"],
    "C04": ["SmVerif.Tie.Lookup", "SmVerif.Tie.Props", "SmVerif.Tie.Index"],
    "C05": ["SmVerif.Tie.Vlq", "SmVerif.Tie.Header", "SmVerif.Tie.Decode", "SmVerif.Tie.Lookup", "SmVerif.Tie.Hermes", "SmVerif.Tie.Serialize", "SmVerif.Tie.Props", "SmVerif.Tie.SourceView", "SmVerif.Tie.Detect", "SmVerif.Tie.RamBundle", "SmVerif.Tie.JsIdent", "SmVerif.Tie.Reader", "SmVerif.Tie.Index", "SmVerif.Tie.Adjust", "SmVerif.Tie.HermesDecode", "SmVerif.Tie.GetLine", "SmVerif.Tie.Flatten", "SmVerif.Tie.Rewrite", "SmVerif.Tie.RevIter"],
    "C06": ["SmVerif.Tie.Vlq", "SmVerif.Tie.Decode", "SmVerif.Tie.Props"],
    "C07": ["SmVerif.Tie.Vlq", "SmVerif.Tie.Small", "SmVerif.Tie.Decode", "SmVerif.Tie.Lookup", "SmVerif.Tie.Serialize", "SmVerif.Tie.Props", "SmVerif.Tie.Props3"],
    "C10": ["SmVerif.Tie.Adjust"],
    "C11": ["SmVerif.Tie.Vlq", "SmVerif.Tie.Props"],
    "C12": ["SmVerif.Tie.Header", "SmVerif.Tie.Props2", "SmVerif.Tie.Reader"],
    "C08": ["SmVerif.Tie.Builder", "SmVerif.Tie.Builder2", "SmVerif.Tie.Flatten", "SmVerif.Tie.Flatten2", "SmVerif.Tie.Index"],
    "C09": ["SmVerif.Tie.Builder", "SmVerif.Tie.Builder2", "SmVerif.Tie.Rewrite", "SmVerif.Tie.Rewrite2"],
    "C13": ["SmVerif.Tie.Prefix", "SmVerif.Tie.Builder", "SmVerif.Tie.Builder2"],
    "C15": ["SmVerif.Tie.SourceView", "SmVerif.Tie.GetLine"],
    "C16": ["SmVerif.Tie.GetLine"],
    "C18": ["SmVerif.Tie.Detect"],
    "C20": ["SmVerif.Tie.RamBundle"],
    "C14": ["SmVerif.Tie.Vlq", "SmVerif.Tie.Hermes", "SmVerif.Tie.Props", "SmVerif.Tie.Index", "SmVerif.Tie.HermesDecode"],
    "C17": ["SmVerif.Tie.Lookup", "SmVerif.Tie.JsIdent", "SmVerif.Tie.RevIter"],
    "C19": ["SmVerif.Tie.Paths"],
}

def tie_for(prop):
    """-> list of (module, theorem, unit)"""
    out = []
    for m in PROP_MODULES.get(prop, []):
        for t, u in TIE_THEOREMS.get(m, {}).items():
            out.append((m, t, u))
    return out
