#!/bin/sh
# first-pass evaluation of seeds in 4 isolated lanes: /tmp/seed_lanes.sh <ids...>
cd /verif
i=0
: > /tmp/seed_jobs.txt
for id in "$@"; do
  i=$((i+1)); lane=$((i % 4))
  prop=$(python3 -c "import json;print(json.load(open('seeded/$id/meta.json'))['breaks_property'])")
  echo "$lane $id $prop" >> /tmp/seed_jobs.txt
done
for lane in 0 1 2 3; do
  ( grep "^$lane " /tmp/seed_jobs.txt | while read l id prop; do tools/iso_eval.sh S$l seeded/$id/patch.diff $prop > ${SEEDRES:-/tmp/seedres}/$id.result 2>&1; done ) &
done
wait
