#!/usr/bin/env python3
"""Regenerates the machine-written blocks of DESIGN.md (between <!-- BEGIN x --> / <!-- END x --> markers):
status per property (from MANIFEST.json, tools/gen/*.py and evidence/*.json), findings (known_findings.json)
and the seeded-change catch table (seeded/*/meta.json)."""
import glob, importlib, json, os, re, sys
HERE = os.path.normpath(os.path.join(os.path.dirname(os.path.abspath(__file__)), ".."))
sys.path.insert(0, os.path.join(HERE, "tools")); sys.path.insert(0, os.path.join(HERE, "tools", "gen"))

def status():
    man = json.load(open(os.path.join(HERE, "MANIFEST.json")))
    claimed = {c["property_id"]: c for c in man["checks"]}
    rows = ["| Property | Status | Theorems (audited) | Lean modules | Quick run: cases / distinct non-trivial | Technique |", "|---|---|---|---|---|---|"]
    for l in open(os.path.join(HERE, "properties.jsonl")):
        pid = json.loads(l)["id"]
        if pid not in claimed:
            rows.append("| %s | not claimed yet | | | | |" % pid); continue
        mod = importlib.import_module(pid.lower())
        thms = [t.split(".")[-1] for ts in mod.THEOREMS.values() for t in ts]
        ev = {}
        p = os.path.join(HERE, "evidence", pid + ".json")
        if os.path.exists(p):
            ev = json.load(open(p))
        cov = ev.get("coverage", {})
        rows.append("| %s | claimed (proof) | %d: %s | %s | %s / %s | %s |" % (pid, len(thms), ", ".join("`%s`" % t for t in thms), ", ".join("`%s`" % m.replace("SmVerif.", "") for m in sorted(mod.THEOREMS)), cov.get("evaluations", "?"), cov.get("distinct_nontrivial", "?"), claimed[pid]["technique"]))
    return "\n".join(rows)

def findings():
    rows = ["| # | Property | Status | Commit | Witness (case key) | What |", "|---|---|---|---|---|---|"]
    for f in sorted(json.load(open(os.path.join(HERE, "known_findings.json"))), key=lambda f: int(re.sub(r"\D", "", f.get("id", "F0")) or 0)):
        rows.append("| %s | %s | %s | %s | `%s` | %s |" % (f.get("id", ""), f["property"], f["status"], f.get("commit", "-"), f["key"][:90].replace("|", "\\|"), f["what"].replace("|", "\\|")))
    return "\n".join(rows)

def seeds():
    rows = ["| Seeded change | Breaks | Needs to manifest | Confirmed (demo fails with / passes without / suite passes) | Caught by (quick tier) | How it shows |", "|---|---|---|---|---|---|"]
    for mp in sorted(glob.glob(os.path.join(HERE, "seeded", "*", "meta.json"))):
        m = json.load(open(mp))
        how = ""
        for c, r in m.get("check_results", {}).items():
            if r.get("exit") and not r.get("replay") and r.get("violation_lines"):
                v = r["violation_lines"][0]
                kind = "impl-vs-spec (concrete failing input)" if "-spec-" in v else "impl-vs-model" if "-model-" in v else "broken obligation" if "obligation" in v else "violation"
                if "no-failing-input-found" in v:
                    kind += ", no-failing-input-found"
                how = "%s: %s" % (c, kind)
                break
            if r.get("exit") and r.get("replay"):
                rp = r["replay"]
                how = "%s: %s" % (c, (rp.get("kind", "") or "broken obligation").split(" (")[0]) + (" on `%s`" % rp["case"][:70].replace("|", "\\|") if rp.get("case") else "")
                break
        rows.append("| %s | %s | %s | %s | %s | %s |" % (m.get("seed", os.path.basename(os.path.dirname(mp))), m.get("breaks_property", ""), (m.get("needs_to_manifest") or m.get("description") or "").replace("|", "\\|")[:260], "yes" if m.get("confirmed") else "NO", ", ".join(m.get("caught_by", [])) or ("(not evaluated yet)" if not m.get("check_results") else "**missed**"), how))
    return "\n".join(rows)

def ties():
    import tie_table
    rows = ["| Tie module | Generated unit | Theorems (re-checked against the regenerated code on every run) |", "|---|---|---|"]
    for mod in sorted(tie_table.TIE_THEOREMS):
        by_unit = {}
        for t, u in tie_table.TIE_THEOREMS[mod].items():
            by_unit.setdefault(u, []).append(t.split(".")[-1])
        for u, ts in sorted(by_unit.items()):
            rows.append("| `%s` | `%s` | %d: %s |" % (mod.replace("SmVerif.", ""), u, len(ts), ", ".join("`%s`" % t for t in ts)))
    rows.append("")
    rows.append("| Property | Tie modules used | Tie theorems |")
    rows.append("|---|---|---|")
    for l in open(os.path.join(HERE, "properties.jsonl")):
        pid = json.loads(l)["id"]
        e = tie_table.tie_for(pid)
        rows.append("| %s | %s | %d |" % (pid, ", ".join("`%s`" % m.replace("SmVerif.Tie.", "") for m in tie_table.PROP_MODULES.get(pid, [])) or "- (correspondence and regenerated constants only)", len(e)))
    return "\n".join(rows)

def benign():
    rows = ["| Refactor | Property | Files / functions touched | Alarm raised | What the check printed |", "|---|---|---|---|---|"]
    for mp in sorted(glob.glob(os.path.join(HERE, "benign", "*", "meta.json"))):
        m = json.load(open(mp))
        r = m.get("check_result", {})
        note = "; ".join(n.split(":")[0] for n in r.get("tie_or_anchor_note", []))
        summ = (r.get("summary") or [""])[0]
        rows.append("| %s | %s | %s: %s | %s | %s |" % (m["id"], m["property"], ", ".join(m.get("files", [])), ", ".join("`%s`" % f for f in m.get("functions_touched", [])[:6]), "**YES**" if m.get("alarm") else "no", (summ.split(" audited")[-1].strip() + (" (" + note + ")" if note else "")).replace("|", "\\|")[:200]))
    return "\n".join(rows)

TRIAGE = {
    # survivor id -> why it is not a violation of the properties it was tested against (written by hand after reading the diff)
    "4cfa15f0ca": "**blind spot, closed**: `DecodedMap::get_original_function_name`, Hermes arm `line != 0` -> `== 0`; the `DecodedMap` dispatch layer was not driven by any harness op; C14's ops now ask every question through `decode_slice` + `DecodedMap` as well (C04/C08/C17 ops likewise) and C14 reports this mutant with a concrete input; `Tie/Index.lean` `gen_c14_dispatch_hermes` proves the arm on the translated code",
    "2e3d44041f": "equivalent for the public API: `add` passes `!0` as the *old* source id recorded in `sources_mapping`, which only `rewrite` (through `add_token`) reads; the translation tie `tie_add` does break, which widens the search and is recorded, not reported",
    "7f65f8859e": "equivalent on position-ordered slices (every slice the crate passes is one: C04 second sentence, `decode_index` sorts sections); `tie_glb` breaks -> widened search finds no input",
    "648c022fbd": "file (unbundle) RAM bundles: outside C20, which is about indexed bundles",
    "714d459493": "file (unbundle) RAM bundles: outside C20",
    "cfd1f9fff3": "file (unbundle) RAM bundles, file-system dependent: outside C20",
    "ec0e12e4b4": "equivalent: `break` -> `continue` in the second loop of `get_line_slice` only skips work (the guard stays false for the rest of the line)",
    "10235c965f": "equivalent: initial `(line, !0, !0)` offsets of `RevTokenIter`; only the `last_byte_offset == !0` test reads them and the first element decides it",
    "eeba185f5a": "equivalent (as 10235c965f, other tuple position)",
    "8785fc1fd2": "equivalent (as 10235c965f)",
    "543de7a880": "equivalent: `resize` to the current length is a no-op",
    "e184c5f3ef": "file (unbundle) RAM bundles: outside C20",
    "1d60d9147b": "file (unbundle) RAM bundles: outside C20",
    "ffce853adc": "equivalent: `break` -> `continue` in a column-scanning loop of `RevTokenIter::next`; once the guard `idx >= col` holds it holds for the rest of the line and nothing is added",
    "cef11bffad": "equivalent for the public API (as 2e3d44041f: the old-id slot of `sources_mapping` is read by `rewrite` only, which goes through `add_token`)",
    "2e790904db": "equivalent: assigning an equal value",
    "8c94c9191c": "equivalent with the `unicode-id-start` tables in use: U+200C / U+200D then fall through to `is_id_continue_unicode`, which accepts them (the harness probes the crate's predicate for every non-ASCII character of every case, so a difference would have been a `pool-mismatch`)",
    "43d242189c": "equivalent (as ffce853adc: the other column-scanning loop of `RevTokenIter::next`)",
    "b6c1e570e7": "equivalent: `last` starts at 1 instead of 0 - one more (false) bit of the same base64 digit is read",
    "b4ebda183d": "**blind spot, closed**: `set_source` index through `u8`: no case had more than 5 sources; `smap.seq` now also runs on maps with 256 / 257 / 300 sources and touches ids 255 / 256 / 257; reported by C13 now",
    "2a221608ba": "**blind spot, closed** (as b4ebda183d: `get_source_contents` index through `u8`); reported by C13 now",
    "438f10fd8e": "**blind spot, closed**: `get_line_slice` column through `u8`: no line had 256 UTF-16 units; C15 now slices a 300-unit line around columns 255 / 256 / 257 (and a 66 000-unit line around 65 535 / 65 536 in the thorough command) and asks for lines 255.. of a 300-line text; reported by C15 now",
    "7576aadbc8": "equivalent: the truncated value is only compared with the cached line number, and the walk goes to smaller line numbers, so a wrong `equal` would need a cached line smaller than the current one",
    "ff0e5c2ac8": "not covered: needs 65 536 distinct names in one builder; the model's association lists make that case too slow for a check (the tie theorem `tie_add_name` does break, which is recorded as a lost tie)",
    "155cd40d54": "file (unbundle) RAM bundles: outside C20",
    "d7e761bcd0": "equivalent: a capacity hint",
    "8c3ce71511": "outside the properties: the numeric payload of the error value (the checks compare error kinds)",
    "8bb0e1767a": "outside the properties: the numeric payload of the error value",
    "7c56bfc706": "**blind spot, closed** (as b4ebda183d: `set_source_contents` index through `u8`; evaluated before the many-sources cases existed)",
    "c4bf74b8d9": "**blind spot, closed** (as 438f10fd8e; spans 255 / 256 / 257 and the full line length are now requested too)",
    "bcd4b2720d": "outside what C09 demands: with the `~` option ignored every name is its old self minus the (empty) stripped prefix; the checks exercise explicit prefixes only (the common-prefix computation is `find_common_prefix`, file-path heuristics the property does not describe)",
    "b31d3d7d32": "**blind spot, closed** (as c4bf74b8d9, found again in another lane before the long-line cases existed)",
    "00fb3139ad": "**blind spot, closed**: Hermes `rewrite` remaps function maps through a `u8` index: C09's corpus now rewrites a Hermes map with 300 sources of which ids 299, 256, 255 and 0 are referenced; reported by C09 now",
    "2b88db9f66": "equivalent: a capacity hint",
    "dc1dd5872c": "**blind spot, closed** (`get_source` index through `u8`: the many-sources cases of C13 report it now; evaluated before they existed)",
    "24fc0499b9": "**blind spot, closed**: `dst_line` through `u16`: no mapping string had 65 536 lines; C02's corpus now decodes `;`×255 and `;`×65 535 followed by tokens on the next lines; reported by C02 now",
    "05089504a8": "outside the properties: the numeric payload of the error value",
    "6451a0f17f": "**blind spot, closed** (as 00fb3139ad, the other table of `SourceMapHermes::rewrite`)",
    "53f2a8bc2e": "equivalent: the value already is a `u8`",
    "7e37791036": "equivalent: a truncated cached line number only makes the cache miss (the line is fetched again and scanned from its start)",
    "f9031bf4b4": "equivalent: a base64 digit is below 64",
    "788edb9158": "**blind spot, closed**: builder `set_source_contents` id through `u8`: `bld.seq` now also builds maps with 257 / 258 / 300 sources and sets contents at ids 255 / 256 / 257",
    "79c776a8e8": "**blind spot, closed**: the builder's `get_source_contents` id through `u8` (read by `flatten` / `rewrite` via `has_source_contents`): C09's corpus now rewrites a map whose 300 sources are all referenced and all have contents, so the builder's own ids pass 255; reported by C09 now",
    "9e8f9ff207": "equivalent: every bit of the resized vector is overwritten by the stores that follow",
    "6812f09c9a": "`split_path` is used by `find_common_prefix` (the `~` option of `rewrite`) only, not by `make_relative_path`: outside C19; C09 holds for explicit prefixes and for whatever `~` computes (the stripped prefix is part of its statement)",
}


def automut():
    rows = []
    tot = {}
    surv = []
    seen_ids = {}
    for lp in sorted(glob.glob(os.path.join(HERE, "automut", "log-*.jsonl"))):
        for line in open(lp):
            r = json.loads(line)
            # the lanes draw from the same candidate list: count every distinct mutant once (a mutant reported in one
            # lane and missed in another - the stress-based checks - counts as reported)
            prev = seen_ids.get(r["id"])
            if prev is None or (prev == "SURVIVED" and r["outcome"] == "caught"):
                seen_ids[r["id"]] = r["outcome"]
            if r["outcome"] == "SURVIVED":
                surv.append(r)
    for o in seen_ids.values():
        tot[o] = tot.get(o, 0) + 1
    surv = [r for r in surv if seen_ids.get(r["id"]) == "SURVIVED"]
    n = sum(tot.values())
    head = "%d distinct operator mutants generated inside the anchored functions: %d did not compile, %d were killed by the crate's own 48 tests, **%d passed the suite**; of those %d were reported by a quick check of a property anchored on the mutated function and %d were not:" % (
        n, tot.get("does-not-compile", 0), tot.get("killed-by-suite", 0), tot.get("caught", 0) + tot.get("SURVIVED", 0), tot.get("caught", 0), tot.get("SURVIVED", 0))
    rows.append(head)
    rows.append("")
    rows.append("| Survivor | Where | Mutation | Checks run | Triage |")
    rows.append("|---|---|---|---|---|")
    seen = set()
    for r in surv:
        if r["id"] in seen:
            continue
        seen.add(r["id"])
        why = TRIAGE.get(r["id"])
        if why is None and r["file"] == "src/utils.rs" and r["fn"] == "is_abs_path":
            why = "`is_abs_path` is used by `find_common_prefix` (the `~` option of `rewrite`) only, not by `make_relative_path`: outside C19, and C09 holds for whatever prefix `~` computes"
        rows.append("| %s | `%s::%s` | `%s` -> `%s` in `%s` | %s | %s |" % (r["id"], r["file"].replace("src/", ""), r["fn"], r["was"].strip(), r["now"].strip(), r["line"][:60].replace("|", "\\|"), " ".join(sorted(r.get("checks", {}).keys())), why or "UNTRIAGED"))
    return "\n".join(rows)


def main():
    p = os.path.join(HERE, "DESIGN.md")
    s = open(p).read()
    for name, fn in (("status", status), ("findings", findings), ("seeds", seeds), ("ties", ties), ("benign", benign), ("automut", automut)):
        a, b = "<!-- BEGIN %s -->" % name, "<!-- END %s -->" % name
        if a in s and b in s:
            s = s[: s.index(a) + len(a)] + "\n" + fn() + "\n" + s[s.index(b):]
    open(p, "w").write(s)

main()
