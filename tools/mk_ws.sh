#!/bin/sh
# private copy of the framework for a package-building sub-agent:
#   tools/mk_ws.sh <name> [patch.diff]  ->  /tmp/w/<name>/verif   (records the base commit in /tmp/w/<name>/BASE)
# With a patch: also a scratch worktree /tmp/w/<name>/repo of /repo's HEAD with the patch applied; the copy's harness and
# runner are pointed at it (for work on a model that has to follow a repair which is not committed to /repo yet).
set -e
W=/tmp/w/$1/verif
mkdir -p "$W"
rsync -a --delete --exclude .git --exclude .work --exclude replays --exclude evidence /verif/ "$W"/
mkdir -p "$W/replays" "$W/evidence"
git -C /verif rev-parse HEAD > /tmp/w/$1/BASE
if [ -n "$2" ]; then
  R=/tmp/w/$1/repo
  git -C /repo worktree remove --force $R 2>/dev/null || true
  git -C /repo worktree add -q --detach $R HEAD
  git -C $R apply "$2"
  cp /repo/Cargo.lock $R/Cargo.lock
  sed -i "s|path = \"/repo\"|path = \"$R\"|" $W/harness/Cargo.toml
  sed -i "s|^import runner$|os.environ.setdefault(\"VERIF_REPO\", \"$R\")\nimport runner|" $W/check
  echo "$R" > /tmp/w/$1/REPO
fi
echo "$W"
