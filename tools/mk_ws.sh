#!/bin/sh
# private copy of the framework for a package-building sub-agent: tools/mk_ws.sh <name>  -> /tmp/w/<name>/verif
set -e
W=/tmp/w/$1/verif
mkdir -p "$W"
rsync -a --delete --exclude .git --exclude .work --exclude replays --exclude evidence /verif/ "$W"/
mkdir -p "$W/replays" "$W/evidence"
echo "$W"
