#!/bin/sh
# tools/merge_ws.sh <name> [apply]: show (or copy) what a package workspace /tmp/w/<name>/verif changed relative to /verif.
# Shared files are never copied: their diffs are printed for a manual merge.
W=/tmp/w/$1/verif
SHARED="lean/Main.lean harness/src/ops/mod.rs tools/mk_manifest.py tools/extract_consts.py lean/SmVerif/Model/Basic.lean known_findings.json DESIGN.md MANIFEST.json tools/runner.py harness/Cargo.toml harness/src/util.rs harness/src/main.rs lean/SmVerif/Generated/Consts.lean .gitignore tools/PACKAGE_BRIEF.md tools/AGENT_LEAN_NOTES.md lean/SmVerif.lean"
cd "$W" || exit 1
find . -type f \( -path ./lean/.lake -o -path ./harness/target -o -path ./.work -o -path ./evidence -o -path ./replays -o -name '*.pyc' -o -path './harness/Cargo.lock' \) -prune -o -type f -print | grep -v -e '^./lean/.lake/' -e '^./harness/target/' -e '^./.work/' -e '^./evidence/' -e '^./replays/' -e '__pycache__' -e 'Cargo.lock' | sed 's|^\./||' | while read f; do
  if ! cmp -s "$W/$f" "/verif/$f"; then
    sh=0; for s in $SHARED; do [ "$s" = "$f" ] && sh=1; done
    if [ $sh = 1 ]; then echo "SHARED  $f"; 
    elif [ -e "/verif/$f" ]; then echo "CHANGED $f"; [ "$2" = apply ] && cp "$W/$f" "/verif/$f";
    else echo "NEW     $f"; [ "$2" = apply ] && mkdir -p "$(dirname /verif/$f)" && cp "$W/$f" "/verif/$f"; fi
  fi
done
