#!/bin/sh
# tools/merge_ws.sh <name> [apply]: show (or copy) what a package workspace /tmp/w/<name>/verif changed relative to
# the commit it was copied from (BASE, default 7b5e068).  Files the agent did not touch are skipped even if /verif moved on.
# Shared files are never copied: they are listed for a manual merge (diff against BASE shown with `diff`).
W=/tmp/w/$1/verif
BASE=${BASE:-$(cat /tmp/w/$1/BASE 2>/dev/null || echo 7b5e068)}
SHARED="lean/Main.lean harness/src/ops/mod.rs tools/mk_manifest.py tools/extract_consts.py lean/SmVerif/Model/Basic.lean known_findings.json DESIGN.md MANIFEST.json tools/runner.py harness/Cargo.toml harness/src/util.rs harness/src/main.rs lean/SmVerif/Generated/Consts.lean .gitignore tools/PACKAGE_BRIEF.md tools/AGENT_LEAN_NOTES.md lean/SmVerif.lean check"
cd "$W" || exit 1
find . -type f | grep -v -e '^./lean/.lake/' -e '^./harness/target/' -e '^./.work/' -e '^./evidence/' -e '^./replays/' -e '__pycache__' -e 'Cargo.lock' | sed 's|^\./||' | while read f; do
  if git -C /verif cat-file -e "$BASE:$f" 2>/dev/null; then
    git -C /verif show "$BASE:$f" | cmp -s - "$W/$f" && continue     # untouched by the agent
    st=CHANGED
  else st=NEW; fi
  cmp -s "$W/$f" "/verif/$f" && continue
  sh=0; for s in $SHARED; do [ "$s" = "$f" ] && sh=1; done
  if [ $sh = 1 ]; then echo "SHARED  $f"; [ "$2" = diff ] && git -C /verif show "$BASE:$f" | diff - "$W/$f";
  else echo "$st $f"; [ "$2" = apply ] && mkdir -p "$(dirname /verif/$f)" && cp "$W/$f" "/verif/$f"; fi
done
true
