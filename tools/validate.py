#!/usr/bin/env python3
"""validate MANIFEST.json and every evidence file against the schemas (run with python3-vt)"""
import json, glob, sys, jsonschema
ok = True
try:
    jsonschema.validate(json.load(open('/verif/MANIFEST.json')), json.load(open('/root/.vp/MANIFEST.schema.json')))
    print("MANIFEST ok")
except Exception as e:
    ok = False; print("MANIFEST INVALID", str(e)[:500])
es = json.load(open('/root/.vp/EVIDENCE.schema.json'))
for f in sorted(glob.glob('/verif/evidence/*.json')):
    try:
        jsonschema.validate(json.load(open(f)), es); print(f, "ok")
    except Exception as e:
        ok = False; print(f, "INVALID", str(e)[:400])
sys.exit(0 if ok else 1)
