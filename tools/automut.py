#!/usr/bin/env python3
"""tools/automut.py <lane> <count> [seed]  -  operator-mutation analysis of the CHECKS (not of the crate).

Generates small token-level mutants (relational / boundary / logical / arithmetic operators, integer literals +-1) inside
the Rust functions that the properties' models mirror (tools/anchor_table.py), keeps those that still compile and pass the
crate's own test suite in a scratch worktree of /repo (lane /tmp/w/LANE<lane>), and runs the quick command of every property
that anchors the mutated function against the mutant (a private copy of /verif in the lane, as tools/iso_eval.sh does).
A mutant that no check reports is written to /verif/automut/survivors/<id>.json for triage: it is either an equivalent mutant
(the property still holds - most survivors) or a blind spot of a generator.  Nothing here touches /repo or decides a verdict.
"""
import hashlib, json, os, random, re, subprocess, sys, time

VERIF = os.path.normpath(os.path.join(os.path.dirname(os.path.abspath(__file__)), ".."))
sys.path.insert(0, os.path.join(VERIF, "tools"))
import anchor_table, anchors  # noqa

ENV = dict(os.environ, CARGO_NET_OFFLINE="true")


def sh(cmd, cwd=None, timeout=3600):
    p = subprocess.run(cmd, shell=True, cwd=cwd, capture_output=True, text=True, env=ENV, timeout=timeout)
    return p.returncode, p.stdout + p.stderr


OPS = [
    (r" < ", " <= "), (r" <= ", " < "), (r" > ", " >= "), (r" >= ", " > "), (r" == ", " != "), (r" != ", " == "),
    (r" && ", " || "), (r" \|\| ", " && "), (r" \+ 1\b", " + 0"), (r" - 1\b", " - 0"), (r" \+ ", " - "), (r" - ", " + "),
    (r"\bchecked_sub\b", "saturating_sub"), (r"\bsaturating_add\b", "wrapping_add"), (r" >>= ", " <<= "),
    (r"\bbreak;", "continue;"), (r"!(\w)", r"\1"), (r"\bunwrap_or\(0\)", "unwrap_or(1)"), (r"\.rev\(\)", ""),
]
# round 3 (AUTOMUT_OPS=2): value-level operators
OPS2 = [
    (r"\btrue\b", "false"), (r"\bfalse\b", "true"), (r"\.is_some\(\)", ".is_none()"), (r"\.is_none\(\)", ".is_some()"),
    (r"\.is_empty\(\)", ".is_empty() == false"), (r"\.min\(", ".max("), (r"\.max\(", ".min("), (r"\.first\(\)", ".last()"),
    (r"\.\.=", ".."), (r"= 0;", "= 1;"), (r"= 1;", "= 0;"), (r"\b0\.\.", "1.."), (r"\bSome\(0\)", "Some(1)"),
    (r" \+= 1;", " += 2;"), (r" -= 1;", " -= 0;"), (r"\bwrapping_add\b", "saturating_add"), (r"\bsaturating_sub\b", "wrapping_sub"),
    (r"\.take\(128\)", ".take(127)"), (r" as u32", " as u16 as u32"), (r" as usize", " as u8 as usize"), (r"\b6\b", "5"), (r"\b13\b", "12"),
    (r"\b32\b", "31"), (r"\b5\b", "4"), (r"\b4\b", "3"), (r"\b12\b", "11"), (r" / ", " % "), (r" << ", " >> "), (r" & ", " | "),
]
if os.environ.get("AUTOMUT_OPS") == "2":
    OPS = OPS2


def functions_by_file():
    """file -> {fn name (None = the whole file is anchored) -> set(properties)}"""
    res = {}
    for prop, lst in anchor_table.ANCHORS.items():
        for f, fn in lst:
            res.setdefault(f, {}).setdefault(fn, set()).add(prop)
    return res


def fn_spans(text, name):
    """[(start, end)] character spans of every `fn name` body"""
    spans = []
    if name is None:
        # whole-file anchor: everything in front of the unit tests
        end = text.find("#[cfg(test)]")
        return [(0, end if end > 0 else len(text))]
    for m in re.finditer(r"\bfn\s+%s\b" % re.escape(name), text):
        body = anchors.fn_body(text[m.start():], name)
        if body:
            first = body.split("\n\n")[0] if False else body
            # fn_body concatenates all same-named fns from the slice start; take the first one only
            i = text.find("{", m.end())
            depth, j = 0, i
            while j < len(text):
                if text[j] == "{":
                    depth += 1
                elif text[j] == "}":
                    depth -= 1
                    if depth == 0:
                        break
                j += 1
            spans.append((i, j))
    return spans


def candidates(repo):
    out = []
    for f, fns in functions_by_file().items():
        p = os.path.join(repo, f)
        if not os.path.exists(p):
            continue
        text = open(p).read()
        for fn, props in fns.items():
            if fn is None and len(fns) > 1 and os.environ.get("AUTOMUT_WHOLE") != "1":
                continue
            for (a, b) in fn_spans(text, fn):
                seg = text[a:b]
                for pat, rep in OPS:
                    for m in re.finditer(pat, seg):
                        line_start = text.rfind("\n", 0, a + m.start()) + 1
                        line = text[line_start:text.find("\n", a + m.start())]
                        if line.strip().startswith("//") or "assert" in line or '"' in line.split(m.group(0))[0][-40:] and line.count('"') % 2 == 1:
                            continue
                        out.append((f, fn, sorted(props), a + m.start(), a + m.end(), re.sub(pat, rep, m.group(0), count=1), line.strip()))
    return out


def main():
    lane, count = sys.argv[1], int(sys.argv[2])
    seed = int(sys.argv[3]) if len(sys.argv) > 3 else 1
    S = "/tmp/w/LANEM%s" % lane
    os.makedirs(S, exist_ok=True)
    sh("git -C /repo worktree remove --force %s/repo" % S)
    sh("rm -rf %s/repo" % S)
    rc, o = sh("git -C /repo worktree add -q --detach %s/repo HEAD" % S)
    assert rc == 0, o
    sh("cp /repo/Cargo.lock %s/repo/Cargo.lock" % S)
    sh("rsync -a --delete --exclude .git --exclude .work --exclude replays --exclude evidence --exclude tools/rs2lean/target --exclude automut /verif/ %s/verif/" % S)
    sh("mkdir -p %s/verif/replays %s/verif/evidence" % (S, S))
    sh("sed -i 's|path = \"/repo\"|path = \"%s/repo\"|' %s/verif/harness/Cargo.toml" % (S, S))
    sh("cp /repo/Cargo.lock %s/verif/harness/Cargo.lock" % S)
    repo = S + "/repo"
    cands = candidates(repo)
    rng = random.Random(seed * 1000 + hash(lane) % 1000)
    rng.shuffle(cands)
    outdir = os.path.join(VERIF, "automut")
    os.makedirs(os.path.join(outdir, "survivors"), exist_ok=True)
    log = open(os.path.join(outdir, "log-%s.jsonl" % lane), "a")
    done = 0
    for (f, fn, props, a, b, rep, line) in cands:
        if done >= count:
            break
        p = os.path.join(repo, f)
        orig = open(p).read()
        mutated = orig[:a] + rep + orig[b:]
        mid = hashlib.sha1(("%s:%d:%s" % (f, a, rep)).encode()).hexdigest()[:10]
        open(p, "w").write(mutated)
        try:
            rc, o = sh("cargo test --offline --workspace 2>&1 | tail -40", cwd=repo, timeout=1200)
            compiled = "error[" not in o and "error: could not compile" not in o
            suite_ok = compiled and "FAILED" not in o and "test result: ok" in o
            rec = {"id": mid, "file": f, "fn": fn, "props": props, "line": line, "was": orig[a:b], "now": rep, "compiles": compiled, "suite_passes": suite_ok}
            if not suite_ok:
                rec["outcome"] = "killed-by-suite" if compiled else "does-not-compile"
                log.write(json.dumps(rec) + "\n"); log.flush()
                continue
            done += 1
            caught = {}
            for prop in props:
                rc, o = sh("VERIF_REPO=%s ./check %s --tier quick 2>&1 | grep -E 'VIOLATION|quick:' | cut -c1-200" % (repo, prop), cwd=S + "/verif", timeout=3000)
                caught[prop] = ("VIOLATION" in o, o.strip().splitlines()[-1] if o.strip() else "")
                if "VIOLATION" in o:
                    break  # one property reporting it is enough
            rec["checks"] = {k: {"reported": v[0], "line": v[1]} for k, v in caught.items()}
            rec["outcome"] = "caught" if any(v[0] for v in caught.values()) else "SURVIVED"
            log.write(json.dumps(rec) + "\n"); log.flush()
            if rec["outcome"] == "SURVIVED":
                diff = sh("git diff -- src", cwd=repo)[1]
                rec["diff"] = diff
                json.dump(rec, open(os.path.join(outdir, "survivors", mid + ".json"), "w"), indent=1)
        finally:
            open(p, "w").write(orig)
    sh("git -C /repo worktree remove --force %s/repo" % S)


if __name__ == "__main__":
    main()
