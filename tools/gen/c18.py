"""C18 - maps can be found from generated files and embedded as data URLs."""
from common import *
import base64, itertools, json

PROP = "C18"
CONSTS = ["DATA_PREAMBLE", "decode_data_url", "to_data_url", "locate_sourcemap_reference", "sourceMappingURL", "legacy marker", "RawSourceMap", "MinimalRawSourceMap"]
THEOREMS = {"SmVerif.Props.C18": ["SmVerif.C18." + t for t in (
    "c18_lines", "c18_locate", "c18_first_line", "c18_none_iff", "c18_prefix_len", "c18_legacy_iff", "c18_trim",
    "c18_prefix_accepted", "c18_base64_roundtrip", "c18_base64_is_rfc4648", "c18_data_url_wellformed", "c18_data_url_roundtrip", "c18_embedded", "c18_detects_serialised")]}
TRUSTED = BASE_TRUST + [
    "model: lean/SmVerif/Model/Detect.lean mirrors locate_sourcemap_reference (detector.rs) on top of std's BufRead::lines and str::trim (White_Space code points modelled on UTF-8 bytes), "
    "SourceMap::to_data_url after encode() and decode_data_url up to decode_slice() with an RFC 4648 codec standing for base64_simd::STANDARD.encode and data_encoding::BASE64.decode (block-wise padding rules), "
    "is_sourcemap_common over key-presence records, serde's derived (de)serialisers of RawSourceMap / MinimalRawSourceMap as the regenerated field tables",
    "serde_json (JSON text <-> RawSourceMap) is not modelled: the serialisation of a map enters the theorems as an arbitrary byte string, the case lines carry the generator's own serialisation and the run checks it equals to_writer's",
]
ASSUMPTIONS = [
    "texts are valid UTF-8 (BufRead::lines reports invalid UTF-8 as an Io error; not modelled, not generated)",
    "a map's JSON serialisation is the same in to_data_url and to_writer (both call encode()), and decode_slice is a function of the bytes: byte-equality of the decoded payload gives equality of the decoded maps (observed per case: tokens, sources, names, contents, file, root, ignore list, debug id and re-serialisation are compared)",
    "det.is_sm / det.ser: the JSON object is abstracted to its top-level (key, non-null) pairs; documents with a junk header are C12's",
]
RULE = ("det.locate: all texts of 5 lines (3 in quick, plus a sample of the 5-line ones) over a 7-line pool {code, '#' comment, '@' comment, indented look-alike, mid-line look-alike, empty URL, URL with surrounding spaces/tabs} x {\\n, \\r\\n} x {final newline, none} (exhaustive), "
        "random texts with mixed endings, lone \\r, every White_Space code point and non-whitespace look-alikes around the URL, truncated / misspelt prefixes, non-ASCII code lines; "
        "det.dataurl: regular maps (0-6 sources/names with Unicode and JSON-special strings, 0-12 tokens, optional file/root/contents/ignore list/debug id; canonical, pretty-printed, reordered or junk-headed input) -> to_data_url -> decode_data_url and locate+get_embedded_sourcemap inside a generated text, serialisation length in all residues mod 3; "
        "det.decode: URLs written by the generator's own base64 (both accepted preambles) and malformed ones (bad symbols, wrong/missing/extra padding, non-zero trailing bits, concatenated padded blocks, wrong preambles); "
        "det.ser: regular / index / Hermes maps with every combination of optional fields, serialised and detected; det.is_sm: objects over the detector's keys with null / wrongly typed values, duplicates, non-objects. "
        "non-trivial = a reference is found, a URL is produced/decoded or a document is classified (anything but `ok none`); distinct = distinct case line")
EXHAUSTIVE = {"quick": True, "thorough": True}

NONE = 4294967295
P_HASH = "//# sourceMappingURL="
P_AT = "//@ sourceMappingURL="
PRE1 = "data:application/json;base64,"
PRE2 = "data:application/json;charset=utf-8;base64,"

POOL = ["var a=1;",
        P_HASH + "a.js.map",
        P_AT + "old.map",
        "  " + P_HASH + "indented.map",
        "x(); " + P_HASH + "mid.map",
        P_HASH,
        P_HASH + " \tsp.map \t"]

# every White_Space code point, and look-alikes that are not White_Space
WS = ["\t", "\n", "\x0b", "\x0c", "\r", " ", "\x85", "\xa0", "\u1680"] + [chr(c) for c in range(0x2000, 0x200B)] + ["\u2028", "\u2029", "\u202f", "\u205f", "\u3000"]
NOT_WS = ["\u200b", "\ufeff", "\u180e", "\x1c", "\x1f", "\x00", "\x08", "\u2060", "\u00a1", "\u2027", "\u202a", "\u3001", "\u0084", "\u2400", "\u00e9", "\U0001F600", "\x7f"]


def nontrivial(r):
    return r["model"] != "ok none"


def locate(text):
    return "det.locate " + hx(text)


# ------------------------------------------------------------------ maps and their serialisation

STRS = ["a.js", "b", "", "x y", "\u00e9", "\u65e5\u672c\u8a9e", "\U0001F600", "q\"uote", "back\\slash", "nl\nx", "tab\t", "\x01\x1f", "\x7f", "\u2028", "/abs/p.js", "http://h/x.js", "ab", "abc", "abcd", "</script>", "\x08\x0c\r"]


def jstr(s):
    return json.dumps(s, ensure_ascii=False)


def ser_mappings(toks):
    """the generator's own writer of the `mappings` string for sorted tokens with distinct positions"""
    out = ""
    pl = pc = psl = psc = pn = ps = 0
    for i, (dl, dc, src, sl, sc, nm) in enumerate(toks):
        if dl != pl:
            pc = 0
            out += ";" * (dl - pl)
            pl = dl
        elif i > 0:
            out += ","
        out += vlq_enc(dc - pc)
        pc = dc
        if src is not None:
            out += vlq_enc(src - ps) + vlq_enc(sl - psl) + vlq_enc(sc - psc)
            ps, psl, psc = src, sl, sc
            if nm is not None:
                out += vlq_enc(nm - pn)
                pn = nm
    return out


def rand_str(rng):
    r = rng.below(10)
    if r < 6:
        return rng.choice(STRS)
    if r < 8:
        return "".join(rng.choice("abcXYZ019_-./") for _ in range(rng.small(20)))
    return "".join(rng.choice(STRS) for _ in range(rng.range(1, 3)))


def rand_map(rng, hist=None):
    """abstract regular map (already in the form the crate keeps it: tokens sorted, distinct positions)"""
    nsrc = rng.choice([0, 1, 1, 2, 3, 6])
    nn = rng.choice([0, 0, 1, 2, 5])
    m = {"sources": [rand_str(rng) for _ in range(nsrc)], "names": [rand_str(rng) for _ in range(nn)]}
    toks = []
    pos = set()
    for _ in range(rng.small(12)):
        dl, dc = rng.below(4), rng.choice([0, 1, 2, 5, 17, 40, 1000, 70000])
        if (dl, dc) in pos:
            continue
        pos.add((dl, dc))
        if nsrc and rng.chance(0.8):
            toks.append((dl, dc, rng.below(nsrc), rng.choice([0, 1, 9, 300]), rng.choice([0, 3, 80]), rng.below(nn) if nn and rng.chance(0.5) else None))
        else:
            toks.append((dl, dc, None, 0, 0, None))
    toks.sort(key=lambda t: (t[0], t[1]))
    m["toks"] = toks
    m["file"] = rand_str(rng) if rng.chance(0.4) else None
    m["root"] = rng.choice(["", "/root", "src/", "http://x/\u00e9"]) if rng.chance(0.3) else None
    m["contents"] = [rand_str(rng) * rng.choice([1, 1, 3]) if rng.chance(0.6) else None for _ in range(nsrc)] if rng.chance(0.4) else None
    if m["contents"] is not None and all(c is None for c in m["contents"]):
        m["contents"] = None
    m["ignore"] = sorted(set(rng.below(max(nsrc, 1) + 2) for _ in range(rng.range(1, 3)))) if rng.chance(0.2) else None
    m["debug_id"] = "%08x-10b1-426f-9247-bb680e5fe0c8" % rng.below(1 << 32) if rng.chance(0.2) else None
    return m


def fields(m):
    """(key, JSON text of the value) in the order serde writes them"""
    f = [("version", "3")]
    if m["file"] is not None:
        f.append(("file", jstr(m["file"])))
    f.append(("sources", "[" + ",".join(jstr(s) for s in m["sources"]) + "]"))
    if m["root"] is not None:
        f.append(("sourceRoot", jstr(m["root"])))
    if m["contents"] is not None:
        f.append(("sourcesContent", "[" + ",".join("null" if c is None else jstr(c) for c in m["contents"]) + "]"))
    f.append(("names", "[" + ",".join(jstr(s) for s in m["names"]) + "]"))
    f.append(("mappings", jstr(ser_mappings(m["toks"]))))
    if m["ignore"] is not None:
        f.append(("ignoreList", "[" + ",".join(str(i) for i in m["ignore"]) + "]"))
    if m["debug_id"] is not None:
        f.append(("debug_id", jstr(m["debug_id"])))
    return f


def canonical(m):
    return "{" + ",".join('"%s":%s' % kv for kv in fields(m)) + "}"


def variant(m, rng, hist):
    """another JSON text of the same map: what the decoder must read to the same value"""
    f = fields(m)
    r = rng.below(6)
    if r == 0:
        bump(hist, "input_canonical")
        return canonical(m)
    if r == 1:
        bump(hist, "input_pretty")
        return "{\n" + ",\n".join('  "%s" : %s' % kv for kv in f) + "\n}\n"
    if r == 2:
        bump(hist, "input_reordered")
        rng.shuffle(f)
        return "{" + ",".join('"%s":%s' % kv for kv in f) + "}"
    if r == 3:
        bump(hist, "input_extra_keys")
        f.insert(rng.below(len(f) + 1), ("x_unknown", '{"mappings":[1,2,{"a":null}]}'))
        return "{" + ",".join('"%s":%s' % kv for kv in f) + "}"
    if r == 4:
        bump(hist, "input_debugId_key")
        return "{" + ",".join('"%s":%s' % (("debugId" if k == "debug_id" else k), v) for k, v in f) + "}"
    bump(hist, "input_junk_header")
    return ")]}'\n" + canonical(m)


PRES = ["", "var a=1;\n", "a();\r\n", "\n\n", "  " + P_HASH + "indented.map\n", "x(); " + P_HASH + "mid.map\n", "\u00e9=1; // \u65e5\u672c\n",
        P_HASH + "earlier.map\n", P_AT + "earlier-legacy.map\r\n", "glued"]
POSTS = ["", "\n", "\r\n", "\nmore();\n", " \t\n", "\u3000\u2003\n", "\n" + P_HASH + "later.map\n", "\r", " trailing words\n"]


def dataurl_case(m, rng, hist, pre=None, post=None):
    enc = canonical(m)
    inp = variant(m, rng, hist)
    pre = rng.choice(PRES) if pre is None else pre
    post = rng.choice(POSTS) if post is None else post
    bump(hist, "payload_len_mod3_%d" % (len(enc.encode()) % 3))
    return "det.dataurl %s %s %s %s" % (hx(inp), hx(enc), hx(pre), hx(post))


# ------------------------------------------------------------------ data URLs to decode

def b64(b):
    return base64.b64encode(b).decode()


def decode_cases(rng, hist, n):
    out = []
    alpha = B64
    for _ in range(n):
        r = rng.below(12)
        pre = rng.choice([PRE1, PRE2])
        if r < 3:
            m = rand_map(rng)
            p = canonical(m).encode()
            out.append("det.decode %s %s" % (hx(pre + b64(p)), hx(p)))
            bump(hist, "decode_wellformed_mod3_%d" % (len(p) % 3))
            continue
        raw = bytes(rng.below(256) for _ in range(rng.small(30)))
        e = b64(raw)
        if r == 3:
            bump(hist, "decode_binary_payload")
        elif r == 4 and e:
            i = rng.below(len(e))
            e = e[:i] + rng.choice(["=", "-", "_", " ", "\n", ".", "\u00e9", "\x00", "~", "@", "[", "`", "{", ":"]) + e[i + 1:]
            bump(hist, "decode_bad_symbol")
        elif r == 5 and e:
            e = e[:rng.below(len(e))]
            bump(hist, "decode_truncated")
        elif r == 6:
            # non-zero trailing bits / all last symbols
            k = rng.choice([1, 2])
            raw = raw[:len(raw) - len(raw) % 3] + bytes(rng.below(256) for _ in range(k))
            e = b64(raw)
            i = len(e) - (3 - k) - 1
            e = e[:i] + rng.choice(alpha) + e[i + 1:]
            bump(hist, "decode_trailing_bits")
        elif r == 7:
            e = e.rstrip("=") + "=" * rng.below(5)
            bump(hist, "decode_padding_count")
        elif r == 8:
            e = "".join(b64(bytes(rng.below(256) for _ in range(rng.range(0, 4)))) for _ in range(rng.range(2, 4)))
            bump(hist, "decode_concatenated")
        elif r == 9:
            pre = rng.choice(["", "data:", "data:application/json;base64", "data:application/json,", "data:text/plain;base64,", "DATA:application/json;base64,",
                              "data:application/json;charset=UTF-8;base64,", "data:application/json;charset=utf-8;base64", " " + PRE1, PRE1[:rng.below(len(PRE1))], PRE2[:rng.below(len(PRE2))],
                              "data:application/json;charset=utf-8,", PRE1 + PRE2, PRE2 + PRE1])
            bump(hist, "decode_preamble")
        elif r == 10:
            e = "".join(rng.choice(alpha + "=") for _ in range(rng.choice([4, 4, 8, 12, 3, 5])))
            bump(hist, "decode_random_symbols")
        else:
            e = e.replace("+", "-").replace("/", "_") if rng.chance(0.5) else e + rng.choice(["\n", " ", "=", "A", "AA", "AAA"])
            bump(hist, "decode_urlsafe_or_suffix")
        out.append("det.decode %s x" % hx(pre + e))
    return out


# ------------------------------------------------------------------ detection

SUB = '{"version":3,"sources":["s.js"],"names":["n"],"mappings":"AAAAA"}'


def ser_case(kind, flags, rng):
    """a JSON document of the given kind whose decoded form has exactly the optional fields in `flags`"""
    f = []
    f.append(("version", "3"))
    if "f" in flags:
        f.append(("file", rng.choice(['"out.js"', '""', "17", '{"a":1}'])))
    if kind == "index":
        f.append(("sections", rng.choice(["[]", '[{"offset":{"line":0,"column":0},"map":%s}]' % SUB,
                                          '[{"offset":{"line":0,"column":0},"map":%s},{"offset":{"line":5,"column":1},"url":"other.map"}]' % SUB])))
        if rng.chance(0.3):
            f.append(("sources", '["ignored.js"]'))
    else:
        f.append(("sources", '["a.js","b.js"]'))
        if "r" in flags:
            f.append(("sourceRoot", rng.choice(['"/root"', '""'])))
        if "c" in flags:
            f.append(("sourcesContent", rng.choice(['["x",null]', '[null,""]', '["a","b"]'])))
        elif rng.chance(0.4):
            f.append(("sourcesContent", rng.choice(["[null,null]", "[]", "null"])))
        if rng.chance(0.8):
            f.append(("names", rng.choice(['["n"]', "[]", "[1,true]"])))
        if "g" in flags:
            f.append(("rangeMappings", '"B"'))
            f.append(("mappings", '"AAAA,CAAC"'))
        else:
            if rng.chance(0.3):
                f.append(("rangeMappings", rng.choice(['""', '"A"', "null"])))
            if rng.chance(0.85):
                f.append(("mappings", rng.choice(['"AAAA,CAAC"', '""', '";;A"', '"A,CACA;;AAAC"'])))
        if "i" in flags:
            f.append(("ignoreList", rng.choice(["[0]", "[1,0,1]", "[7]"])))
        elif rng.chance(0.3):
            f.append(("ignoreList", rng.choice(["[]", "null"])))
        if "d" in flags:
            f.append((rng.choice(["debug_id", "debugId"]), '"67e55044-10b1-426f-9247-bb680e5fe0c8"'))
        if kind == "hermes":
            f.append(("x_facebook_sources", rng.choice(["[]", "[null]", '[[{"names":["<global>","f"],"mappings":"AAA,CCA"}],null]'])))
    if rng.chance(0.3):
        rng.shuffle(f)
    doc = "{" + ",".join('"%s":%s' % kv for kv in f) + "}"
    return "det.ser %s %s %s" % (hx(doc), kind, "".join(sorted(flags)) or "-")


def all_ser_cases(rng, hist, reps):
    out = []
    for _ in range(reps):
        for k in range(64):
            flags = "".join(c for i, c in enumerate("frcgid") if k >> i & 1)
            out.append(ser_case("regular", flags, rng))
            out.append(ser_case("hermes", flags + "b", rng))
        for flags in ("", "f"):
            out.append(ser_case("index", flags, rng))
    bump(hist, "ser_cases", len(out))
    return out


KEYS = ["version", "file", "sources", "sourceRoot", "sourcesContent", "sections", "names", "mappings"]
OTHER = ["x", "rangeMappings", "Version", "source_root", "sources_content", "debug_id", "ignoreList", "x_facebook_sources"]
VALS = ['"s"', "1", "[]", "{}", "true", '["a",null]', '{"version":3,"sections":[]}', "0.5", '""', "false"]


def is_sm_case(rng, hist):
    r = rng.below(10)
    if r == 0:
        doc = rng.choice(["", "null", "3", '"x"', "[]", "[3]", "{", '{"version":3', "{}x", '{"version":3,"sections":[]} x', "true", "[[]]", '{"version"}', "{'version':3}"])
        bump(hist, "is_sm_not_an_object")
        return "det.is_sm %s bad" % hx(doc)
    items = []
    bad = False
    seen = set()
    for _ in range(rng.choice([0, 1, 2, 2, 3, 4, 5, 8])):
        k = rng.choice(KEYS) if rng.chance(0.8) else rng.choice(OTHER)
        if k in KEYS and k in seen:
            if rng.chance(0.9):
                continue
            bad = True  # serde: duplicate field
        seen.add(k)
        if rng.chance(0.2):
            v = "null"
        elif k == "version":
            if rng.chance(0.8):
                v = rng.choice(["3", "0", "4294967295", "2"])
            else:
                v = rng.choice(['"3"', "-1", "3.5", "4294967296", "true", "[3]", "{}"])
                bad = True
        else:
            v = rng.choice(VALS)
        items.append((k, v))
    ws = rng.choice(["", "", " ", "\n  "])
    doc = ws + "{" + ("," + ws).join('"%s":%s%s' % (k, ws, v) for k, v in items) + "}" + ws
    if bad:
        bump(hist, "is_sm_illtyped_or_duplicate")
        return "det.is_sm %s bad" % hx(doc)
    bump(hist, "is_sm_objects")
    pres = ",".join("%s:%d" % (k, 0 if v == "null" else 1) for k, v in items) or "-"
    return "det.is_sm %s %s" % (hx(doc), pres)


# ------------------------------------------------------------------ texts

def assemble(lines_, eol, final):
    return eol.join(lines_) + (eol if final else "")


def rand_text(rng, hist):
    n = rng.small(8)
    parts = []
    for _ in range(n):
        r = rng.below(16)
        if r < 4:
            l = rng.choice(["var a=1;", "", "f(); // comment", "\u00e9=\"\u65e5\u672c\";", "//", "/* x */", "\t", "a\rb", "//# source", "x\x0by"])
            bump(hist, "line_code")
        elif r < 9:
            p = rng.choice([P_HASH, P_AT])
            l = p + "".join(rng.choice(WS[:1] + WS[2:] if True else WS) for _ in range(rng.below(3))).replace("\n", "") \
                + rng.choice(["a.map", "", "x y.map", "http://h/a.map?q=1#f", "\u00e9.map", "data:application/json;base64,e30=", "\u200bz", "z\ufeff", "\u180e", "=", P_HASH + "nested"]) \
                + "".join(rng.choice(WS) for _ in range(rng.below(3))).replace("\n", "")
            bump(hist, "line_ref_ws")
        elif r < 11:
            p = rng.choice([P_HASH, P_AT])
            l = p + rng.choice(NOT_WS) + rng.choice(["u", ""]) + rng.choice(NOT_WS + [""])
            bump(hist, "line_ref_notws")
        elif r < 13:
            p = rng.choice([P_HASH, P_AT])
            k = rng.below(len(p) + 1)
            l = rng.choice([p[:k], p[:k] + "x" + p[k + 1:], p[:k] + p[k + 1:], p.upper(), p.replace(" ", "  "), p.replace(" ", ""), p.replace("=", " ="), "/" + p, p[1:], "//! sourceMappingURL=a", "//#\tsourceMappingURL=a", "//@# sourceMappingURL=a"]) + rng.choice(["", "a.map"])
            bump(hist, "line_prefix_variant")
        elif r < 15 or rng.chance(0.9):
            l = rng.choice([" ", "\t", "\u00a0", "\u3000", "x", "/*", ";"]) + rng.choice([P_HASH, P_AT]) + "lookalike.map"
            bump(hist, "line_lookalike")
        else:
            l = "y" * rng.choice([100, 1000, 8191, 8192, 8193]) + rng.choice(["", P_HASH + "far.map"])
            bump(hist, "line_long")
        parts.append(l.replace("\n", ""))
    text = ""
    for i, l in enumerate(parts):
        text += l
        if i + 1 < len(parts) or rng.chance(0.5):
            text += rng.choice(["\n", "\n", "\r\n", "\r\n", "\r\r\n", "\n\r", "\n\n"])
    return text


def corpus():
    m = {"sources": ["a.js"], "names": ["x"], "toks": [(0, 0, 0, 0, 0, 0)], "file": None, "root": None, "contents": None, "ignore": None, "debug_id": None}
    c = canonical(m)
    out = [
        # F14 (fixed): the URL that to_data_url writes must be accepted by decode_data_url
        "det.dataurl %s %s %s %s" % (hx(c), hx(c), hx("var a=1;\n"), hx("\n")),
        "det.dataurl %s %s - -" % (hx(c), hx(c)),
        "det.decode %s %s" % (hx(PRE2 + b64(c.encode())), hx(c)),
        "det.decode %s %s" % (hx(PRE1 + b64(c.encode())), hx(c)),
        locate(""), locate("\n"), locate("\r\n"), locate(P_HASH), locate(P_AT + "\r\n"), locate(P_HASH[:-1]),
        locate("a\n" + P_HASH + " x.map \r"), locate("a\r" + P_HASH + "x.map"), locate(P_HASH + "\u2003\u00a0x\u3000\x85\n"),
        locate(P_HASH + "\u200bx\u200b\n"), locate(" " + P_HASH + "no\n" + P_AT + "yes"), locate(P_HASH + "first\n" + P_AT + "second\n"),
        "det.is_sm %s version:1,sources:1,mappings:1" % hx('{"version":3,"sources":[],"mappings":""}'),
        "det.is_sm %s sections:1" % hx('{"sections":[]}'),
        "det.is_sm %s version:1,sources:0,mappings:1" % hx('{"version":3,"sources":null,"mappings":""}'),
        "det.is_sm %s -" % hx("{}"),
    ]
    return out


def generate(tier, rng, hist):
    out = []
    # 1. exhaustive texts over the line pool
    sizes = [1, 2, 3] if tier == "quick" else [1, 2, 3, 4, 5]
    n_ex = 0
    for n in sizes:
        for combo in itertools.product(range(len(POOL)), repeat=n):
            for eol in ("\n", "\r\n"):
                for final in (True, False):
                    out.append(locate(assemble([POOL[i] for i in combo], eol, final)))
                    n_ex += 1
    bump(hist, "exhaustive_pool_texts", n_ex)
    if tier == "quick":
        for _ in range(1200):
            combo = [rng.below(len(POOL)) for _ in range(5)]
            out.append(locate(assemble([POOL[i] for i in combo], rng.choice(["\n", "\r\n"]), rng.chance(0.5))))
        bump(hist, "sampled_5_line_pool_texts", 1200)
    # 2. random texts
    for _ in range(2500 if tier == "quick" else 60000):
        out.append(locate(rand_text(rng, hist)))
    # every whitespace / look-alike character on either side of the URL
    for w in WS + NOT_WS:
        if w == "\n":
            continue
        for p in (P_HASH, P_AT):
            out.append(locate("a\n" + p + w + "u" + w + w + "\nb"))
            out.append(locate(p + "u" + w))
            out.append(locate(p + w))
    # 3. data URLs of maps, embedded
    m0 = rand_map(rng)
    for pre in PRES:
        for post in POSTS:
            out.append(dataurl_case(m0, rng, hist, pre, post))
    for _ in range(700 if tier == "quick" else 30000):
        out.append(dataurl_case(rand_map(rng, hist), rng, hist))
    # 4. foreign and malformed data URLs
    out += decode_cases(rng, hist, 600 if tier == "quick" else 20000)
    # 5. detection
    out += all_ser_cases(rng, hist, 2 if tier == "quick" else 40)
    for _ in range(500 if tier == "quick" else 10000):
        out.append(is_sm_case(rng, hist))
    return out
