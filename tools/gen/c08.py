"""C08 - index maps: section lookup and flattening describe the same mapping."""
from common import *
import itertools

PROP = "C08"
CONSTS = []
THEOREMS = {"SmVerif.Props.C08": ["SmVerif.C08." + t for t in (
    "c08_flatten_ok_iff", "c08_unresolved_err", "c08_flatten_tokens", "c08_flatten_tokens_wf", "c08_flatten_contents",
    "c08_flatten_ignore", "c08_flatten_sources", "c08_section_choice", "c08_agree", "c08_safe_flatten", "c08_safe_lookup", "c08_lookup_no_underflow")]}
TRUSTED = BASE_TRUST + [
    "model: lean/SmVerif/Model/Index.lean mirrors SourceMapIndex::flatten / lookup_token, DecodedMap::lookup_token (types.rs), the section sort of decode_index (decoder.rs) on top of Model/Builder.lean (builder.rs) and Model/Lookup.lean (greatest_lower_bound, utils.rs)",
    "serde_json and the crate's own writer/reader for mode j and for Hermes sections (a Hermes map can only be obtained by decoding); those maps are generated in the form the round trip (C01) leaves unchanged",
]
ASSUMPTIONS = [
    "slice::sort_unstable_by_key returns a sorted permutation and leaves an already sorted slice unchanged (ties across sections only arise outside the quantifier; the generator keeps positions distinct there)",
    "fewer than 2^32-1 tokens in total (ids are `len() as u32`; the `!0` sentinel is never a real id)",
]
RULE = ("idx.lookup / idx.flatten on index maps built through the public constructors (mode c) or sent through JSON (mode j): 0-5 sections, empty sections, sections starting mid-line, nested indexes up to depth 3, Hermes sections, "
        "unresolved sections, shared source names with differing contents, source roots, ignore lists, range tokens, ties at one position, offsets near u32::MAX (with and without overflow); "
        "queries before the first section, at every section boundary +-1 column / +-1 line, on a section's first line left and right of its column offset, on later lines, at every token +-1, at u32::MAX; "
        "a separate stream of overlapping / unsorted / equal-offset sections (outside the quantifier: model-vs-code only); exhaustive: 2 sections x <= 2 tokens each on a 3x3 grid x every second-section offset on the grid x all queries on a 6x6 grid (thorough; sampled in quick). "
        "non-trivial = some lookup finds a token / the flattened map has a token; distinct = distinct case line")
EXHAUSTIVE = {"quick": False, "thorough": True}
LIMIT_MS = 20000

NONE = 4294967295
SRC_POOL = ["a.js", "b.js", "src/c.js", "/abs/d.js", "http://x/e.js", "", "é.js"]
NAME_POOL = ["x", "y", "fn", "", "ü"]
CONT_POOL = ["", "A", "content b", "c\nd"]
ROOTS = [None, None, None, None, "r", "r/", "", "http://h/"]


def nontrivial(r):
    m = r["model"]
    if not m.startswith("ok "):
        return False
    if r["case"].startswith("idx.flatten"):
        return " T=. " not in m and "T=" in m
    return any(not e.startswith("_/") or not e.endswith("/_") for e in m[3:].split(",") if e != ".")


# ------------------------------------------------------------------ descriptions

def s_opt(s):
    return "~" if s is None else hx(s)


def s_list(xs, sep=","):
    return sep.join(xs) if xs else "."


def tok7(t):
    return "%d:%d:%d:%d:%d:%d:%d" % t


def render(d):
    """DMAP := R <map> | H <map> | I <file> SECTION* E"""
    if d["k"] in "RH":
        return " ".join([d["k"], s_opt(d["root"]), s_list([hx(s) for s in d["sources"]]), s_list([hx(s) for s in d["names"]]),
                         s_list([s_opt(c) for c in d["contents"]]), s_list([str(i) for i in d["ignore"]]), s_list([tok7(t) for t in d["toks"]], ";")])
    parts = ["I", s_opt(d["file"])]
    for (ol, oc, url, sub) in d["secs"]:
        if sub is None:
            parts += ["U", str(ol), str(oc), s_opt(url)]
        else:
            parts += ["S", str(ol), str(oc), s_opt(url), render(sub)]
    parts.append("E")
    return " ".join(parts)


def shift(p, ol, oc):
    return (p[0] + ol, p[1] + oc if p[0] == 0 else p[1])


def positions(d):
    """generated positions of the map's tokens (for an index: of its flattening), ordered"""
    if d["k"] in "RH":
        return sorted((t[0], t[1]) for t in d["toks"])
    out = []
    for (ol, oc, _, sub) in d["secs"]:
        if sub is not None:
            out += [shift(p, ol, oc) for p in positions(sub)]
    return sorted(out)


def flat_order(d):
    out = []
    for (ol, oc, _, sub) in d["secs"]:
        if sub is not None:
            out += [shift(p, ol, oc) for p in positions(sub)]
    return out


def max_local_line(d):
    if d["k"] in "RH":
        return max([t[0] for t in d["toks"]] + [0])
    return max([max_local_line(s[3]) for s in d["secs"] if s[3] is not None] + [0])


def has_kind(d, k):
    if d["k"] in "RH":
        return d["k"] == k
    return any(s[3] is not None and has_kind(s[3], k) for s in d["secs"])


def depth(d):
    if d["k"] in "RH":
        return 0
    return 1 + max([depth(s[3]) for s in d["secs"] if s[3] is not None] + [0])


# ------------------------------------------------------------------ plain maps

def gen_map(rng, canon, lines=3, cols=8, maxtok=None, kind=None, big=False):
    """a plain map with tokens in position order (ties allowed, kept in the given order).
    canon: the form a JSON round trip leaves unchanged (valid ids, bare source-less tokens, no
    consecutive exact duplicates)"""
    nsrc = rng.choice([0, 1, 1, 2, 2, 3])
    nn = rng.choice([0, 0, 1, 2, 3])
    sources = [rng.choice(SRC_POOL) for _ in range(nsrc)]
    names = [rng.choice(NAME_POOL) for _ in range(nn)]
    n = (rng.small(30) if rng.chance(0.6) else rng.range(2, 9)) if maxtok is None else rng.below(maxtok + 1)
    toks = []
    for _ in range(n):
        if toks and rng.chance(0.2):
            dl, dc = toks[rng.below(len(toks))][:2]
        else:
            dl, dc = rng.below(lines), rng.below(cols)
            if big and rng.chance(0.3):
                dl = rng.choice([0, 0, 1, 5, 6, 7])
                dc = rng.choice([0, 4, 5, 6, 100])
        r = 1 if rng.chance(0.2) else 0
        if nsrc == 0 or rng.chance(0.15):
            if canon:
                toks.append((dl, dc, 0, 0, NONE, NONE, r))
            else:
                toks.append((dl, dc, rng.below(4), rng.below(4), NONE, rng.below(nn) if nn and rng.chance(0.2) else NONE, r))
        else:
            src = rng.below(nsrc)
            nm = rng.below(nn) if nn and rng.chance(0.5) else NONE
            if not canon and rng.chance(0.03):
                src = nsrc + rng.below(2)  # id without a source: the token reports no source
            if not canon and rng.chance(0.03):
                nm = nn + rng.below(2)
            sc = rng.below(40)
            if big and rng.chance(0.2):
                sc = rng.choice([4294967290, 4294967295, 2147483648])
            toks.append((dl, dc, rng.below(40), sc, src, nm, r))
    toks.sort(key=lambda t: (t[0], t[1]))
    if canon:
        ded = []
        for t in toks:
            if not ded or ded[-1] != t:
                ded.append(t)
        toks = ded
    elif toks and len(set(t[:2] for t in toks)) == len(toks) and rng.chance(0.3):
        rng.shuffle(toks)  # no ties: any order is fine for SourceMap::new
    contents = []
    if nsrc and rng.chance(0.6):
        contents = [rng.choice(CONT_POOL) if rng.chance(0.6) else None for _ in range(nsrc)]
        if not canon and rng.chance(0.2):
            contents = contents[:rng.below(nsrc + 1)] if rng.chance(0.5) else contents + [rng.choice(CONT_POOL)]
    ignore = []
    if nsrc and rng.chance(0.35):
        ignore = sorted(set(rng.below(nsrc) for _ in range(rng.range(1, 2))))
        if not canon and rng.chance(0.1):
            ignore.append(rng.choice([nsrc, NONE]))
    root = rng.choice(ROOTS)
    if kind is None:
        kind = "H" if canon and rng.chance(0.2) else "R"
    return {"k": kind, "root": root, "sources": sources, "names": names, "contents": contents, "ignore": ignore, "toks": toks}


def step_after(rng, p, midline):
    """a position strictly after p"""
    if midline:
        return (p[0], p[1] + 1 + rng.below(4))
    return (p[0] + 1 + rng.below(3), rng.choice([0, 0, 0, rng.below(6)]))


def gen_index(rng, canon, level=0, allow_unres=False, hist=None, big_base=None):
    """a well-formed index: offsets strictly increasing, every section's tokens before the next offset"""
    nsec = rng.choice([0, 1, 1, 2, 2, 2, 3, 3, 4, 5]) if level == 0 else rng.choice([0, 1, 1, 2, 3])
    secs = []
    lb = None  # everything so far is at or before lb; the next offset must be strictly after it
    for _ in range(nsec):
        if lb is None:
            off = (0, 0) if rng.chance(0.5) else (rng.below(3), rng.below(5))
            if big_base is not None:
                off = big_base
        else:
            off = step_after(rng, lb, rng.chance(0.4))
        r = rng.below(100)
        if allow_unres and r < 15:
            sub = None
        elif level < 2 and r < 35:
            sub = gen_index(rng, canon, level + 1, allow_unres, hist)
        elif r < 45:
            sub = gen_map(rng, canon, maxtok=0)
        else:
            sub = gen_map(rng, canon, lines=rng.choice([1, 2, 3, 4]), cols=rng.choice([3, 8, 8, 30]))
        url = rng.choice([None, None, "u.map", ""])
        if canon and sub is None and url is None:
            pass
        secs.append((off[0], off[1], url, sub))
        end = off
        if sub is not None:
            ps = positions(sub)
            if ps:
                end = max(off, shift(ps[-1], off[0], off[1]))
        lb = end
    return {"k": "I", "file": rng.choice([None, None, "out.js"]), "secs": secs}


def queries_for(rng, d, cap=40):
    qs = set([(0, 0), (NONE, NONE)])

    def around(p):
        l, c = p
        for (dl, dc) in ((0, 0), (0, -1), (0, 1), (-1, 0), (1, 0), (1, -1), (0, 7), (-1, 1 << 20), (1, 1 << 20)):
            q = (l + dl, c + dc)
            if 0 <= q[0] <= NONE and 0 <= q[1] <= NONE:
                qs.add(q)

    def walk(d, f):
        # f maps a position in d's coordinates to the outermost coordinates
        for (ol, oc, _, sub) in d["secs"]:
            o = f((ol, oc))
            around(o)
            qs.add((o[0], 0))
            qs.add((o[0], o[1] // 2))
            if o[0] + 2 <= NONE:
                qs.add((o[0] + 2, 0))
            if sub is None:
                continue
            if sub["k"] in "RH":
                for t in sub["toks"][:8]:
                    p = f(shift((t[0], t[1]), ol, oc))
                    if p[0] <= NONE and p[1] <= NONE:
                        around(p)
            else:
                walk(sub, lambda p, ol=ol, oc=oc, f=f: f(shift(p, ol, oc)))

    walk(d, lambda p: p)
    qs = sorted(qs)
    rng.shuffle(qs)
    return qs[:cap]


def q_str(qs):
    return ",".join("%d:%d" % q for q in qs) if qs else "."


def pick_mode(rng, d, canon):
    if canon and max_local_line(d) < 5000 and rng.chance(0.5):
        return "j"
    return "c"


def decoded(d):
    """the index after a trip through JSON: decode_index orders the sections by offset (stable)"""
    if d["k"] in "RH":
        return d
    secs = [(ol, oc, url, None if sub is None else decoded(sub)) for (ol, oc, url, sub) in d["secs"]]
    secs.sort(key=lambda s: (s[0], s[1]))
    return dict(d, secs=secs)


def emit(out, rng, d, canon, hist, tag, mode=None):
    if mode is None:
        mode = pick_mode(rng, d, canon)
    if not canon and has_kind(d, "H"):
        # Hermes sections are decoded from JSON: only canonical maps survive unchanged
        return False
    # where the flattened list needs sorting, ties would make the (unstable) sort's result ambiguous
    if mode == "j" and not no_cross_ties(decoded(d)):
        mode = "c"
    if mode == "c" and not no_cross_ties(d):
        bump(hist, "%s_skipped_ties_under_unstable_sort" % tag)
        return False
    body = render(d)
    out.append("idx.lookup %s %s %s" % (mode, q_str(queries_for(rng, d)), body))
    if rng.chance(0.5):
        out.append("idx.flatten %s %s" % (mode, body))
    bump(hist, "%s_mode_%s" % (tag, mode))
    bump(hist, "%s_sections_%d" % (tag, len(d["secs"])))
    bump(hist, "%s_depth_%d" % (tag, depth(d)))
    if has_kind(d, "H"):
        bump(hist, "%s_with_hermes" % tag)
    if any(s[3] is None for s in d["secs"]):
        bump(hist, "%s_with_unresolved" % tag)
    if any(s[1] > 0 for s in d["secs"]):
        bump(hist, "%s_midline_start" % tag)
    if any(s[3] is not None and not positions(s[3]) for s in d["secs"]):
        bump(hist, "%s_empty_section" % tag)
    return True


def no_cross_ties(d):
    """outside the quantifier the flattened list may need sorting; keep positions distinct then so
    that the unstable sort has one possible result (recursively)"""
    for s in d["secs"]:
        if s[3] is not None and s[3]["k"] == "I" and not no_cross_ties(s[3]):
            return False
    fo = flat_order(d)
    return fo == sorted(fo) or len(set(fo)) == len(fo)


def plain(toks, sources=("a.js",), names=(), contents=(), ignore=(), root=None, kind="R"):
    return {"k": kind, "root": root, "sources": list(sources), "names": list(names), "contents": list(contents), "ignore": list(ignore), "toks": list(toks)}


def index(secs, file=None):
    return {"k": "I", "file": file, "secs": list(secs)}


def corpus():
    out = []
    a = plain([(0, 0, 1, 2, 0, 0, 0), (0, 5, 3, 4, 1, NONE, 1)], sources=("a.js", "b.js"), names=("n",))
    b = plain([(0, 2, 0, 0, 0, NONE, 0), (1, 1, 9, 9, 0, NONE, 0)], sources=("b.js",), contents=("xx",), ignore=(0,))
    ix = index([(0, 0, None, a), (1, 3, None, b)])
    qs = "0:0,0:4,0:7,1:2,1:3,1:5,1:6,2:0,2:1,5:5,4294967295:4294967295"
    out.append("idx.flatten c " + render(ix))
    out.append("idx.lookup c %s %s" % (qs, render(ix)))
    out.append("idx.lookup j %s %s" % (qs, render(ix)))
    # nested, Hermes, given out of order (mode j orders the sections)
    h = dict(b, k="H")
    nested = index([(1, 3, None, h), (0, 0, None, index([(0, 0, "u", a)]))], file="f")
    out.append("idx.flatten j " + render(nested))
    out.append("idx.lookup j %s %s" % (qs, render(nested)))
    out.append("idx.lookup c %s %s" % (qs, render(nested)))
    # unresolved section: flatten is an error, lookups skip it
    un = index([(0, 0, None, a), (3, 0, "uu", None)])
    out.append("idx.flatten c " + render(un))
    out.append("idx.lookup c 0:0,2:9,3:0,4:4 " + render(un))
    # F7 (fixed): offset additions at the u32 boundary
    out.append("idx.flatten c " + render(index([(1, NONE, None, plain([(0, 1, 1, 2, 0, NONE, 0)]))])))
    out.append("idx.flatten c " + render(index([(NONE, 0, None, plain([(1, 1, 1, 2, 0, NONE, 0)]))])))
    out.append("idx.flatten c " + render(index([(NONE, NONE - 1, None, plain([(0, 1, 1, 2, 0, NONE, 0)]))])))
    out.append("idx.lookup c 0:0,4294967295:0,4294967295:4294967294,4294967295:4294967295 " + render(index([(NONE, NONE - 1, None, plain([(0, 1, 1, 2, 0, NONE, 1)]))])))
    # the same source name in two sections: first contents present wins; ignore by name
    c1 = plain([(0, 0, 0, 0, 0, NONE, 0)], sources=("s",), contents=(None,))
    c2 = plain([(0, 0, 0, 0, 0, NONE, 0)], sources=("s",), contents=("second",), ignore=(0,))
    c3 = plain([(0, 0, 0, 0, 0, NONE, 0)], sources=("s",), contents=("third",))
    out.append("idx.flatten c " + render(index([(0, 0, None, c1), (1, 0, None, c2), (2, 0, None, c3)])))
    # empty index, empty sections
    out.append("idx.flatten c " + render(index([])))
    out.append("idx.lookup c 0:0,1:1 " + render(index([])))
    out.append("idx.lookup c 0:0,1:1,2:0 " + render(index([(1, 1, None, plain([]))])))
    return out


def generate(tier, rng, hist):
    out = []
    quick = tier == "quick"
    # --- inside the quantifier
    N = 900 if quick else 110000
    for _ in range(N):
        canon = rng.chance(0.5)
        d = gen_index(rng, canon, hist=hist)
        emit(out, rng, d, canon, hist, "wf")
    # --- with unresolved sections (flatten must fail, lookups skip them)
    for _ in range(150 if quick else 15000):
        canon = rng.chance(0.5)
        d = gen_index(rng, canon, allow_unres=True, hist=hist)
        emit(out, rng, d, canon, hist, "unres")
    # --- offsets near u32::MAX, with and without overflow
    for _ in range(150 if quick else 12000):
        base = (rng.choice([NONE - 7, NONE - 6, NONE - 1, NONE, 2147483647, 3000000000]), rng.choice([0, 3, NONE - 6, NONE - 5, NONE - 1, NONE, 2147483648]))
        secs = []
        if rng.chance(0.5):
            secs.append((0, rng.below(3), None, gen_map(rng, False, lines=2, cols=5, kind="R")))
        m = gen_map(rng, False, lines=8, cols=8, kind="R", big=True)
        secs.append((base[0], base[1], None, m))
        d = index(secs)
        ok = all(p[0] + base[0] <= NONE and (p[0] != 0 or p[1] + base[1] <= NONE) for p in positions(m))
        bump(hist, "big_offsets_%s" % ("fit" if ok else "overflow"))
        qs = queries_for(rng, d, cap=30)
        out.append("idx.lookup c %s %s" % (q_str(qs), render(d)))
        out.append("idx.flatten c " + render(d))
    # --- outside the quantifier: overlapping / unsorted / equal offsets
    n_out = 0
    want = 300 if quick else 30000
    tries = 0
    while n_out < want and tries < 20 * want:
        tries += 1
        canon = rng.chance(0.4)
        d = gen_index(rng, canon, hist=hist)
        if len(d["secs"]) < 2:
            continue
        secs = list(d["secs"])
        how = rng.below(4)
        if how == 0:
            rng.shuffle(secs)
        elif how == 1:
            i = rng.below(len(secs) - 1)
            secs[i + 1] = (secs[i][0], secs[i][1]) + secs[i + 1][2:]  # equal offsets
        elif how == 2:
            i = 1 + rng.below(len(secs) - 1)
            secs[i] = (max(0, secs[i][0] - rng.range(0, 2)), max(0, secs[i][1] - rng.range(1, 6))) + secs[i][2:]  # pulled back into the previous one
        else:
            i = rng.below(len(secs))
            j = rng.below(len(secs))
            secs[i], secs[j] = secs[j], secs[i]
        d = dict(d, secs=secs)
        if emit(out, rng, d, canon, hist, "outside"):
            n_out += 1
    # --- exhaustive small scope: 2 sections x <= 2 tokens on a 3x3 grid x all queries
    grid = [(l, c) for l in range(3) for c in range(3)]
    sets = [()] + [(p,) for p in grid] + list(itertools.combinations_with_replacement(grid, 2))
    qgrid = q_str([(l, c) for l in range(6) for c in range(6)])
    k = 0
    for t1 in sets:
        for off in grid:
            for t2 in sets:
                if quick and not rng.chance(0.03):
                    continue
                m1 = plain([(p[0], p[1], 1, i, 0, NONE, 0) for i, p in enumerate(t1)], sources=("a",))
                m2 = plain([(p[0], p[1], 2, i, 0, NONE, i % 2) for i, p in enumerate(t2)], sources=("b",))
                d = index([(0, 0, None, m1), (off[0], off[1], None, m2)])
                if not no_cross_ties(d):
                    bump(hist, "grid_skipped_cross_ties")
                    continue
                out.append("idx.lookup c %s %s" % (qgrid, render(d)))
                k += 1
    bump(hist, "grid_cases", k)
    return out
