"""C10 - adjust_mappings composes the two maps interval by interval."""
from common import *
from mapgen import *
import itertools

PROP = "C10"
CONSTS = []
THEOREMS = {"SmVerif.Props.C10": ["SmVerif.C10." + t for t in (
    "c10_untouched", "c10_sorted", "c10_safe", "c10_exact", "c10_sound", "c10_eq_spec", "c10_eq_spec_canonical", "c10_eq_spec_exact",
    "c10_complete_once", "c10_spec_no_truncation", "c10_dup_counterexample", "c10_f16_original_dup", "c10_f16_adjustment_dup", "c10_panic_witness")]}
TRUSTED = BASE_TRUST + ["model: lean/SmVerif/Model/Adjust.lean mirrors SourceMap::adjust_mappings (types.rs: Range/create_ranges, the 'outer sweep, i32 displacement arithmetic with overflow checks, final sort); "
                        "specification composeSpec in the same file (stretches / pairwise overlaps, no sweep)"]
ASSUMPTIONS = ["slice::sort_unstable_by_key returns a sorted permutation, is stable up to 20 elements (insertion sort) and leaves a sorted slice unchanged: token lists longer than 20 with tied keys are handed over already ordered",
               "coordinates >= 2^30 are outside the property's quantifier (small and medium grids): there only impl = model is compared (wf = 0)"]
RULE = ("adj.run: exhaustive over all multisets of <= 3 original positions x all multisets of <= 3 adjustment positions on a 2x4 grid x 4 displacement patterns (identity, +1 line/+3 columns, order-reversing, seeded random with collisions) in thorough (sampled in quick); "
        "random up to 30x30 tokens on a 6x40 grid with adjustment tokens listed in any order, duplicated positions on either side, multi-line displacement, identity adjustment, adjustment tokens placed at original positions +-1; coordinates around 2^30, 2^31 and u32::MAX (model vs code only). "
        "the histogram tags duplicated positions per side (dup_*, grid_dup_*), the stretch relations met (rel_adj_splits_orig, rel_adj_swallows_orig, rel_adj_precedes, rel_adj_follows, rel_empty_stretch ...), multi-line displacement, identity adjustment, empty and single-token maps. "
        "Duplicated keys deviate from the specification (open finding F16, class F16-empty-stretch: input has a duplicated key, impl = model, impl = spec + extra tokens carrying the data of an original token); every other impl-vs-spec or impl-vs-model difference is a violation. "
        "non-trivial = the result holds at least one token; distinct = distinct case line")
EXHAUSTIVE = {"quick": False, "thorough": True}
GRID = [(l, c) for l in range(2) for c in range(4)]


def nontrivial(r):
    return r["model"].startswith("ok ") and not r["model"].startswith("ok - ")


def _parse(s):
    return [] if s == "-" else [tuple(int(x) for x in t.split(":")) for t in s.split(";")]


def finding_class(r, kind):
    """F16 (known finding, open): the only admitted impl-vs-spec deviation.  Narrow on purpose: the input has
    a duplicated key (two original tokens at one generated position, or two adjustment tokens at one original
    position), the implementation does exactly what the validated model says, and the implementation's tokens
    are the specification's plus extra ones (nothing missing, nothing different)."""
    if kind != "spec" or r["impl"] != r["model"]:
        return None
    t = r["case"].split(" ")
    if len(t) != 3 or t[0] != "adj.run":
        return None
    o, a = _parse(t[1]), _parse(t[2])
    if not (has_dup([(x[0], x[1]) for x in o]) or has_dup([(x[2], x[3]) for x in a])):
        return None
    i, s = r["impl"].split(" "), r["spec"].split(" ")
    if len(i) != 3 or len(s) != 3 or i[0] != "ok" or s[0] != "ok" or i[2] != s[2]:
        return None
    from collections import Counter
    ci, cs = Counter(_parse(i[1])), Counter(_parse(s[1]))
    if any(cs[k] > ci[k] for k in cs) or sum(ci.values()) <= sum(cs.values()):
        return None
    # every extra token carries the data of an original token; when only the original side has duplicates, of
    # one whose stretch is empty (a later token of the map sits at the same generated position)
    extra = ci - cs
    data = lambda x: x[2:]
    if has_dup([(x[2], x[3]) for x in a]):
        allowed = set(data(x) for x in o)
    else:
        allowed = set(data(x) for k, x in enumerate(o) if any((y[0], y[1]) == (x[0], x[1]) for y in o[k + 1:]))
    if any(data(x) not in allowed for x in extra):
        return None
    return "F16-empty-stretch"


def orig_tok(i, p, rng=None):
    """an original token at generated position p whose data identifies it"""
    src = i % 3 if (rng is None or not rng.chance(0.15)) else NONE
    name = (i % 4) if (src != NONE and i % 4 < 3) else NONE
    r = 1 if (rng is not None and rng.chance(0.1)) else 0
    return (p[0], p[1], i + 1, 7 * i + 2, src, name, r)


def adj_tok(src, dst, sourceless=False):
    # a source-less adjustment token is an adjustment token like any other: its original position bounds the stretch of
    # the token before it and its own stretch is moved by its own displacement
    return (dst[0], dst[1], src[0], src[1], NONE if sourceless else 0, NONE, 0)


def case(o, a):
    return "adj.run %s %s" % (toks(o), toks(a))


def has_dup(ps):
    return len(set(ps)) != len(ps)


def corpus():
    o3 = [orig_tok(0, (0, 5)), orig_tok(1, (0, 5)), orig_tok(2, (0, 9))]
    r = [
        case([], []), case(o3, []), case([], [adj_tok((0, 0), (0, 0))]),
        # the worked example of the doc comment
        case([(8, 28, 102, 35, 0, NONE, 0), (8, 40, 102, 50, 0, NONE, 0), (9, 10, 103, 12, 0, NONE, 0)], [(17, 23, 8, 30, 0, NONE, 0)]),
        # F16 probes: duplicated original positions under a covering adjustment / at its start
        case(o3, [adj_tok((0, 0), (0, 0))]), case(o3, [adj_tok((0, 5), (0, 5))]),
        # duplicated adjustment positions inside / at the start of an original stretch
        case([orig_tok(0, (0, 2))], [adj_tok((0, 4), (1, 0)), adj_tok((0, 4), (2, 0))]),
        case([orig_tok(0, (0, 4))], [adj_tok((0, 4), (1, 0)), adj_tok((0, 4), (2, 0))]),
        # a column past 2^17 on one line followed by a token on the next line (packed sort keys; seed C10q)
        case([orig_tok(0, (0, 0)), orig_tok(1, (0, 200000)), orig_tok(2, (1, 0)), orig_tok(3, (1, 5))], [adj_tok((0, 0), (1, 0)), adj_tok((1, 0), (2, 0))]),
        # i32 boundaries
        case([orig_tok(0, (0, 5))], [adj_tok((0, 0), (0, 4294967294))]),
        case([orig_tok(0, (0, 2147483653))], [adj_tok((0, 2147483648), (0, 0))]),
        case([orig_tok(0, (0, 5))], [adj_tok((0, 0), (0, 2147483648))]),
        case([orig_tok(0, (0, 4294967295))], [adj_tok((0, 0), (0, 0))]),
    ]
    return r


def perm_patterns(srcs, rng):
    """dst positions for the adjustment tokens at (sorted) src positions"""
    n = len(srcs)
    return [
        ("ident", list(srcs)),
        ("shift", [(l + 1, c + 3) for (l, c) in srcs]),
        ("reverse", [(5 - i // 2, 10 * (n - i)) for i in range(n)]),
        ("random", [(rng.below(3), rng.below(6)) for _ in range(n)]),
    ]


def py_stretches(keys):
    """generator-side stretches (for histogram tags only): [start, end) per token in (key, index) order"""
    order = sorted(range(len(keys)), key=lambda i: (keys[i], i))
    out = []
    for k, i in enumerate(order):
        s = keys[i]
        nxt = keys[order[k + 1]] if k + 1 < len(order) else (NONE, NONE)
        out.append((s, min(nxt, (s[0], NONE))))
    return out


def relation_tags(o, a):
    """which of the situations named in the property's quantifier a case contains"""
    tags = set()
    so = py_stretches([(t[0], t[1]) for t in o])
    sa = py_stretches([(t[2], t[3]) for t in a])
    for (os_, oe) in so[:12]:
        for (as_, ae) in sa[:12]:
            if os_ == oe or as_ == ae:
                tags.add("rel_empty_stretch")
                continue
            if ae <= os_:
                tags.add("rel_adj_precedes" if ae[0] == os_[0] else "rel_adj_on_earlier_line")
            elif oe <= as_:
                tags.add("rel_adj_follows" if oe[0] == as_[0] else "rel_adj_on_later_line")
            elif os_ < as_ and ae < oe:
                tags.add("rel_adj_splits_orig_twice")
            elif os_ < as_ < oe:
                tags.add("rel_adj_splits_orig")
            elif as_ <= os_ and oe <= ae:
                tags.add("rel_adj_swallows_orig")
            else:
                tags.add("rel_adj_covers_orig_start")
    return tags


def rand_positions(rng, n, lines, cols, p_dup):
    ps = []
    for _ in range(n):
        if ps and rng.chance(p_dup):
            ps.append(ps[rng.below(len(ps))])
        else:
            ps.append((rng.below(lines), rng.below(cols)))
    return ps


def rand_case(rng, hist, big=False):
    lines, cols = rng.choice([(1, 8), (2, 12), (6, 40), (6, 40)])
    no, na = rng.small(30), rng.small(30)
    # empty maps are covered by the grid and a tenth of the random cases; otherwise at least one token a side
    if no == 0 and rng.chance(0.9):
        no = rng.range(1, 6)
    if na == 0 and rng.chance(0.9):
        na = rng.range(1, 6)
    pdo = rng.choice([0.0, 0.0, 0.15, 0.4])
    pda = rng.choice([0.0, 0.0, 0.15, 0.4])
    if big:
        vals = [0, 1, 7, (1 << 30) - 1, 1 << 30, (1 << 31) - 1, 1 << 31, (1 << 31) + 5, 3000000000, (1 << 32) - 2, (1 << 32) - 1]
        pick = lambda: (rng.choice([0, 0, 1, rng.choice(vals)]), rng.choice(vals) if rng.chance(0.6) else rng.below(12))
        ops = [pick() for _ in range(no)]
        asrc = [pick() for _ in range(na)]
        adst = [pick() for _ in range(na)]
    else:
        ops = rand_positions(rng, no, lines, cols, pdo)
        mode = rng.below(10)
        if mode < 2 and ops:
            # adjustment tokens at / next to original positions
            asrc = []
            for _ in range(na):
                p = ops[rng.below(len(ops))]
                asrc.append((p[0], max(0, p[1] + rng.range(-1, 1))))
        else:
            asrc = rand_positions(rng, na, lines, cols, pda)
        kind = rng.below(10)
        if kind < 2:
            adst = list(asrc)
            bump(hist, "identity_adjustment")
        elif kind < 4:
            dl, dc = rng.below(4), rng.below(9)
            adst = [(l + dl, c + dc) for (l, c) in asrc]
            bump(hist, "uniform_shift" + ("_multiline" if dl else ""))
        elif kind < 7:
            # monotone: later original positions map to later generated positions
            adst = sorted(rand_positions(rng, len(asrc), lines + 2, cols + 10, 0.1))
            order = sorted(range(len(asrc)), key=lambda i: asrc[i])
            d2 = [None] * len(asrc)
            for k, i in enumerate(order):
                d2[i] = adst[k]
            adst = d2
            bump(hist, "monotone_adjustment")
        else:
            adst = rand_positions(rng, len(asrc), lines + 2, cols + 10, 0.1)
            bump(hist, "arbitrary_adjustment")
    if not big and rng.chance(0.12):
        # wide columns (minified lines): the same configuration with every column scaled past 2^16 / 2^17, so that orderings
        # that compare lines and columns through a packed or narrowed key disagree with the tuple order (seed C10q)
        k = rng.choice([6554, 40000, 70000])
        ops = [(l, c * k) for (l, c) in ops]
        asrc = [(l, c * k) for (l, c) in asrc]
        adst = [(l, c * k) for (l, c) in adst]
        bump(hist, "wide_columns")
    o = [orig_tok(i, p, rng) for i, p in enumerate(ops)]
    sl = rng.chance(0.25)
    a = [adj_tok(s, d, sourceless=(sl and rng.chance(0.4))) for s, d in zip(asrc, adst)]
    if sl:
        bump(hist, "adjustment_with_sourceless_tokens")
    rng.shuffle(a)
    # sort_unstable is only modelled for <= 20 elements or already ordered input when keys tie
    if len(o) > 20 and has_dup(ops):
        o.sort(key=lambda t: (t[0], t[1]))
    if len(a) > 20 and has_dup([(t[2], t[3]) for t in a]):
        ss = sorted((t[2], t[3]) for t in a)
        dd = sorted((t[0], t[1]) for t in a)
        a = [adj_tok(s, d) for s, d in zip(ss, dd)]
        bump(hist, "long_tied_adjustment_made_monotone")
    if has_dup(ops):
        bump(hist, "dup_original_positions")
    if has_dup([(t[2], t[3]) for t in a]):
        bump(hist, "dup_adjustment_positions")
    if any(t[0] != t[2] for t in a):
        bump(hist, "multi_line_displacement")
    if not big:
        for tg in relation_tags(o, a):
            bump(hist, tg)
        if not o or not a:
            bump(hist, "empty_map")
        if len(o) == 1 or len(a) == 1:
            bump(hist, "single_token_map")
    bump(hist, ("big_" if big else "rand_") + "no_%02d_na_%02d" % (min(no, 30) // 5 * 5, min(na, 30) // 5 * 5))
    return case(o, a)


def generate(tier, rng, hist):
    out = []
    multisets = []
    for n in range(0, 4):
        multisets += list(itertools.combinations_with_replacement(GRID, n))
    keep = 1.0 if tier == "thorough" else 0.035
    for ops in multisets:
        o = [orig_tok(i, p) for i, p in enumerate(ops)]
        for srcs in multisets:
            for (pname, dsts) in perm_patterns(srcs, rng):
                if keep < 1.0 and not rng.chance(keep):
                    continue
                a = [adj_tok(s, d) for s, d in zip(srcs, dsts)]
                if pname == "random":
                    rng.shuffle(a)
                out.append(case(o, a))
                bump(hist, "grid_" + pname)
                if has_dup(ops):
                    bump(hist, "grid_dup_original")
                if has_dup(srcs):
                    bump(hist, "grid_dup_adjustment")
    N = 2500 if tier == "quick" else 250000
    for _ in range(N):
        out.append(rand_case(rng, hist))
    for _ in range(N // 8):
        out.append(rand_case(rng, hist, big=True))
    return out
