"""C07 - range mappings survive serialisation and shift lookups inside the range."""
from common import *
from mapgen import *

PROP = "C07"
CONSTS = []
THEOREMS = {"SmVerif.Props.C04": ["SmVerif.C04.c07_lookup_same_line", "SmVerif.C04.c07_lookup_other", "SmVerif.C04.c04_lookup_safe"],
            "SmVerif.Props.C01": ["SmVerif.C01.c07_flags_roundtrip", "SmVerif.C01.c07_rmi_codec", "SmVerif.C01.c01_mappings_roundtrip"]}
TRUSTED = BASE_TRUST + ["model: encode_rmi/serialize_range_mappings (encoder.rs), decode_rmi + range bit lookup (decoder.rs), lookup_token (types.rs); bitvec Lsb0 load/store_le on a little-endian target assumed"]
ASSUMPTIONS = ["token lists are handed to SourceMap::new already ordered by generated position whenever two tokens share a position (sort_unstable leaves a sorted slice unchanged)"]
RULE = ("every subset of range flags on lines of <= 6 tokens (exhaustive in thorough, sampled in quick), lines of up to 40 tokens with the flag first/last/at 15,16,17,31,32, "
        "1-4 lines with empty lines between, exact duplicates before range tokens; ops map.rt, map.enc and map.lookup with queries on the token's line, after it, on following lines. "
        "non-trivial = at least one range token; distinct = distinct case line")
EXHAUSTIVE = {"quick": False, "thorough": True}


def nontrivial(r):
    import re
    return bool(re.search(r":1(;|$| )", r["case"]))


def line_tokens(dl, n, flags, rng, dup_at=None):
    ts = []
    col = 0
    for i in range(n):
        col += rng.range(1, 5)
        t = (dl, col, dl, col + 1, 0, NONE, 1 if i in flags else 0)
        ts.append(t)
        if dup_at is not None and i == dup_at:
            ts.append(t)
    return ts


def corpus():
    r = []
    # F3, F4, F5, F6 witnesses (fixed)
    r.append("map.rt 1 0 " + toks([(0, 0, 0, 0, 0, NONE, 0), (1, 0, 1, 0, 0, NONE, 1)]))
    r.append("map.enc 1 0 " + toks([(0, i, 0, i, 0, NONE, 1 if i == 16 else 0) for i in range(17)]))
    r.append("map.rt 1 0 " + toks([(0, 0, 0, 0, 0, NONE, 0), (0, 0, 0, 0, 0, NONE, 0), (0, 5, 0, 5, 0, NONE, 1), (0, 9, 0, 9, 0, NONE, 0)]))
    r.append("map.lookup " + toks([(0, 10, 0, 7, 0, NONE, 1)]) + " 1:3,0:10,0:11,0:9,4294967295:4294967295,0:4294967295")
    r.append("map.lookup " + toks([(0, 10, 0, 4294967290, 0, NONE, 1)]) + " 0:10,0:15,0:16,0:4294967295")
    return r


def queries(ts, rng):
    qs = set()
    for t in ts[:12]:
        dl, dc = t[0], t[1]
        for q in ((dl, dc), (dl, dc + 1), (dl, dc + 7), (dl, max(dc - 1, 0)), (dl + 1, 0), (dl + 1, max(dc - 1, 0)), (dl + 2, dc + 3), (dl, 4294967295)):
            qs.add(q)
    qs.add((0, 0))
    qs = sorted(qs)
    rng.shuffle(qs)
    return ",".join("%d:%d" % q for q in qs[:24])


def generate(tier, rng, hist):
    out = []
    # every subset of flags on one line of n <= 6 tokens, placed on line 0 or after a gap
    maxn = 6
    for n in range(1, maxn + 1):
        subsets = range(1 << n)
        for mask in subsets:
            if tier == "quick" and n >= 5 and rng.chance(0.7):
                continue
            flags = {i for i in range(n) if mask >> i & 1}
            pre = [] if rng.chance(0.5) else line_tokens(0, rng.range(1, 3), set(), rng)
            dl = 0 if not pre else rng.choice([1, 2, 3])
            ts = pre + line_tokens(dl, n, flags, rng)
            out.append("map.rt 1 0 " + toks(ts))
            bump(hist, "subset_n%d" % n)
    # long lines with the flag at interesting indices
    N = 300 if tier == "quick" else 6000
    for _ in range(N):
        nlines = rng.range(1, 4)
        ts = []
        dl = 0
        for _l in range(nlines):
            n = rng.choice([1, 2, 7, 15, 16, 17, 18, 31, 32, 33, 40])
            cand = [0, n - 1, 15, 16, 17, 31, 32, 5, 6, 11, 12]
            flags = {c for c in cand if c < n and rng.chance(0.3)}
            dup = rng.below(n) if rng.chance(0.3) else None
            ts += line_tokens(dl, n, flags, rng, dup_at=dup)
            dl += rng.choice([1, 1, 2, 5])
            bump(hist, "long_line_n%d" % n)
        op = rng.choice(["map.rt", "map.rt", "map.enc"])
        out.append("%s 1 0 %s" % (op, toks(ts)))
        if rng.chance(0.5):
            out.append("map.lookup %s %s" % (toks(ts), queries(ts, rng)))
    # random small maps with flags, duplicates, source-less range tokens
    M = 1500 if tier == "quick" else 60000
    for _ in range(M):
        nsrc = rng.choice([1, 2])
        nn = rng.choice([0, 2])
        ts = rand_tokens(rng, nsrc, nn, rng.small(20), lines=rng.choice([1, 2, 4]), cols=10, p_range=0.3)
        ts.sort(key=lambda t: (t[0], t[1]))
        bump(hist, "rand_ntok_%02d" % len(ts))
        out.append("%s %d %d %s" % (rng.choice(["map.rt", "map.enc"]), nsrc, nn, toks(ts)))
        if ts:
            out.append("map.lookup %s %s" % (toks(ts), queries(ts, rng)))
    # coordinates around 2^31 / 2^32-1: deltas that need 33 bits
    for _ in range(300 if tier == "quick" else 20000):
        nsrc, nn = rng.choice([1, 3]), rng.choice([0, 2])
        ts = big_tokens(rng, nsrc, nn, rng.range(1, 8))
        bump(hist, "big_coordinates")
        out.append("%s %d %d %s" % (rng.choice(["map.rt", "map.enc"]), nsrc, nn, toks(ts)))
    return out
