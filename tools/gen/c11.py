"""C11 - VLQ encoding and decoding are exact inverses and match the standard."""
from common import *

PROP = "C11"
CONSTS = ["B64_CHARS", "B64"]
THEOREMS = {"SmVerif.Props.C11": [
    "SmVerif.C11.c11_roundtrip", "SmVerif.C11.c11_canonical", "SmVerif.C11.c11_u32_diffs",
    "SmVerif.C11.c11_agrees_standard", "SmVerif.C11.c11_err_unterminated", "SmVerif.C11.c11_err_empty",
    "SmVerif.C11.c11_err_too_long", "SmVerif.C11.c11_table_chars", "SmVerif.C11.c11_table_foreign"],
    # the error theorems conclude "some error": together with these it is never a (modelled) panic
    "SmVerif.Props.C05": ["SmVerif.C05.c05_parseVlq_safe", "SmVerif.C05.c05_parse_nonempty"]}
TRUSTED = BASE_TRUST + ["model: lean/SmVerif/Model/Vlq.lean mirrors parse_vlq_segment_into / encode_vlq (vlq.rs) with i64 truncation at the 13th digit"]
ASSUMPTIONS = ["i64 arithmetic of rustc/LLVM as documented (wrapping shl, arithmetic shr)", "encode_vlq is only defined for |n| < 2^62 (it loops forever beyond; outside the property)"]
RULE = ("vlq.dec: every base64 string of length <= 2 plus a 64x22x13 sample of length 3 (quick) / every string of length <= 4 (thorough; <= 3 when the quick command widens), all 256 single bytes, random longer strings incl. 13/14-digit runs and foreign bytes; "
        "vlq.enc: all 2^k, 2^k+-1 up to 2^62, random lists; vlq.range: checksummed exhaustive round trip over an integer window (+-2^22 quick, +-2^24 widened, +-2^29 thorough). "
        "non-trivial = the model result is ok with a non-zero value, or an error; distinct = distinct case line")
EXHAUSTIVE = {"quick": False, "thorough": True}
LIMIT_MS = 600000


def nontrivial(r):
    m = r["model"]
    return m.startswith("err") or (m.startswith("ok") and any(ch in m for ch in "123456789"))


def corpus():
    return [
        "vlq.dec " + hx("A!A"),  # F1 witness (fixed): foreign byte
        "vlq.dec " + hx("AéA"),
        "vlq.dec " + hx("A\u0141A"), "vlq.dec " + hx("\u0167"), "vlq.dec " + hx("AAA\u4e41"),   # code points whose low byte is a base64 digit
        "vlq.dec " + hx("0" * 14),  # test_overflow
        "vlq.dec " + hx("g" * 13),
        "vlq.dec " + hx("g" * 12 + "A"),
        "vlq.dec " + hx("/" * 12 + "H"),  # largest 63-bit value
        "vlq.dec " + hx("/" * 12 + "I"),  # 13th digit overflows i64 (outside fits63)
        "vlq.dec " + hx("/" * 12 + "P"),
        "vlq.dec " + hx("/" * 12 + "f"),
        "vlq.enc 4611686018427387903,-4611686018427387903",
        "vlq.enc 4611686018427387904",
    ]


def generate(tier, rng, hist):
    out = []
    # all single bytes (valid utf-8 only goes through &str: bytes >= 0x80 are sent as 2-byte chars)
    for b in range(128):
        out.append("vlq.dec %02x" % b)
    for cp in range(0x80, 0x100):
        out.append("vlq.dec " + hx(chr(cp)))
    bump(hist, "single_bytes", 256)
    # exhaustive short strings over the alphabet
    widened = globals().get("WIDENED", False)   # thorough generators run inside a quick command (source anchors changed)
    L = 3 if (tier == "quick" or widened) else 4
    def rec(prefix, depth):
        if depth == 0:
            return
        for c in B64:
            s = prefix + c
            out.append("vlq.dec " + hx(s))
            rec(s, depth - 1)
    if tier == "quick":
        rec("", 2)
        # length 3: all with a sampled stride to stay quick, full in thorough
        for a in B64:
            for b in B64[::3]:
                for c in B64[::5]:
                    out.append("vlq.dec " + hx(a + b + c))
        bump(hist, "exhaustive_len<=2_plus_len3_sampled", 1)
    else:
        rec("", L)
        bump(hist, "exhaustive_len<=%d" % L, 1)
    # random longer strings, biased towards long digit runs
    n = 20000 if tier == "quick" else 300000
    for _ in range(n):
        k = rng.choice([1, 2, 3, 5, 8, 12, 13, 14, 15, 20])
        s = ""
        for _ in range(rng.range(1, 4)):
            run = rng.range(0, k)
            s += "".join(B64[32 + rng.below(32)] for _ in range(run))
            if rng.chance(0.85):
                s += B64[rng.below(32)]
        if rng.chance(0.05):
            pos = rng.below(len(s) + 1)
            s = s[:pos] + rng.choice(["!", "=", " ", ",", ";", "é", "\x7f", "-", "_", "\u0141", "\u0167", "\u4e41"]) + s[pos:]
            bump(hist, "foreign_byte")
        bump(hist, "rand_len_%02d" % min(len(s), 40))
        out.append("vlq.dec " + hx(s))
    # encoder: powers of two and neighbours, random lists
    for k in range(0, 63):
        for d in (-1, 0, 1):
            v = (1 << k) + d
            if abs(v) < (1 << 62):
                out.append("vlq.enc %d" % v)
                out.append("vlq.enc %d" % -v)
    for _ in range(3000 if tier == "quick" else 50000):
        xs = []
        for _ in range(rng.range(1, 6)):
            bits = rng.choice([1, 4, 5, 6, 10, 16, 31, 32, 33, 50, 61, 62])
            v = rng.below(1 << bits)
            xs.append(-v if rng.chance(0.5) else v)
        out.append("vlq.enc " + ilist(xs))
        # and decode what the generator's own writer produces (independent encoder)
        out.append("vlq.dec " + hx("".join(vlq_enc(x) for x in xs)))
    bump(hist, "enc_lists", 3000 if tier == "quick" else 50000)
    # exhaustive windows by checksum
    if tier == "quick":
        W = 1 << 22
        step = 1 << 19
        for lo in range(-W, W, step):
            out.append("vlq.range %d %d" % (lo, lo + step))
        bump(hist, "range_pm_2^22", 1)
    else:
        # widened (a quick command on changed code): +-2^24 keeps the run within a couple of minutes; digit-count
        # boundaries beyond it are covered by the explicit 2^k, 2^k+-1 cases above
        # thorough: +-2^29 (about a quarter of an hour on 16 cores); the whole u32 difference range (+-2^32) is the
        # theorem c11_u32_diffs, the window only supports the model-vs-code tie and took over two hours at +-2^32
        W = (1 << 24) if widened else (1 << 29)
        step = (1 << 20) if widened else (1 << 23)
        for lo in range(-W, W, step):
            out.append("vlq.range %d %d" % (lo, min(lo + step, W)))
        bump(hist, "range_pm_2^24" if widened else "range_pm_2^29", 1)
    return out
