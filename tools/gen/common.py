"""helpers shared by the per-property generators"""
B64 = "ABCDEFGHIJKLMNOPQRSTUVWXYZabcdefghijklmnopqrstuvwxyz0123456789+/"


def hx(b):
    if isinstance(b, str):
        b = b.encode("utf-8")
    return b.hex() if b else "-"


def ilist(xs):
    return ",".join(str(x) for x in xs) if xs else "-"


def vlq_enc(n):
    """independent VLQ writer (the generator's own; never the crate's)"""
    z = (-n << 1) | 1 if n < 0 else n << 1
    out = ""
    while True:
        d = z & 31
        z >>= 5
        if z:
            d |= 32
        out += B64[d]
        if not z:
            return out


def bump(hist, key, n=1):
    hist[key] = hist.get(key, 0) + n


BASE_TRUST = [
    "Lean 4.33 kernel; axioms limited to propext, Classical.choice, Quot.sound (audited per theorem with #print axioms; no native_decide, no sorry)",
    "hand-written Lean model tied to /repo by (a) constants regenerated from the Rust source on every run and (b) the correspondence run of this check (impl vs model on the cases counted below)",
    "tools/extract_consts.py, the harness interpreter (harness/src), the driver's parsing (lean/Main.lean) and the canonicalisation in tools/runner.py",
]
