"""C03 - encoder output is valid v3 that any conforming reader decodes identically (doc.enc, map.enc)."""
from common import *
from mapgen import *
import docgen as D

PROP = "C03"
CONSTS = ["B64_CHARS", "B64", "prefix_source", "RawSourceMap", "RawSection", "encoder version", "file <invalid>"]
THEOREMS = {"SmVerif.Props.C01": ["SmVerif.C01.c01_mappings_roundtrip"],
            "SmVerif.Props.C06": ["SmVerif.C06.c02_decode_eq_spec"],
            "SmVerif.Props.C03": ["SmVerif.C03.c03_spec_reads_encoder", "SmVerif.C03.c03_version", "SmVerif.C03.c03_optional_keys_table",
                                  "SmVerif.C03.c03_optional_keys_omitted", "SmVerif.C03.c03_map_keys_omitted", "SmVerif.C03.c03_no_null_keys",
                                  "SmVerif.C03.c03_required_keys", "SmVerif.C03.c03_values", "SmVerif.C03.c03_sections_recursive",
                                  "SmVerif.C03.c03_index_sources_null"]}
TRUSTED = BASE_TRUST + ["model: lean/SmVerif/Model/Raw.lean `asRaw` mirrors the three as_raw_sourcemap impls (encoder.rs); which keys are written follows the serde attribute table of RawSourceMap / RawSection regenerated from jsontypes.rs",
                        "independent reader: lean/SmVerif/Model/V3Spec.lean `specDecode` for `mappings`, DocSpec.joinRoot for sources; the harness parses the written bytes with serde_json (own order-preserving visitor) - serde_json's writer/parser are trusted",
                        "maps are obtained by decoding generated documents (decode_slice) - including documents harvested from the outputs of rewrite / flatten / adjust_mappings / SourceMapBuilder by the `doc.prod` pre-pass of the generator"]
ASSUMPTIONS = ["'exactly the map's tokens' is read up to exact consecutive duplicates (C01 says so) and with the hidden original position / name of source-less tokens and unresolvable names ignored",
               "'sources carrying the map's values': what a reader joins from `sources` and `sourceRoot` equals what the map shows through get_source",
               "range tokens are C07's: a map holding one has spec `-` here",
               "an index map is written with `\"sources\":null` and its sections with `\"url\":null` / `\"map\":null` when absent (RawSourceMap.sources and RawSection.url/map carry no skip_serializing_if): outside the five keys the property names; reported as an observation"]
RULE = ("doc.enc on maps decoded from regular / index (nested <= 3) / Hermes documents from the abstract model (see C01), on maps built from raw components (`new` mode), on maps produced by "
        "rewrite (4 option sets) / flatten / adjust_mappings / SourceMapBuilder (harvested by the doc.prod pre-pass and re-built through SourceMap::new + setters) and map.enc on raw-constructed token lists; "
        "non-trivial = the written map has at least one segment or one section; distinct = distinct case line")
EXHAUSTIVE = {"quick": False, "thorough": False}


def nontrivial(r):
    m = r["model"]
    if r["case"].startswith("map.enc"):
        return m.startswith("ok ") and m != "ok - none"
    return m.startswith("ok ") and (";m=-;" not in m or ";S=[" in m)


def corpus():
    sx = D.sx
    return [
        "doc.enc -:0 " + " ".join(D.doc_of("ver=3", "srcs=[%s]" % sx("coolstuff.js"), "names=[%s,%s]" % (sx("x"), sx("alert")), "map=" + sx("AAAA,GAAIA,GAAI,EACR,IAAIA,GAAK,EAAG,CACVC,MAAM"))),
        # nothing optional present -> none of the five keys; everything present -> all five
        "doc.enc -:0 " + " ".join(D.doc_of("ver=3", "srcs=[]", "names=[]", "map=s")),
        "doc.enc -:0 " + " ".join(D.doc_of("ver=3", "srcs=[%s,null]" % sx("a.js"), "names=[n7]", "map=" + sx("AAAAA"), "file=" + sx("f"), "root=" + sx("r"), "sc=[null,%s]" % sx("c"), "ign=[1]", "did=" + sx("11111111-1111-1111-1111-111111111111"))),
        # empty ignore list, all-null contents, empty root
        "doc.enc -:0 " + " ".join(D.doc_of("ver=3", "srcs=[%s]" % sx("a.js"), "map=" + sx("AAAA"), "root=s", "sc=[null]", "ign=[]")),
        "doc.enc -:0 " + " ".join(["{", "file=" + sx("i"), "secs=[", "(", "off=5:0", "url=" + sx("u"), ")", "(", "off=0:0", "map"] + D.doc_of("ver=3", "srcs=[%s]" % sx("s"), "map=" + sx("AAAA,AAAA"), "fbs=[m[]/414141]") + [")", "]", "}"]),
    ]


def generate(tier, rng, hist):
    out = []
    N = 3000 if tier == "quick" else 110000
    for i in range(N):
        big_doc = rng.chance(0.5)
        doc = D.rand_doc(rng, hist, monotone=big_doc, budget=None if big_doc else 18, ranges=(i % 25 == 7))
        out.append(D.case("doc.enc", rng, doc, hist))
    K = 500 if tier == "quick" else 20000
    for _ in range(K):
        out.append("doc.enc -:0:new " + " ".join(D.rand_new(rng, hist, wf=rng.chance(0.9))))
    # maps produced by rewrite / flatten / adjust_mappings / the builder (harvested through the harness)
    for desc in D.harvest(rng, hist, 600 if tier == "quick" else 25000):
        out.append("doc.enc -:0:new " + desc)
    M = 600 if tier == "quick" else 20000
    for _ in range(M):
        nsrc, nn = rng.choice([1, 2, 3]), rng.choice([0, 1, 3])
        ts = rand_tokens(rng, nsrc, nn, rng.small(40), lines=rng.choice([1, 3, 6]), cols=8)
        ts.sort(key=lambda t: (t[0], t[1]))
        out.append("map.enc %d %d %s" % (nsrc, nn, toks(ts)))
        bump(hist, "map.enc")
    return out
