"""C02 - decoding follows the Source Map v3 wire format."""
from common import *
from mapgen import *

PROP = "C02"
CONSTS = ["B64_CHARS", "B64", "prefix_source"]
THEOREMS = {"SmVerif.Props.C06": ["SmVerif.C06.c02_decode_eq_spec"], "SmVerif.Props.C04": ["SmVerif.C04.c04_sorted_new"]}
TRUSTED = BASE_TRUST + ["model: decode_regular's token loop (decoder.rs); specification: lean/SmVerif/Model/V3Spec.lean (independent reading: all segments located and read with the standard VLQ reader, then accumulated)",
                        "serde_json / RawSourceMap deserialisation (JSON text to fields) is trusted and exercised"]
ASSUMPTIONS = ["tokens sharing one generated position are compared as a multiset (the property only demands ordering by generated position)"]
RULE = ("documents rendered from an abstract mapping model by the generator's own VLQ writer: 0-8 lines, empty lines and segments, positive and negative deltas, 1/4/5-field segments, large (2^31) deltas; "
        "non-trivial = at least one decoded token; distinct = distinct case line")
EXHAUSTIVE = {"quick": False, "thorough": False}


def nontrivial(r):
    return r["model"].startswith("ok ") and r["model"] != "ok -"


def corpus():
    return ["map.dec 1 2 %s none" % hx("AAAA,GAAIA,GAAI,EACR,IAAIA,GAAK,EAAG,CACVC,MAAM"),
            "map.dec 1 0 %s none" % hx("K,IAGA,J"), "map.dec 1 0 - none", "map.dec 1 0 %s none" % hx(";;;"), "map.dec 0 0 %s none" % hx(",,;,A,")]


def generate(tier, rng, hist):
    out = []
    N = 3000 if tier == "quick" else 300000
    for _ in range(N):
        nsrc = rng.choice([0, 1, 2, 3, 5])
        nn = rng.choice([0, 1, 3])
        lines = rand_doc(rng, nsrc, nn, max_lines=8, max_segs=10, hist=hist, big=rng.chance(0.2))
        out.append("map.dec %d %d %s none" % (nsrc, nn, hx(render(lines))))
    return out
