"""C02 - decoding follows the Source Map v3 wire format (mapping level: map.dec; document level: doc.dec)."""
from common import *
from mapgen import *
import docgen as D

PROP = "C02"
CONSTS = ["B64_CHARS", "B64", "prefix_source", "RawSourceMap", "RawSection", "file <invalid>"]
THEOREMS = {"SmVerif.Props.C06": ["SmVerif.C06.c02_decode_eq_spec"], "SmVerif.Props.C04": ["SmVerif.C04.c04_sorted_new"],
            "SmVerif.Props.C02": ["SmVerif.C02.c02_kind_index", "SmVerif.C02.c02_kind_hermes", "SmVerif.C02.c02_kind_regular",
                                  "SmVerif.C02.c02_null_source", "SmVerif.C02.c02_numeric_name", "SmVerif.C02.c02_debug_id_precedence",
                                  "SmVerif.C02.c02_abs_prefixes", "SmVerif.C02.c02_source_root_join", "SmVerif.C02.c02_source_root_empty",
                                  "SmVerif.C02.c02_doc_tokens", "SmVerif.C02.c02_doc_tokens_resolve"]}
TRUSTED = BASE_TRUST + ["model: decode_regular's token loop (decoder.rs); specification: lean/SmVerif/Model/V3Spec.lean (independent reading: all segments located and read with the standard VLQ reader, then accumulated)",
                        "document level: lean/SmVerif/Model/Raw.lean mirrors decode_common / decode_regular / decode_index / decode_hermes on the serde record RawSourceMap; specification lean/SmVerif/Model/DocSpec.lean `readDoc`",
                        "serde_json / RawSourceMap deserialisation (JSON text to fields, null -> None, unknown keys ignored, key order irrelevant), debugid text parsing and strip_junk_header are trusted and exercised: "
                        "the harness renders the JSON text (keys in the generated order, three whitespace styles, optional junk header) from the same structured description the driver reads",
                        "the generator's own VLQ writer is cross-checked per segment against the third-party vlq crate 0.5.1 (harness) and the standard reading specVlq (driver)"]
ASSUMPTIONS = ["tokens sharing one generated position are compared as a multiset (the property only demands ordering by generated position)",
               "documented reading where the property is silent: sections of an index map come out ordered by offset; a source content belongs to the source with the same index; a 1-field segment carries no original position either (reported as 0:0, as the code has it since the F17 repair); "
               "documents with version != 3, a non-string `file`, a name that is neither string nor number, or coordinates outside u32 are outside the property (spec `-`)"]
RULE = ("mapping level: documents rendered from an abstract mapping model by the generator's own VLQ writer: 0-8 lines, empty lines and segments, positive and negative deltas, 1/4/5-field segments, large (2^31) deltas; "
        "document level: regular / index (nested <= 3) / Hermes documents with null sources, numeric and odd names, sourceRoot variants, debug_id / debugId in every combination, sourcesContent of any length, ignoreList, "
        "Unicode and JSON-special strings, keys in random order, optional junk header, three whitespace styles, plus a malformed stream (bad arity, out-of-range indices, foreign bytes). "
        "non-trivial = at least one decoded token or a decode error; distinct = distinct case line")
EXHAUSTIVE = {"quick": False, "thorough": False}


def nontrivial(r):
    m = r["model"]
    if r["case"].startswith("map.dec"):
        return m.startswith("ok ") and m != "ok -"
    return m.startswith("err ") or (m.startswith("ok ") and ";t=." not in m) or "t=" in m and ":" in m.split("t=", 1)[1]


def corpus():
    out = ["map.dec 1 0 %s none" % hx(";" * 255 + "AAAA;AACA;;AACA"), "map.dec 1 0 %s none" % hx(";" * 65535 + "AAAA;AACA;;AACA"),   # line numbers past 8 / 16 bits
           "map.dec 1 2 %s none" % hx("AAAA,GAAIA,GAAI,EACR,IAAIA,GAAK,EAAG,CACVC,MAAM"),
           "map.dec 1 0 %s none" % hx("K,IAGA,J"), "map.dec 1 0 - none", "map.dec 1 0 %s none" % hx(";;;"), "map.dec 0 0 %s none" % hx(",,;,A,")]
    sx = D.sx
    out += [
        # the crate's own doc example
        "doc.dec -:0 " + " ".join(D.doc_of("ver=3", "srcs=[%s]" % sx("coolstuff.js"), "names=[%s,%s]" % (sx("x"), sx("alert")), "map=" + sx("AAAA,GAAIA,GAAI,EACR,IAAIA,GAAK,EAAG,CACVC,MAAM"))),
        # null source, numeric name, both debug ids, root join on relative / absolute / http sources
        "doc.dec -:1 " + " ".join(D.doc_of("ver=3", "srcs=[null,%s,%s,%s,%s]" % (sx("a.js"), sx("/abs.js"), sx("http://h/x"), sx("https:x")), "names=[n12,%s,null]" % sx("f"),
                                            "root=" + sx("/r/"), "map=" + sx("AAAAA,CCAAC"), "did=" + sx("11111111-1111-1111-1111-111111111111"), "didn=" + sx("22222222-2222-2222-2222-222222222222"))),
        "doc.dec -:0 " + " ".join(D.doc_of("ver=3", "srcs=[%s]" % sx("a.js"), "root=s", "map=" + sx("AAAA"), "didn=" + sx("22222222-2222-2222-2222-222222222222"))),
        # sections win over x_facebook_sources; sections out of order; nested index
        "doc.dec -:2 " + " ".join(["{", "fbs=null", "secs=[", "(", "off=5:0", "url=" + sx("u"), ")", "(", "off=0:0", "map"] + D.doc_of("ver=3", "srcs=[%s]" % sx("s"), "map=" + sx("AAAA"), "fbs=[m[]/414141]") +
                                 [")", "(", "off=5:0", "map", "{", "secs=[", "]", "}", ")", "]", "}"]),
        "doc.dec " + ")]}'\n".encode().hex() + ":0 " + " ".join(D.doc_of("ver=3", "srcs=[]", "names=[]", "map=" + sx(";;A,C;"), "amap=;;0,1;")),
        # malformed
        "doc.dec -:0 " + " ".join(D.doc_of("ver=3", "srcs=[%s]" % sx("a"), "map=" + sx("AA"))),
        "doc.dec -:0 " + " ".join(D.doc_of("ver=3", "srcs=[%s]" % sx("a"), "map=" + sx("AAAA,ACAA"))),
        "doc.dec -:0 " + " ".join(["{", "secs=[", "(", "off=0:0", "map"] + D.doc_of("ver=3", "map=" + sx("AAAA")) + [")", "]", "}"]),
    ]
    return out


def malformed(rng, hist):
    """a regular document whose mappings string carries one fault (C06 has the full fault catalogue)"""
    items = D.rand_regular(rng, hist, wild=False)
    out = []
    for it in items:
        if it.startswith("amap="):
            continue
        if it.startswith("map=s"):
            text = bytes.fromhex(it[5:]).decode()
            fault = rng.choice(["AA", "AAA", "AAAAAA", "!", "g", "A" + vlq_enc(99) + "AA", "AAAA" + vlq_enc(77), "A" + vlq_enc(-4294967296) + "AA"])
            pos = rng.choice([";", ","]) if text else ""
            text = text + pos + fault if rng.chance(0.5) else fault + pos + text
            it = "map=" + D.sx(text)
            bump(hist, "malformed_doc")
        out.append(it)
    doc = ["{"] + out + ["}"]
    if rng.chance(0.3):
        # the faulty document inside a section: the error surfaces through decode_index
        pre = [] if rng.chance(0.5) else ["(", "off=0:0", "map"] + D.doc_of("ver=3", "srcs=[%s]" % D.sx("ok.js"), "map=" + D.sx("AAAA")) + [")"]
        doc = ["{", "ver=3", "secs=["] + pre + ["(", "off=1:0", "map"] + doc + [")", "]", "}"]
        bump(hist, "malformed_nested")
    return doc


def generate(tier, rng, hist):
    out = []
    N = 3000 if tier == "quick" else 150000
    for _ in range(N):
        nsrc = rng.choice([0, 1, 2, 3, 5])
        nn = rng.choice([0, 1, 3])
        lines = rand_doc(rng, nsrc, nn, max_lines=8, max_segs=10, hist=hist, big=rng.chance(0.2))
        out.append("map.dec %d %d %s none" % (nsrc, nn, hx(render(lines))))
    M = 3500 if tier == "quick" else 150000
    for i in range(M):
        if i % 12 == 0:
            out.append(D.case("doc.dec", rng, malformed(rng, hist), hist))
        else:
            out.append(D.case("doc.dec", rng, D.rand_doc(rng, hist, ranges=(i % 10 == 1)), hist))
    for _ in range(300 if tier == "quick" else 10000):
        # the raw constructor + setters (model of SourceMap::new / set_source_root; the property is silent)
        out.append("doc.dec -:0:new " + " ".join(D.rand_new(rng, hist, wf=rng.chance(0.8))))
    return out
