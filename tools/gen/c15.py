"""C15 - SourceView lines and UTF-16 slices match the text exactly, in any access order."""
from common import *
import itertools, re

PROP = "C15"
CONSTS = []
THEOREMS = {"SmVerif.Props.C15": ["SmVerif.C15." + t for t in (
    "c15_inv", "c15_line_starts", "c15_get_line", "c15_line_count", "c15_lines_iter", "c15_no_panic", "c15_slice",
    "c15_slice_midpair", "c15_requests", "c15_midpair_witness")]}
TRUSTED = BASE_TRUST + [
    "model: lean/SmVerif/Model/SourceView.lean (get_line / line_count / lines) and Model/SourceViewSlice.lean (get_line_slice, str::chars = core's next_code_point, char::len_utf8/len_utf16, str::get / is_char_boundary, the u32 counter of Lines) mirror sourceview.rs for one thread",
    "std: Mutex/atomics behave sequentially for a single thread; the `unsafe` lifetime extension of the cached &str is sound (source: Arc<str> never mutated)"]
ASSUMPTIONS = ["the text is valid UTF-8 (invariant of str; the harness cannot even construct another SourceView)",
               "64-bit target: `col as usize + span as usize` and the running UTF-16 index cannot overflow",
               "line_count / lines(): fewer than 2^32 lines (a text of >= 4 GiB; beyond that line_count saturates at 2^32 and Lines::next overflows its u32 counter) - hypothesis visible in c15_line_count / c15_lines_iter",
               "a slice column strictly inside a surrogate pair: the specification includes the cut pair, the code starts after it (c15_slice_midpair, c15_midpair_witness) - open known finding F22, filed by failure class"]
RULE = ("sv.seq: one SourceView per case, requests in order. Texts: all strings over {a, e-acute, U+1F44C, \\n, \\r} up to length 4 (quick) / 7 (thorough; length 8 with one sequence each), each with request sequences chosen from: every line in order, reversed, late line first, missing line before a present one, "
        "count/lines() before and after, repeated requests, u32::MAX index, all permutations of the indices 0..n for n<=3, random mixes of g/c/a/s; plus for every text up to length 4/7 ALL (line, col, span) triples with line <= n, col,span <= units+2 and the u32::MAX corners, "
        "split into on-boundary (wf=1) and mid-pair columns (wf=2 and again as sv.corr = model correspondence only); random longer texts (<= 300 chars) over a 26-symbol pool incl. 1/2/3/4-byte boundary code points, NEL, U+2028, \\r\\n runs. "
        "non-trivial = the text has a terminator or a non-ASCII character and at least one request returned a line; distinct = distinct case line")
EXHAUSTIVE = {"quick": True, "thorough": True}
U32MAX = 4294967295
ALPHA = ["a", "\u00e9", "\U0001F44C", "\n", "\r"]
POOL = ["a", "b", " ", "\t", "\x00", "\x7f", "\u0080", "\u00e9", "\u07ff", "\u0800", "\u20ac", "\u4e2d", "\uffff", "\U00010000", "\U0001F44C", "\U0010FFFF",
        "\u0085", "\u2028", "\x0b", "\x0c", "\n", "\n", "\r", "\r", "\r\n", "\r\n"]
SPLIT = re.compile("\r\n|\n|\r")


def nontrivial(r):
    t = r["case"].split(" ")
    if len(t) < 3 or not r["model"].startswith("ok"):
        return False
    hexs = t[1]
    bs = bytes.fromhex(hexs) if hexs != "-" else b""
    interesting = any(b in (10, 13) or b >= 128 for b in bs)
    return interesting and "l" in r["model"]


def lines_of(text):
    return SPLIT.split(text)


def units(line):
    return sum(2 if ord(ch) >= 0x10000 else 1 for ch in line)


def mid_cols(line):
    out = set()
    p = 0
    for ch in line:
        if ord(ch) >= 0x10000:
            out.add(p + 1)
            p += 2
        else:
            p += 1
    return out


def case(text, reqs, op="sv.seq"):
    return "%s %s %s" % (op, hx(text), ",".join(reqs) if reqs else "-")


def line_seqs(n, rng, k):
    """request sequences about lines for a text with n lines; k = how many to return"""
    idx = list(range(n))
    seqs = [
        ["g%d" % i for i in idx] + ["g%d" % n, "c", "a"],                       # in order, then past the end, count, all
        ["g%d" % (n - 1), "g0", "c"] + ["g%d" % i for i in idx],                # late line first
        ["g%d" % n, "g%d" % (n - 1), "g0", "g%d" % (n + 3), "c"],               # missing before present
        ["c"] + ["g%d" % i for i in reversed(idx)] + ["c", "g%d" % n],          # count first, reversed
        ["a", "c", "g%d" % (n - 1), "a"],                                       # iterator first
        ["g%d" % U32MAX, "g0", "g0", "a", "g%d" % U32MAX],                       # sentinel index first, repeats
        ["g%d" % (n // 2), "g%d" % (n // 2), "g%d" % n, "g%d" % (n // 2), "c", "c"],
        ["g0", "a", "g%d" % (n - 1), "c", "a"],
        ["s%d:0:1" % (n - 1), "g0", "c", "s0:0:0", "s%d:0:0" % n, "a"],          # slice of a late line first
    ]
    if n <= 3:
        for perm in itertools.permutations(list(range(n + 1))):
            seqs.append(["g%d" % i for i in perm] + ["c"])
    if k >= len(seqs):
        return seqs
    pick = []
    start = rng.below(len(seqs))
    for j in range(k):
        pick.append(seqs[(start + j * 7) % len(seqs)] if j else seqs[start])
    return pick


def rand_seq(text, rng, hist):
    ls = lines_of(text)
    n = len(ls)
    m = 1 + rng.small(24)
    reqs = []
    for _ in range(m):
        r = rng.below(100)
        if r < 45:
            i = rng.choice([rng.below(n), rng.below(n + 2), n - 1, n, 0, n + rng.small(), U32MAX if rng.chance(0.2) else n - 1])
            reqs.append("g%d" % max(i, 0))
            bump(hist, "req_g_present" if i < n else "req_g_missing")
        elif r < 55:
            reqs.append("c")
            bump(hist, "req_c")
        elif r < 63:
            reqs.append("a")
            bump(hist, "req_a")
        else:
            li = rng.choice([rng.below(n), rng.below(n), rng.below(n + 2), U32MAX if rng.chance(0.1) else 0])
            line = ls[li] if li < n else ""
            u = units(line)
            mids = mid_cols(line)
            col = rng.choice([0, rng.below(u + 2), rng.below(u + 2), u, U32MAX if rng.chance(0.15) else u + 1, 2147483648 if rng.chance(0.1) else 0])
            if col in mids:           # mid-pair columns only in their own cases (wf=2)
                col += 1
            span = rng.choice([0, 1, rng.below(u + 2), rng.below(u + 3), max(u - min(col, u), 0), U32MAX if rng.chance(0.15) else 1, 2147483648 if rng.chance(0.1) else 2])
            reqs.append("s%d:%d:%d" % (li, col, span))
            bump(hist, "req_s_line_%s" % ("present" if li < n else "missing"))
    return reqs


def slice_cases(text, hist, corners=True):
    """ALL (line, col, span) triples for the text: [on-boundary case, mid-pair case, mid-pair corr case]"""
    ls = lines_of(text)
    n = len(ls)
    on, mid = [], []
    for li in range(n + 1):
        line = ls[li] if li < n else ""
        u = units(line)
        mids = mid_cols(line)
        cols = list(range(u + 3))
        spans = list(range(u + 3))
        if corners:
            cols += [U32MAX, U32MAX - 1, 2147483648]
            spans += [U32MAX, U32MAX - 1, 2147483648]
        for c in cols:
            for s in spans:
                (mid if c in mids else on).append("s%d:%d:%d" % (li, c, s))
    on.append("s%d:0:0" % U32MAX)
    out = [case(text, on)]
    bump(hist, "slice_triples_on_boundary", len(on))
    if mid:
        out.append(case(text, mid))
        out.append(case(text, mid, "sv.corr"))
        bump(hist, "slice_triples_mid_pair", len(mid))
    return out


def corpus():
    T = "abc\U0001F44Cdef\nblah"
    return [
        case("a\nb\nc", ["g0", "g0", "g2", "g1", "g3", "c"]),
        case("a\r\nb\r\nc", ["g0", "g0", "g2", "g1", "g3", "c"]),
        case(T, ["s0:0:3", "s0:3:1", "s0:3:2", "s0:3:3", "s0:0:4", "s0:0:5", "s0:0:6", "s1:0:4", "s1:0:5", "s1:0:12"]),
        case("a\nb\nc\n", ["g0", "g1", "g2", "g3", "g4"]),
        case("", ["g0", "g1", "c", "a", "s0:0:0", "s0:0:1"]),
        case("\r\n\r\r\n\n", ["g4", "c", "a", "g3"]),
        case("\n\r", ["a", "c"]),
        case("\r\n", ["c", "g1", "g2"]),
        case("x", ["g%d" % U32MAX, "c", "g0"]),                     # F11 shape, one thread
        case("a", ["s0:%d:%d" % (U32MAX, U32MAX), "s0:1:%d" % U32MAX, "s0:%d:1" % U32MAX, "s0:%d:%d" % (2147483648, 2147483648), "s0:0:1"]),  # F10 (fixed)
        case(T, ["s0:4:0", "s0:4:1", "s0:4:2"]),                    # mid-pair (wf=2)
        case(T, ["s0:4:0", "s0:4:1", "s0:4:2"], "sv.corr"),
        "sv.seq ff61 g0",                                            # not UTF-8: no SourceView can hold it (skip)
        "sv.seq c3 g0,c",
    ]


def all_texts(maxlen):
    for n in range(maxlen + 1):
        for combo in itertools.product(ALPHA, repeat=n):
            yield "".join(combo)


def rand_text(rng):
    n = rng.small(60)
    if rng.chance(0.05):
        n = rng.range(60, 300)
    kind = rng.below(4)
    pool = POOL if kind else ["a", "\U0001F44C", "é", "\n", "\r", "\r\n"]
    return "".join(rng.choice(pool) for _ in range(n))


def generate(tier, rng, hist):
    out = []
    quick = tier == "quick"
    full_len = 4 if quick else 7          # every text up to this length
    slice_len = 4 if quick else 7         # ALL triples for every text up to this length
    seqs_small = 3 if quick else 6
    for text in all_texts(full_len):
        L = len(text)
        n = len(lines_of(text))
        k = seqs_small if L <= 6 else 2
        if quick and L == 4:
            k = 2
        for reqs in line_seqs(n, rng, 99 if L <= (2 if quick else 3) else k):
            out.append(case(text, reqs))
            bump(hist, "exh_line_seq_cases")
        out.append(case(text, rand_seq(text, rng, hist)))
        if L <= slice_len:
            out += slice_cases(text, hist, corners=(L <= 4))
            bump(hist, "exh_texts_all_triples")
        bump(hist, "exh_texts_len_%d" % L)
    if not quick:
        # every text of length 8 with one request sequence (rotating through the patterns)
        for text in ("".join(c) for c in itertools.product(ALPHA, repeat=8)):
            n = len(lines_of(text))
            out.append(case(text, line_seqs(n, rng, 1)[0]))
            bump(hist, "exh_texts_len_8")
    if quick:
        # a sample of the length 5..7 scope
        for _ in range(600):
            text = "".join(rng.choice(ALPHA) for _ in range(rng.range(5, 7)))
            n = len(lines_of(text))
            out.append(case(text, line_seqs(n, rng, 1)[0]))
            out += slice_cases(text, hist, corners=False)
            bump(hist, "sampled_texts_len_5_7")
    N = 1200 if quick else 60000
    for _ in range(N):
        text = rand_text(rng)
        ls = lines_of(text)
        bump(hist, "rand_text_lines_%s" % (len(ls) if len(ls) < 8 else "8+"))
        r = rng.below(10)
        if r < 6:
            out.append(case(text, rand_seq(text, rng, hist)))
        elif r < 8:
            out.append(case(text, line_seqs(len(ls), rng, 1)[0]))
        else:
            if len(text) <= 40:
                out += slice_cases(text, hist, corners=rng.chance(0.3))
            else:
                out.append(case(text, rand_seq(text, rng, hist)))
    # sizes past the narrow integer types: a column / a line number that does not fit 8 or 16 bits must not be
    # confused with its low bits (columns 255/256/257 and 65535/65536/65537 of one long line; lines 255.. and 65535..)
    small_only = quick or globals().get("WIDENED", False)   # the 2^16 sizes cost minutes on the model side: thorough command only
    for (L, mark) in (((300, 256),) if small_only else ((300, 256), (66000, 65536))):
        chars = ["a"] * L
        for k in (3, mark - 2, mark + 5):
            chars[k] = "é"
        chars[mark + 9] = "\U0001F44C"
        line = "".join(chars)
        text = "x\n" + line + "\nend"
        reqs = ["g1"]
        for c in (0, mark - 1, mark, mark + 1, mark + 8, mark + 9, mark + 11, units(line) - 1, units(line)):
            for sp in (0, 1, 2, 3):
                if c not in mid_cols(line):
                    reqs.append("s1:%d:%d" % (c, sp))
        reqs += ["s1:%d:%d" % (mark - 100, 200), "c", "g2", "g3"]
        # spans past the narrow types too
        reqs += ["s1:0:%d" % sp for sp in (mark - 1, mark, mark + 1, units(line) - 1, units(line), units(line) + 1)] + ["s1:3:%d" % (mark - 3), "s1:4:%d" % mark]
        out.append(case(text, reqs))
        bump(hist, "long_line_%d" % L)
    for (n, mark) in (((300, 256),) if small_only else ((300, 256), (66000, 65536))):
        text = "".join("l%d\n" % (i % 7) for i in range(n))
        reqs = ["g%d" % i for i in (mark + 1, mark, mark - 1, 0, n - 1, n, n + 1)] + ["c", "s%d:0:2" % mark, "s%d:1:1" % (mark + 1)]
        out.append(case(text, reqs))
        bump(hist, "many_lines_%d" % n)
    # malformed stream: byte strings that are not UTF-8 (no SourceView can be built: harness skips, driver marks wf=0)
    for _ in range(20 if quick else 300):
        bs = bytes(rng.choice([0x61, 0x0a, 0x0d, 0x80, 0xc3, 0xe2, 0xf0, 0xff, 0xa9]) for _ in range(rng.range(1, 6)))
        out.append("sv.seq %s g0,c,a,s0:0:1" % bs.hex())
        bump(hist, "raw_byte_texts")
    return out


def _lines16(text):
    """pieces of the text (split at CRLF, LF, lone CR) as lists of per-character UTF-16 widths"""
    out, cur, i = [], [], 0
    while i < len(text):
        ch = text[i]
        if ch == "\r":
            out.append(cur); cur = []
            if i + 1 < len(text) and text[i + 1] == "\n":
                i += 1
        elif ch == "\n":
            out.append(cur); cur = []
        else:
            cur.append(2 if ord(ch) > 0xFFFF else 1)
        i += 1
    out.append(cur)
    return out


def _mid_pair(lines, l, c):
    if l >= len(lines):
        return False
    pos = 0
    for w in lines[l]:
        if w == 2 and c == pos + 1:
            return True
        pos += w
    return False


def finding_class(r, kind):
    """F22: get_line_slice with the start column strictly inside a surrogate pair starts AFTER the pair, while the
    statement's "characters covering code units c..c+n, whole surrogate pairs included" includes it (as the code
    itself does for a pair cut by the END of the span).  Narrow class: op sv.seq, the property's demand contradicted
    (kind spec), the implementation doing exactly what the validated model does, and the answers differing from the
    specification ONLY at slice requests whose column is inside a surrogate pair."""
    t = r["case"].split(" ")
    if kind != "spec" or t[0] != "sv.seq" or r["impl"] != r["model"] or not r["impl"].startswith("ok ") or not r["spec"].startswith("ok "):
        return None
    try:
        text = bytes.fromhex("" if t[1] == "-" else t[1]).decode("utf-8")
    except Exception:
        return None
    reqs = t[2].split(",")
    a, b = r["impl"][3:].split(","), r["spec"][3:].split(",")
    if len(a) != len(reqs) or len(b) != len(reqs):
        return None
    lines = _lines16(text)
    differ = False
    for q, x, y in zip(reqs, a, b):
        if x == y:
            continue
        differ = True
        if not q.startswith("s"):
            return None
        l, c, n = (int(v) for v in q[1:].split(":"))
        if not _mid_pair(lines, l, c) or n == 0:
            return None
    return "F22-slice-start-inside-surrogate-pair" if differ else None
