"""C19 - make_relative_path leads from the base file to the target."""
from common import *
import itertools

PROP = "C19"
CONSTS = []
THEOREMS = {"SmVerif.Props.C19": ["SmVerif.C19.c19_common_prefix_two", "SmVerif.C19.c19_resolves", "SmVerif.C19.c19_dot_iff", "SmVerif.C19.c19_shape", "SmVerif.C19.c19_nonempty", "SmVerif.C19.c19_descend"]}
TRUSTED = BASE_TRUST + ["model: lean/SmVerif/Model/Paths.lean mirrors make_relative_path and find_common_prefix_of_sorted_vec (utils.rs) for two items; str::split / Vec::sort_by_key (stable) / join as documented"]
ASSUMPTIONS = ["paths are compared as component lists (a leading separator is not significant, as in the code)"]
RULE = ("all ordered pairs of paths with 1..3 components over a 3-name pool, absolute/relative, both separators (exhaustive; 4 components in thorough), random pairs up to 6 components with doubled separators and '.'/'..' components (the latter outside the quantifier: compared model-vs-code only). "
        "non-trivial = result differs from the bare target; distinct = distinct case line")
EXHAUSTIVE = {"quick": True, "thorough": True}


def nontrivial(r):
    t = r["case"].split(" ")
    return r["model"] != "ok " + t[2]


def corpus():
    return ["relpath %s %s" % (hx(a), hx(b)) for a, b in [
        ("/foo/a.js", "/foo/bar/baz.map"),  # F15 (fixed)
        ("/foo/bar/baz.js", "/foo/baz.map"), ("/foo/bar/baz.js", "/foo/bar/baz.map"), ("/foo/bar/.", "/foo/bar/baz.map"),
        ("foo.txt", "foo.js"), ("blah/foo.txt", "foo.js"), ("/a/b/c.js", "/a/b"), ("/a/b/c.js", "/a"), ("a", ""), ("", ""), ("", "x/y")]]


def generate(tier, rng, hist):
    out = []
    pool = ["a", "b", "cc"]
    maxc = 3 if tier == "quick" else 4
    paths = []
    for n in range(1, maxc + 1):
        for combo in itertools.product(pool, repeat=n):
            paths.append(list(combo))
    for b in paths:
        for t in paths:
            for (absb, abst, sep) in ((True, True, "/"), (False, False, "/"), (True, False, "\\"), (False, True, "/"), (True, True, "\\")):
                bs = ("/" if absb else "") + sep.join(b)
                ts_ = ("/" if abst else "") + sep.join(t)
                out.append("relpath %s %s" % (hx(bs), hx(ts_)))
    bump(hist, "exhaustive_pairs", len(out))
    N = 3000 if tier == "quick" else 200000
    pool2 = ["a", "b", "cc", "d.js", "é", ".", "..", "x y"]
    for _ in range(N):
        def mk():
            n = rng.range(0, 6)
            cs = [rng.choice(pool2[:5] if rng.chance(0.8) else pool2) for _ in range(n)]
            sep = rng.choice(["/", "/", "\\", "//"])
            return ("/" if rng.chance(0.5) else "") + sep.join(cs) + ("/" if rng.chance(0.1) else "")
        b, t = mk(), mk()
        if rng.chance(0.4):  # share a prefix
            k = rng.range(0, len(b))
            t = b[:k] + t
        out.append("relpath %s %s" % (hx(b), hx(t)))
        bump(hist, "rand_depths_%d_%d" % (min(b.count("/") + b.count("\\"), 6), min(t.count("/") + t.count("\\"), 6)))
    return out
