"""C06 - malformed mappings are rejected, never silently mis-decoded."""
from common import *
from mapgen import *

PROP = "C06"
CONSTS = ["B64_CHARS", "B64"]
THEOREMS = {"SmVerif.Props.C06": ["SmVerif.C06.c06_fault_rejected", "SmVerif.C06.c06_foreign_byte", "SmVerif.C06.c06_truncated", "SmVerif.C06.c06_too_long", "SmVerif.C06.c06_arity", "SmVerif.C06.c06_ok_resolves"],
            # "decoding fails with an error", never a (modelled) panic or runaway loop
            "SmVerif.Props.C05": ["SmVerif.C05.c05_decode_safe", "SmVerif.C05.c05_parseVlq_safe"]}
TRUSTED = BASE_TRUST + ["model: lean/SmVerif/Model/Mappings.lean mirrors the token loop of decode_regular (decoder.rs) and parse_vlq_segment_into (vlq.rs)",
                        "serde_json delivers the `mappings` string, `sources` and `names` arrays unchanged (JSON layer trusted, exercised)"]
ASSUMPTIONS = ["earlier faults may win: the theorems say *an* error is returned, not which"]
RULE = ("well-formed mapping strings from the generator's own encoder (0-4 sources, 0-3 names, empty lines/segments) mutated by one fault "
        "(field added/dropped, source/name index pushed out of range by +-k and by exact multiples of 2^32, continuation bit on the last digit, "
        "14+ digit value, foreign byte incl. >= 0x80 at every offset) and by pairs of faults; plus exhaustive strings of length <= 3 over a 9-symbol alphabet. "
        "non-trivial = the model returns an error or at least one token; distinct = distinct case line")
EXHAUSTIVE = {"quick": False, "thorough": False}


def nontrivial(r):
    return r["model"].startswith("err") or r["model"] != "ok -"


def corpus():
    n = vlq_enc(-4294967296)
    return [
        "map.dec 1 0 %s none" % hx("A!A"),                      # F1 (fixed)
        "map.dec 1 0 %s none" % hx("AAAA,A" + n + "AA"),        # F2 (fixed): source delta -2^32
        "map.dec 1 1 %s none" % hx("AAAAA,AAAA" + n),           # F2 for names
        "map.dec 1 0 %s none" % hx("AAAA,A" + vlq_enc(4294967296) + "AA"),
        "map.dec 0 0 %s none" % hx("AAAA"),
        "map.dec 1 0 %s none" % hx("AA"),
        "map.dec 1 0 %s none" % hx("AAAAAA"),
    ]


def faults(rng, lines, nsrc, nnames, hist):
    """returns a faulty mapping string derived from the valid document `lines`"""
    segs = [(i, j) for i, l in enumerate(lines) for j, s in enumerate(l) if s is not None]
    if not segs:
        return render(lines) + rng.choice(["!", "é", "g", "AA", "AAAAAA"])
    import copy
    L = copy.deepcopy(lines)
    i, j = segs[rng.below(len(segs))]
    s = L[i][j]
    kind = rng.choice(["add", "drop", "src", "src32", "name", "name32", "cont", "long", "foreign", "foreign"])
    bump(hist, "fault_" + kind)
    text = None
    if kind == "add":
        s.extend([rng.range(-3, 3)] * rng.choice([1, 1, 2, 3]))
        if len(s) in (1, 4, 5):
            s.append(0)
            if len(s) in (4, 5):
                s.extend([0, 0, 0])
    elif kind == "drop":
        if len(s) >= 4:
            del s[rng.range(1, len(s) - 1):]
            if len(s) == 1:
                s.append(0)
        else:
            s.append(0)
    elif kind in ("src", "src32"):
        if len(s) < 4:
            s[:] = [s[0], 0, 0, 0]
            kind_delta = nsrc + rng.below(3)  # absolute index may still be in range; pushed below
        d = rng.choice([nsrc, nsrc + 1, -nsrc - 1, -1 - rng.below(5), 1 << 31, -(1 << 31), (1 << 33) + nsrc])
        if kind == "src32":
            d = rng.choice([1, -1, 2, -2]) * (1 << 32)
        s[1] += d if d > 0 else d - 0
        # make sure it really leaves the range: recomputed by the spec anyway
    elif kind in ("name", "name32"):
        if len(s) < 5:
            s[:] = (s + [0, 0, 0])[:4] + [0]
        d = rng.choice([nnames, nnames + 2, -nnames - 1, -1 - rng.below(5), 1 << 32, -(1 << 32)])
        if kind == "name32":
            d = rng.choice([1, -1, 3]) * (1 << 32)
        s[4] += d
    if kind in ("cont", "long", "foreign"):
        text_lines = [["" if x is None else "".join(vlq_enc(v) for v in x) for x in l] for l in lines]
        t = text_lines[i][j]
        if kind == "cont":
            t = t[:-1] + B64[B64.index(t[-1]) | 32]
        elif kind == "long":
            t = t + B64[32 + rng.below(32)] * rng.range(13, 16) + rng.choice(["A", "B", "", "g"])
        else:
            pos = rng.below(len(t) + 1)
            # also characters past U+00FF whose low byte (or a byte of whose encoding) looks like a base64 digit
            ch = rng.choice(["!", "=", " ", "-", "_", "\x7f", "\x00", "é", "ÿ", "€", "\\", '"', "\t", ".", "\u0141", "\u0167", "\u4e41", "\U00010041", "\u0130"])
            t = t[:pos] + ch + t[pos:]
        text_lines[i][j] = t
        text = ";".join(",".join(l) for l in text_lines)
    return text if text is not None else render(L)


def generate(tier, rng, hist):
    out = []
    n = 4000 if tier == "quick" else 150000
    for k in range(n):
        nsrc = rng.choice([0, 1, 1, 2, 3, 4])
        nn = rng.choice([0, 0, 1, 2, 3])
        lines = rand_doc(rng, nsrc, nn, hist=hist)
        r = rng.below(10)
        if r < 2:
            m = render(lines)
            bump(hist, "valid")
        elif r < 8:
            m = faults(rng, lines, nsrc, nn, hist)
        else:
            # two faults: apply a text fault on top of a structural one
            m = faults(rng, lines, nsrc, nn, hist)
            pos = rng.below(len(m) + 1)
            m = m[:pos] + rng.choice(["!", "g", ",", ";", "é", "AA"]) + m[pos:]
            bump(hist, "double_fault")
        out.append("map.dec %d %d %s none" % (nsrc, nn, hx(m)))
    # exhaustive small strings over a 9-symbol alphabet
    syms = ["A", "C", "D", "g", ";", ",", "!", "é", "g" * 13]
    L = 3 if tier == "quick" else 4
    def rec(prefix, depth):
        if depth == 0:
            return
        for s_ in syms:
            t = prefix + s_
            for (ns, nn_) in ((1, 1), (0, 0)):
                out.append("map.dec %d %d %s none" % (ns, nn_, hx(t)))
            rec(t, depth - 1)
    rec("", L)
    bump(hist, "exhaustive_9sym_len<=%d" % L)
    return out
