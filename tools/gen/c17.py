"""C17 - function-name resolution finds the original name of the enclosing function."""
from common import *

PROP = "C17"
CONSTS = ["nameWindow"]
THEOREMS = {"SmVerif.Props.C17": ["SmVerif.C17." + t for t in (
    "c17_cache_correct", "c17_lookup_index", "c17_resolve_eq_spec", "c17_resolve_new_eq_spec", "c17_textAt_suffix",
    "c17_identifier_chars", "c17_identifier_text", "c17_not_identifier_none", "c17_safe", "c17_safe_new",
    "c17_underflow_unsorted", "c17_inside_pair_cache_visible", "c17_window")]}
TRUSTED = BASE_TRUST + [
    "model: lean/SmVerif/Model/NameRes.lean mirrors RevTokenIter::next, SourceView::get_original_function_name (sourceview.rs), js_identifiers.rs and SourceMap::get_original_function_name (types.rs); "
    "parametric in unicode_id_start::is_id_start_unicode / is_id_continue_unicode / char::is_whitespace (theorems hold for all predicates; every case line carries the values for its non-ASCII characters and the harness cross-checks each of them against the crate)",
    "SourceView::get_line(i) = i-th piece of the text split at \\r\\n, \\n, \\r (C15); the driver cross-checks the char-level split against Model/SourceView.lean's byte-level one on every case",
]
ASSUMPTIONS = [
    "slice::sort_unstable_by_key returns a sorted permutation and leaves a sorted slice unchanged (tokens sharing a position are given in position order)",
    "the property is read with columns that are positions of their line (UTF-16 length of a prefix, or at/after the end): a case in which a visited token points inside a surrogate pair is compared model-vs-code only",
    "a token that points at blanks reads the word after them (get_javascript_token skips leading whitespace)",
]
RULE = ("name.resolve: generated minified programs (1-4 lines, several function declarations per line, anonymous functions, `var x=function`, `function function`, identifiers over a pool with e-acute, astral letters, $, _, ZWJ/ZWNJ, "
        "continue-only characters, names that are prefixes of one another, astral/BMP characters in strings and comments before declarations, Unicode blanks), maps with tokens on/before/after/inside declarations, past the end of a line, "
        "on missing lines, a minority inside surrogate pairs, several tokens on one position, name ids none/out of range; windows of 124-131 tokens around the 128 limit; queries exact, inexact, before the first token, "
        "every identifier of the program plus `function` plus non-identifiers as candidate name; exhaustive: small programs with a token on every column x every column as query x every candidate. "
        "non-trivial = at least one query resolves to a name; distinct = distinct case line")
EXHAUSTIVE = {"quick": False, "thorough": True}
NONE = 4294967295

ZWJ, ZWNJ = "\u200d", "\u200c"
# non-ASCII pool: char -> flags (1 = identifier start, 2 = identifier continue, 4 = whitespace); checked by the harness
POOL = {
    "\u00e9": 3, "\u00df": 3, "\u03bb": 3, "\U0001d4b3": 3, "\U00010400": 3, "\u2118": 3, "\u01c5": 3, "\u2170": 3,
    ZWJ: 0, ZWNJ: 0,
    "\u00b7": 2, "\u0301": 2, "\U0001d7d8": 2, "\u0663": 2,
    "\u20ac": 0, "\U0001f600": 0, "\ufeff": 0, "\u2026": 0,
    "\u00a0": 4, "\u3000": 4, "\u2028": 4, "\u0085": 4, "\u2003": 4,
}
STARTS = ["a", "b", "f", "x", "A", "Z", "$", "_", "\u00e9", "\u00df", "\u03bb", "\U0001d4b3", "\U00010400", "\u2118", "\u01c5", "\u2170"]
CONTS = ["a", "b", "c", "1", "0", "9", "$", "_", "\u00e9", "\U0001d4b3", ZWJ, ZWNJ, "\u00b7", "\u0301", "\U0001d7d8", "\u0663", "n", "s"]
JUNK = ["\u20ac", "\U0001f600", "\ufeff", "\u2026", "+", "-", "*", "=", "!", "1", "42", ".", ",", ";", "(", ")", "[", "]", "{", "}", "\"", "'", "/", "@", "#"]
BLANKS = [" ", " ", " ", "\t", "\u00a0", "\u3000", "\u2028", "\u0085", "\u2003", "\x0b", "\x0c"]
NONIDS = ["", " ", "1a", "a b", "a.b", "a-", " a", "a ", "\u00b7x", "\U0001d7d8", ZWJ + "a", "\u20ac", "a\u20ac", "\U0001f600", "(", "a(", "function ", "a\u00a0", "9"]


def u16(s):
    return sum(2 if ord(c) >= 0x10000 else 1 for c in s)


def pool_of(strings):
    cs = sorted(set(c for s in strings for c in s if ord(c) >= 128))
    return ",".join("%d:%d" % (ord(c), POOL.get(c, 0)) for c in cs) if cs else "-"


def case(text, toks, nn, queries):
    """toks: (line, col, name_id); queries: (line, col, name)"""
    ts = ";".join("%d:%d:%d:%d:%d:%d:%d" % (l, c, i % 7, i % 5, NONE if i % 3 == 0 else 0, n, 0) for i, (l, c, n) in enumerate(toks)) or "-"
    qs = ";".join("%d:%d:%s" % (l, c, hx(n)) for (l, c, n) in queries) or "-"
    return "name.resolve %s %s %d %s %s" % (hx(text), ts, nn, qs, pool_of([text] + [q[2] for q in queries]))


def rand_ident(rng, base=None):
    if base and rng.chance(0.5):
        r = rng.below(4)
        if r == 0:
            return base + rng.choice(CONTS)            # base is a prefix of it
        if r == 1 and len(base) > 1:
            return base[:-1]                           # a prefix of base
        if r == 2:
            return base
        return rng.choice(STARTS) + base
    n = rng.choice([0, 0, 0, 1, 1, 2, 3, 6])
    return rng.choice(STARTS) + "".join(rng.choice(CONTS) for _ in range(n))


class Line:
    def __init__(self):
        self.s = ""
        self.marks = []   # (col16, kind)

    def add(self, piece, kind=None):
        if kind:
            self.marks.append((u16(self.s), kind))
        self.s += piece


def gen_line(rng, idents, hist):
    ln = Line()
    nd = rng.choice([0, 1, 1, 2, 2, 3, 5, 8])
    if rng.chance(0.3):
        ln.add(rng.choice(["/*\U0001f600*/", "\"\U0001d4b3\u00e9\";", "\u20ac", "\U0001f600\U0001f600", "  ", "\u00e9=1;", "'\U00010400';"]), "junk")
    for _ in range(nd):
        form = rng.below(12)
        name = rng.choice(idents)
        blank = rng.choice(BLANKS) if rng.chance(0.25) else " "
        if rng.chance(0.1):
            blank += rng.choice(BLANKS)
        if form <= 5:      # function NAME(args){body}
            ln.add("function", "kw")
            ln.add(blank, "blank")
            ln.add(name, "name")
        elif form == 6:    # anonymous
            ln.add("function", "kw")
        elif form == 7:    # var NAME=function
            ln.add("var ")
            ln.add(name, "name")
            ln.add("=", "punct")
            ln.add("function", "kw")
        elif form == 8:    # function function
            ln.add("function", "kw")
            ln.add(blank, "blank")
            ln.add("function", "kw")
            if rng.chance(0.5):
                ln.add(blank, "blank")
                ln.add(name, "name")
        elif form == 9:    # keyword glued to something / near-keywords
            ln.add(rng.choice(["functions", "functio", "Function", "function$", "function" + ZWJ, "_function"]), "kw")
            ln.add(blank, "blank")
            ln.add(name, "name")
        elif form == 10:   # no blank: function/**/NAME, function(NAME
            ln.add("function", "kw")
            ln.add(rng.choice(["/**/", "(", "*", "\u20ac", "\U0001f600"]), "punct")
            ln.add(name, "name")
        else:              # method-like: NAME:function NAME2
            ln.add(name, "name")
            ln.add(":", "punct")
            ln.add("function", "kw")
            ln.add(blank, "blank")
            ln.add(rng.choice(idents), "name")
        ln.add("(", "punct")
        for k in range(rng.choice([0, 0, 1, 2])):
            if k:
                ln.add(",")
            ln.add(rng.choice(idents), "arg")
        ln.add(")")
        ln.add("{", "punct")
        for _ in range(rng.choice([0, 0, 1, 2])):
            r = rng.below(5)
            if r == 0:
                ln.add("return ", "stmt")
                ln.add(rng.choice(idents), "use")
                ln.add(rng.choice(JUNK))
            elif r == 1:
                ln.add(rng.choice(idents), "use")
                ln.add("(")
                ln.add("\"" + rng.choice(["\U0001d4b3", "\u00e9", "\U0001f600", "x"]) + "\"", "str")
                ln.add(");")
            elif r == 2:
                ln.add(rng.choice(JUNK), "junk")
            elif r == 3:
                ln.add(rng.choice(idents), "use")
                ln.add(rng.choice(JUNK), "junk")
                ln.add(rng.choice(idents), "use")
            else:
                ln.add(rng.choice(BLANKS), "blank")
        ln.add("}", "punct")
        if rng.chance(0.4):
            ln.add(rng.choice([";", ",", " ", "\u00a0", ""]))
    if rng.chance(0.2):
        ln.add(rng.choice(JUNK), "junk")
    return ln


def boundaries(s):
    out, c = [0], 0
    for ch in s:
        c += 2 if ord(ch) >= 0x10000 else 1
        out.append(c)
    return out


def gen_program(rng, hist, big=False):
    base = rand_ident(rng)
    idents = [base] + [rand_ident(rng, base) for _ in range(rng.choice([1, 2, 3, 5]))]
    if rng.chance(0.15):
        idents.append("function")
    nl = rng.choice([1, 1, 1, 2, 2, 3, 4])
    lines = [gen_line(rng, idents, hist) for _ in range(nl)]
    seps = [rng.choice(["\n", "\n", "\n", "\r\n", "\r"]) for _ in range(nl - 1)] + [rng.choice(["", "", "\n"])]
    text = "".join(l.s + s for l, s in zip(lines, seps))
    return idents, lines, text


def gen_tokens(rng, lines, nn, hist, allow_inpair, dense=False):
    toks = []
    inpair = False
    for li, ln in enumerate(lines):
        bset = set(boundaries(ln.s))
        end = u16(ln.s)
        for (col, kind) in ln.marks:
            p = {"kw": 0.8, "name": 0.85, "blank": 0.12, "punct": 0.15, "arg": 0.4, "use": 0.4, "stmt": 0.2, "str": 0.2, "junk": 0.2}[kind]
            if rng.chance(p):
                toks.append((li, col))
                if rng.chance(0.03):
                    toks.append((li, col))              # several tokens on one position
            if kind in ("kw", "name") and rng.chance(0.08):
                d = rng.choice([-2, -1, 1, 2, 3])       # before / after / inside the declaration
                if 0 <= col + d:
                    toks.append((li, col + d))
        for _ in range(rng.choice([0, 0, 1, 2])):
            toks.append((li, rng.below(end + 3)))       # anywhere, also past the end
        if rng.chance(0.08):
            toks.append((li, end + rng.choice([0, 1, 5, 1000, NONE - end])))
    if rng.chance(0.06):
        toks.append((len(lines) + rng.choice([0, 1, 7]), rng.below(5)))   # a line the text does not have
    if dense:
        # a token on every position of one line: every scan distance of the backward walk occurs
        li = rng.below(len(lines))
        toks = [(l, c) for (l, c) in toks if l != li] + [(li, c) for c in boundaries(lines[li].s)]
        bump(hist, "case_with_token_on_every_position_of_a_line")
    if allow_inpair:
        for li, ln in enumerate(lines):
            c = 0
            for ch in ln.s:
                if ord(ch) >= 0x10000 and rng.chance(0.3):
                    toks.append((li, c + 1))
                c += 2 if ord(ch) >= 0x10000 else 1
    fixed = []
    for (l, c) in toks:
        if l < len(lines):
            bset = set(boundaries(lines[l].s))
            if c < u16(lines[l].s) and c not in bset:
                if allow_inpair:
                    inpair = True
                else:
                    c -= 1
        fixed.append((l, c))
    toks = fixed
    out = []
    for (l, c) in toks:
        r = rng.below(20)
        nid = NONE if r == 0 else (nn + rng.below(3) if r == 1 else rng.below(max(nn, 1)))
        out.append((l, c, nid))
    has_ties = len(set((t[0], t[1]) for t in out)) != len(out)
    if has_ties or rng.chance(0.8):
        out.sort(key=lambda t: (t[0], t[1]))
    else:
        rng.shuffle(out)
        bump(hist, "tokens_given_unsorted")
    if inpair:
        bump(hist, "case_with_token_inside_surrogate_pair")
    if has_ties:
        bump(hist, "case_with_tied_positions")
    return out


def gen_queries(rng, lines, toks, idents, hist):
    cands = list(dict.fromkeys(idents + ["function"]))
    qs = []
    pos = sorted(set((t[0], t[1]) for t in toks))
    picks = []
    if pos:
        for _ in range(rng.choice([1, 2, 3, 4, 6])):
            (l, c) = rng.choice(pos)
            r = rng.below(10)
            if r < 5:
                picks.append((l, c))
            elif r < 8:
                picks.append((l, c + rng.choice([1, 2, 5, 100])))
            elif r == 8:
                picks.append((l + 1, rng.choice([0, 0, c])))
            else:
                picks.append((l, max(0, c - 1)))
        # the end of the program: the whole map is behind the query
        if rng.chance(0.5):
            picks.append((pos[-1][0], pos[-1][1] + 1))
        if rng.chance(0.1):
            picks.append((NONE, NONE))
        if rng.chance(0.1):
            picks.append((0, 0))
    else:
        picks.append((0, rng.below(4)))
    for (l, c) in picks:
        l, c = min(l, NONE), min(c, NONE)
        r = rng.below(10)
        if r < 5:
            names = cands                      # observe the text of every visited token
        elif r < 8:
            names = [rng.choice(cands)]
        else:
            names = [rng.choice(NONIDS), rng.choice(cands)]
        if rng.chance(0.08):
            names = names + [rng.choice(NONIDS)]
        for n in names:
            qs.append((l, c, n))
    bump(hist, "queries_per_case_%02d" % min(len(qs), 40))
    return qs[:40]


def window_case(rng, hist):
    """a declaration d tokens before the looked-up token, d around the 128-token window"""
    name = rand_ident(rng)
    other = rng.choice(["q", "w\u00e9", "\U0001d4b3q", "k9"])
    if other == name:
        other = "q7"
    d = rng.range(123, 131)            # index distance between the looked-up token and the name token
    pre = rng.choice(["", "\U0001f600;", "\u00e9;", "var z;"])
    multi = rng.chance(0.4)
    sep = rng.choice(["\n", "\r\n"])
    lines = [Line()]
    toks = []
    cur = lines[0]
    cur.add(pre)
    toks.append((0, u16(cur.s), 0)); cur.add("function")
    cur.add(" ")
    toks.append((0, u16(cur.s), 1)); cur.add(name)
    cur.add("(){")
    li = 0
    for k in range(d):
        if multi and k and rng.chance(0.05):
            lines.append(Line()); li += 1; cur = lines[li]
        piece = rng.choice([other, other, "1", "\U0001f600", "\"\U0001d4b3\"", other + "\u00e9"])
        toks.append((li, u16(cur.s), rng.below(4) + 2)); cur.add(piece)
        cur.add(rng.choice([";", ",", " ", "+"]))
    cur.add("}")
    # optionally a second, nearer declaration of another name (must not hide the first)
    text = sep.join(l.s for l in lines)
    last = toks[-1]
    qs = [(last[0], last[1], name), (last[0], last[1] + 1, name), (last[0], last[1], other), (last[0], last[1], "function")]
    if len(toks) > 3:
        t2 = toks[-2]
        qs.append((t2[0], t2[1], name))
        t3 = toks[-3]
        qs.append((t3[0], t3[1], name))
    bump(hist, "window_distance_%d" % d)
    return case(text, toks, 6, qs)


def exhaustive_small(hist, tier):
    out = []
    progs = ["function a(){}", "function \u00e9\U0001d4b3(){}function a(){}", "\U0001f600function \U0001d4b3(){a}", "function function(){}",
             "function a\n(){}function\nab(){}", "function  ab(a){function a(){}}", "a=function(){};function\u00a0a" + ZWJ + "(){}"]
    if tier == "quick":
        progs = progs[:3]
    for p in progs:
        lines = p.split("\n")
        cands = ["a", "ab", "\u00e9\U0001d4b3", "\U0001d4b3", "function", "a" + ZWJ, "1"]
        for mode in ("boundary", "all"):
            toks = []
            for li, l in enumerate(lines):
                cols = boundaries(l) if mode == "boundary" else list(range(u16(l) + 2))
                for c in cols:
                    toks.append((li, c, len(toks) % 5))
            if mode == "all" and all(ord(ch) < 0x10000 for ch in p):
                continue
            for li, l in enumerate(lines):
                for c in range(u16(l) + 2):
                    out.append(case(p, toks, 5, [(li, c, n) for n in cands]))
                    bump(hist, "exhaustive_small_" + mode)
    return out


def nontrivial(r):
    m = r["model"]
    return m.startswith("ok ") and any(x.startswith("n") for x in m[3:].split(","))


def corpus():
    f = "function function(){}"
    t2 = [(0, 0, 0), (0, 9, 1)]
    return [
        # F12 (fixed): identifiers ending in a multi-byte character
        case("function \u00e9(){}", t2, 2, [(0, 9, "\u00e9"), (0, 12, "\u00e9")]),
        case("function a\U0001d4b3(){}", t2, 2, [(0, 9, "a\U0001d4b3"), (0, 9, "a")]),
        # F13 (fixed): inexact lookup, name `function`
        case(f, t2, 2, [(0, 3, "function"), (0, 0, "function"), (0, 9, "function"), (0, 10, "function")]),
        case(f, [(0, 0, 0)], 1, [(0, 3, "function"), (0, 0, "function")]),
        # the pool itself: every table entry is cross-checked by the harness
        case("".join(POOL.keys()), [], 0, []),
        # empty name / empty text / empty map
        case("", [], 0, [(0, 0, ""), (0, 0, "a")]),
        case("function a(){}", [(0, 0, 0), (0, 9, 1)], 2, [(0, 9, ""), (0, 9, "a"), (0, 8, "a"), (5, 0, "a")]),
        # a token inside a surrogate pair poisons the cached offset of the tokens before it (outside the property)
        case("function a(){\U0001f600}", [(0, 0, 0), (0, 9, 1), (0, 14, 2)], 3, [(0, 14, "a"), (0, 13, "a")]),
    ]


def generate(tier, rng, hist):
    out = exhaustive_small(hist, tier)
    N = 2600 if tier == "quick" else 190000
    NW = 150 if tier == "quick" else 6000
    for _ in range(N):
        idents, lines, text = gen_program(rng, hist)
        nn = rng.choice([0, 1, 2, 4, 8])
        toks = gen_tokens(rng, lines, nn, hist, allow_inpair=rng.chance(0.1), dense=rng.chance(0.1))
        qs = gen_queries(rng, lines, toks, idents, hist)
        out.append(case(text, toks, nn, qs))
        bump(hist, "lines_%d" % len(lines))
        bump(hist, "tokens_%03d" % (min(len(toks), 60) // 5 * 5))
        if any(ord(c) >= 0x10000 for c in text):
            bump(hist, "text_with_astral")
    for _ in range(NW):
        out.append(window_case(rng, hist))
    # unstructured stream: any characters of the pool, tokens anywhere (also inside surrogate pairs)
    allch = list(POOL.keys()) + list("function(){} \t;$_a1") + ["function", "function ", "\n", "\r\n", "\r"]
    for _ in range(N // 20):
        text = "".join(rng.choice(allch) for _ in range(rng.small(40)))
        ls = text.replace("\r\n", "\n").replace("\r", "\n").split("\n")
        toks = sorted(set((rng.below(len(ls) + 1), rng.below(u16(rng.choice(ls)) + 3)) for _ in range(rng.small(30))))
        toks = [(l, c, rng.below(3)) for (l, c) in toks]
        names = [rng.choice(["function", "a", "a1", "$", "_", "\u00e9", "\U0001d4b3", "a\u200d", "1", "", "\u00b7"]) for _ in range(3)]
        qs = [(l, c + rng.choice([0, 0, 1]), n) for (l, c, _) in toks[-4:] for n in names]
        out.append(case(text, toks, 3, qs))
        bump(hist, "unstructured")
    return out
