"""C14 - Hermes maps resolve tokens to the enclosing function their metadata describes."""
from common import *
import itertools

PROP = "C14"
CONSTS = ["B64_CHARS", "B64"]
THEOREMS = {"SmVerif.Props.C14": [
    "SmVerif.C14.c14_decode_eq_metro",
    "SmVerif.C14.c14_decode_all_eq_metro",
    "SmVerif.C14.c14_scope",
    "SmVerif.C14.c14_scope_offset",
    "SmVerif.C14.c14_scope_needs_order",
    "SmVerif.C14.c14_none_cases",
    "SmVerif.C14.c14_line_max",
    "SmVerif.C14.c14_line_max_witness",
    "SmVerif.C14.c14_resolves",
    "SmVerif.C14.c14_bad_map_local",
    "SmVerif.C14.c14_roundtrip_stable",
    "SmVerif.C14.c14_safe",
]}
TRUSTED = BASE_TRUST + [
    "model: lean/SmVerif/Model/Hermes.lean mirrors decode_hermes, get_scope_for_token, get_original_function_name and as_raw_sourcemap of hermes.rs; "
    "std slice::partition_point is modelled by the bisection of Model/Lookup.lean (bsearchLoop, Rust 1.95) - the theorems only use its contract on sorted input, the literal bisection is compared on unsorted entries",
    "serde_json delivers `x_facebook_sources` (nulls, empty lists, {names, mappings}) and writes it back unchanged (JSON layer trusted, exercised through to_writer + from_slice)",
    "token decoding / ordering / lookup_token: Model/Mappings.lean, Model/Lookup.lean with their own properties C01, C02, C04, C06",
]
ASSUMPTIONS = [
    "well-formed function map = every VLQ value fits 63 bits, all running sums are u32s, entries in non-decreasing (line, column) order (ties allowed); outside that the property is silent and only model = implementation is compared",
    "a token on source line u32::MAX has no representable 1-based line: the code answers none (checked_add), the literal reading of the property gives the last entry; both are admitted by the comparison and the case is reported",
    "x_facebook_sources has fewer than 2^32 elements (so that the `no source` id !0 never indexes it)",
]
RULE = ("documents with 0-4 sources, tokens mostly on generated line 0 (bytecode offsets) placed on / next to / before the function-map entries of their source, "
        "function maps with 0-8 entries in arbitrary `;` grouping, duplicate positions, omitted trailing VLQ fields, extra fields, empty groups and segments, "
        "null / [] / several metadata entries, name indices out of range, empty and non-ASCII names, x_facebook_sources shorter / longer than sources or absent, "
        "faulty texts (foreign byte, cut-off value, 14+ digits, values beyond 63 bits, running sums leaving u32, unsorted entries), range tokens, src_line = 2^32-1; "
        "exhaustive function-map texts of length <= 3 (4 in thorough) over a 7-symbol alphabet; all sorted entry lists of <= 3 entries over 3 positions x 3 name indices queried on a 3x5 grid. "
        "non-trivial = at least one scope resolves to a name or the document is rejected; distinct = distinct case line")
EXHAUSTIVE = {"quick": False, "thorough": False}

U32MAX = 4294967295


def nontrivial(r):
    m = r["model"]
    if m.startswith("err"):
        return True
    body = m[3:].split(",")
    return any(x not in ("T", "O", "~", "R1") for x in body)


# ------------------------------------------------------------------ encoders (the generator's own)

def enc_seg(vals):
    return "".join(vlq_enc(v) for v in vals)


def enc_rmi(bits):
    """bits: list of 0/1 per segment index on a line -> base64 (6 bits per char, LSB first), trimmed"""
    while bits and not bits[-1]:
        bits = bits[:-1]
    out = ""
    for i in range(0, len(bits), 6):
        ch = bits[i:i + 6]
        out += B64[sum(b << j for j, b in enumerate(ch))]
    return out


def render_tokens(ts):
    """ts: sorted list of (dl, dc, src|None, sl, sc, name|None, rng).  returns (mappings, rangeMappings|None)"""
    lines = {}
    for t in ts:
        lines.setdefault(t[0], []).append(t)
    nl = (max(lines) + 1) if lines else 0
    src = sl = sc = nm = 0
    out, rout, anyr = [], [], False
    for l in range(nl):
        col = 0
        segs, bits = [], []
        for t in lines.get(l, []):
            f = [t[1] - col]
            col = t[1]
            if t[2] is not None:
                f += [t[2] - src, t[3] - sl, t[4] - sc]
                src, sl, sc = t[2], t[3], t[4]
                if t[5] is not None:
                    f.append(t[5] - nm)
                    nm = t[5]
            segs.append(enc_seg(f))
            bits.append(1 if t[6] else 0)
            anyr = anyr or bool(t[6])
        out.append(",".join(segs))
        rout.append(enc_rmi(bits))
    return ";".join(out), (";".join(rout) if anyr else None)


def render_fm(entries, rng, hist, keep_all_fields=False):
    """entries: list of (line, col, nameidx) -> mapping text with an arbitrary `;` grouping"""
    groups = [[]]
    line, name, col = 1, 0, 0
    for (l, c, n) in entries:
        if groups[-1] and (rng.chance(0.35) or (l != line and rng.chance(0.6))):
            groups.append([])
            col = 0
            while rng.chance(0.1):
                groups.append([])
        f = [c - col, n - name, l - line]
        col, name, line = c, n, l
        if not keep_all_fields and rng.chance(0.7):
            if f[2] == 0:
                f = f[:2]
                if f[1] == 0:
                    f = f[:1]
                bump(hist, "fm_seg_fields_%d" % len(f))
        elif rng.chance(0.08):
            f += [rng.range(-3, 3)] * rng.choice([1, 2])
            bump(hist, "fm_seg_extra_fields")
        groups[-1].append(enc_seg(f))
        if rng.chance(0.05):
            groups[-1].append("")
    text = ";".join(",".join(g) for g in groups)
    if rng.chance(0.1):
        text = rng.choice([";", ",", ";;"]) + text
    if rng.chance(0.1):
        text += rng.choice([";", ",", ";,"])
    return text


NAMEPOOL = ["a", "b", "foo", "<global>", "Bar.baz", "", "é", "名", "x y", "f\"q\\", "n0"]


def names_text(names):
    if not names:
        return "-"
    return ".".join("_" if n == "" else hx(n) for n in names)


def rand_entries(rng, hist):
    """sorted entries with duplicates"""
    k = rng.choice([0, 1, 1, 2, 2, 3, 3, 4, 5, 6, 8])
    pos = []
    for _ in range(k):
        if pos and rng.chance(0.18):
            pos.append(rng.choice(pos))
        else:
            pos.append((rng.choice([1, 1, 1, 2, 2, 3, 4, 7, 12]), rng.choice([0, 0, 1, 2, 3, 5, 8, 13, 40])))
    pos.sort()
    bump(hist, "fm_entries_%d" % k)
    return pos


def make_fm(rng, hist):
    """returns (src text, entries or None, nnames) - entries None when the map is absent/unreadable/outside"""
    r = rng.below(100)
    if r < 8:
        bump(hist, "src_null")
        return "n", None
    if r < 12:
        bump(hist, "src_empty_list")
        return "e", None
    pos = rand_entries(rng, hist)
    nn = rng.choice([0, 1, 2, 2, 2, 3, 3, 4, 5])
    names = [rng.choice(NAMEPOOL) for _ in range(nn)]
    ents = []
    for p in pos:
        if nn and not rng.chance(0.06):
            ni = rng.below(nn)
        else:
            ni = nn + rng.below(3)
            bump(hist, "name_index_out_of_range")
        ents.append((p[0], p[1], ni))
    kind = "valid"
    if r >= 70:
        kind = rng.choice(["foreign", "cont", "long", "nofit", "wrapneg", "wrapbig", "unsorted", "unsorted", "line0", "bigline"])
    bump(hist, "fm_" + kind)
    if kind == "unsorted" and len(ents) >= 2:
        rng.shuffle(ents)
    if kind == "wrapneg" and ents:
        i = rng.below(len(ents))
        l, c, n = ents[i]
        ents[i] = rng.choice([(l, c - 50, n), (l, c, n - 9), (l - 20, c, n)])
    if kind == "wrapbig" and ents:
        i = rng.below(len(ents))
        l, c, n = ents[i]
        ents[i] = rng.choice([(l, c + (1 << 32), n), (l, c, n + (1 << 32)), (l + (1 << 32), c, n), (l, (1 << 32) + 5, n), (l, c + (1 << 33), n)])
    if kind == "line0" and ents:
        # an entry on line 0 (before every 0-based source line): legal u32, below every query
        ents = [(0, ents[0][1], ents[0][2])] + ents
    if kind == "bigline" and ents:
        big = rng.choice([U32MAX, U32MAX - 1, 1 << 31, (1 << 31) - 1])
        ents = ents + [(big, rng.choice([0, 5, U32MAX]), ents[-1][2])]
    text = render_fm(ents, rng, hist)
    if kind in ("foreign", "cont", "long", "nofit"):
        segs = [(i, j) for i, g in enumerate(text.split(";")) for j, s in enumerate(g.split(",")) if s]
        gl = [g.split(",") for g in text.split(";")]
        if not segs:
            gl = [["A"]]
            segs = [(0, 0)]
        i, j = segs[rng.below(len(segs))]
        t = gl[i][j]
        if kind == "foreign":
            p = rng.below(len(t) + 1)
            t = t[:p] + rng.choice(["!", "=", " ", "-", "_", "é", "\x7f", "."]) + t[p:]
        elif kind == "cont":
            t = t[:-1] + B64[B64.index(t[-1]) | 32]
        elif kind == "long":
            t = t + B64[32 + rng.below(32)] * rng.range(13, 15) + rng.choice(["A", "B", ""])
        else:
            t = t + B64[32 + rng.below(32)] * 12 + B64[rng.range(8, 31)]
        gl[i][j] = t
        text = ";".join(",".join(g) for g in gl)
    src = "%s:%s" % (names_text(names), hx(text))
    while rng.chance(0.1):
        src += "+%s:%s" % (names_text([rng.choice(NAMEPOOL)]), hx(rng.choice(["", "AAA", "!", "AAC,CC"])))
        bump(hist, "extra_metadata_entry")
    return src, ents


def rand_case(rng, hist, big=False):
    nsrc = rng.choice([1, 1, 1, 2, 2, 3, 4, 0])
    nn = rng.choice([0, 0, 1, 2])
    nfs = nsrc
    r = rng.below(100)
    if r < 6:
        nfs = max(0, nsrc - 1)
        bump(hist, "fsources_shorter")
    elif r < 12:
        nfs = nsrc + rng.choice([1, 2])
        bump(hist, "fsources_longer")
    fms = [make_fm(rng, hist) for _ in range(nfs)]
    # tokens
    ntok = rng.choice([0, 1, 2, 3, 4, 5, 6, 8, 12]) if not rng.chance(0.05) else rng.range(13, 40)
    multi = rng.chance(0.2)
    ts = []
    for _ in range(ntok):
        dl = rng.choice([0, 0, 1, 2]) if multi else 0
        dc = rng.choice([0, 1, 2, 3, 5, 8, 13, 21, 34, 55, 89]) if rng.chance(0.8) else rng.below(200)
        if ts and rng.chance(0.1):
            dl, dc = ts[rng.below(len(ts))][:2]
        if nsrc == 0 or rng.chance(0.1):
            ts.append((dl, dc, None, 0, 0, None, rng.chance(0.1)))
            bump(hist, "token_without_source")
            continue
        s = rng.below(nsrc)
        ents = fms[s][1] if s < len(fms) else None
        if ents and rng.chance(0.85):
            l, c, _ = ents[rng.below(len(ents))]
            k = rng.below(10)
            if k < 3:
                sl, sc = l - 1, c
                bump(hist, "token_exact_hit")
            elif k < 5:
                sl, sc = l - 1, c + rng.choice([1, 2, 100])
            elif k < 7:
                sl, sc = l - 1, c - 1
            elif k < 8:
                sl, sc = l, rng.choice([0, c])
            else:
                sl, sc = l - 2, rng.choice([c, U32MAX, 0])
        else:
            sl, sc = rng.choice([0, 0, 1, 2, 3, 6, 11]), rng.choice([0, 1, 2, 4, 8, 13, 40, 41])
        if rng.chance(0.04 if not big else 0.4):
            sl = rng.choice([U32MAX, U32MAX, U32MAX - 1, 1 << 31])
            bump(hist, "token_src_line_%d" % sl)
        if rng.chance(0.03):
            sc = rng.choice([U32MAX, 1 << 31])
        sl = min(max(sl, 0), U32MAX)
        sc = min(max(sc, 0), U32MAX)
        nm = rng.below(nn) if nn and rng.chance(0.4) else None
        ts.append((dl, dc, s, sl, sc, nm, rng.chance(0.12)))
    if rng.chance(0.1) and ts:
        ts.append(ts[rng.below(len(ts))])
        bump(hist, "duplicate_token")
    ts.sort(key=lambda t: (t[0], t[1]))
    m, rmi = render_tokens(ts)
    if rng.chance(0.03):
        # a fault in the main mappings: decoding the map itself fails
        m = m + rng.choice(["!", ",AA", "g", ",AAAAAA", ",AEAA"])
        bump(hist, "main_mappings_fault")
    bump(hist, "nsrc_%d" % nsrc)
    bump(hist, "ntok_%02d" % min(len(ts), 13))
    if rmi is not None:
        bump(hist, "with_range_mappings")
    # offsets
    cols = sorted({t[1] for t in ts if t[0] == 0})
    offs = []
    for _ in range(rng.choice([0, 1, 2, 3, 5, 8])):
        if cols and rng.chance(0.8):
            c = rng.choice(cols)
            offs.append(max(0, c + rng.choice([0, 0, 1, -1, 2, 7])))
        else:
            offs.append(rng.choice([0, 1, 100, 1000, U32MAX, 1 << 31]))
    if rng.chance(0.015):
        fs = "absent"
        bump(hist, "fsources_absent")
    elif not fms:
        fs = "-"
    else:
        fs = ";".join(f[0] for f in fms)
    return "hermes.scope %d %d %s %s %s %s" % (nsrc, nn, hx(m), hx(rmi) if rmi is not None else "none", fs, ilist(offs))


def corpus():
    # F18 (fixed): two entries at one position, exact hit -> the last one
    f18 = "hermes.scope 1 0 %s none %s:%s 0,1" % (hx("AAAA,CAAC"), names_text(["first", "second"]), hx("AAA,AC"))
    # F8 (fixed): token on source line u32::MAX
    f8 = "hermes.scope 1 0 %s none %s:%s 0" % (hx(enc_seg([0, 0, U32MAX, 0])), names_text(["f"]), hx("AAA"))
    return [
        f18, f8,
        # Metro style: one group per line, third field carries the line delta
        "hermes.scope 1 0 %s none %s:%s 0,4,9" % (hx("AAAA,IACA,KAEE"), names_text(["<global>", "foo", "bar"]), hx("AAA;ECC,GC;IDC")),
        # a bad function map for source 0 only
        "hermes.scope 2 0 %s none %s:%s;%s:%s 0,2" % (hx("AAAA,ECAA"), names_text(["a"]), hx("AA!"), names_text(["b"]), hx("AAA")),
        "hermes.scope 1 0 %s none absent 0" % hx("AAAA"),
        "hermes.scope 1 0 %s none n 0" % hx("AAAA"),
        "hermes.scope 1 0 %s none e 0" % hx("AAAA"),
        "hermes.scope 1 0 %s none - 0" % hx("AAAA"),
        # name index out of range
        "hermes.scope 1 0 %s none %s:%s 0" % (hx("AAAA"), names_text(["a"]), hx("ACA")),
        # range token: the reported column includes the offset
        "hermes.scope 1 0 %s %s %s:%s 0,3,9" % (hx("AAAA"), hx("B"), names_text(["a", "b"]), hx("AAA,GC")),
    ]


def exhaustive_fm(tier, out, hist):
    syms = ["A", "C", "D", "g", ",", ";", "!"]
    L = 3 if tier == "quick" else 4
    # tokens on source lines 0..2, columns 0..2 of source 0 (all combinations), one group of offsets
    ts = []
    dc = 0
    for sl in range(3):
        for sc in range(3):
            ts.append((0, dc, 0, sl, sc, None, False))
            dc += 1
    m, _ = render_tokens(ts)
    names = names_text(["a", "b"])
    n = 0
    for k in range(1, L + 1):
        for combo in itertools.product(syms, repeat=k):
            out.append("hermes.scope 1 0 %s none %s:%s 0,4,8" % (hx(m), names, hx("".join(combo))))
            n += 1
    bump(hist, "exhaustive_fm_text_len<=%d" % L, n)


def exhaustive_entries(tier, rng, out, hist):
    """all sorted entry lists of <= 3 entries over 3 positions x 3 name indices (one out of range),
    queried at every position of a 3x4 grid around them (exact hits, just before, just after)"""
    poss = [(1, 0), (1, 3), (2, 1)]
    ts = []
    dc = 0
    for sl in range(3):
        for sc in range(5):
            ts.append((0, dc, 0, sl, sc, None, False))
            dc += 1
    m, _ = render_tokens(ts)
    names = names_text(["a", "b"])
    n = 0
    for k in range(0, 4):
        for combo in itertools.combinations_with_replacement(poss, k):
            for nm in itertools.product([0, 1, 2], repeat=k):
                ents = [(p[0], p[1], x) for p, x in zip(combo, nm)]
                text = render_fm(ents, rng, {}, keep_all_fields=rng.chance(0.5))
                out.append("hermes.scope 1 0 %s none %s:%s 0,7,14" % (hx(m), names, hx(text)))
                n += 1
    bump(hist, "exhaustive_entry_lists_len<=3", n)


def generate(tier, rng, hist):
    out = []
    n = 3000 if tier == "quick" else 200000
    for _ in range(n):
        out.append(rand_case(rng, hist))
    for _ in range(200 if tier == "quick" else 8000):
        out.append(rand_case(rng, hist, big=True))
    exhaustive_fm(tier, out, hist)
    exhaustive_entries(tier, rng, out, hist)
    return out
