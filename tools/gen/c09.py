"""C09 - rewriting a map never changes what any position resolves to."""
from common import *
import itertools

PROP = "C09"
CONSTS = ["absPrefixes"]
_P = "SmVerif.C09."
THEOREMS = {"SmVerif.Props.C09": [_P + n for n in (
    "c09_safe", "c09_observe", "rewrite_closed", "c09_tokens", "c09_token_at", "c09_ids", "c09_sorted", "c09_sources", "c09_names",
    "c09_no_unreferenced", "c09_no_dup_before_strip", "firstUse_spec", "c09_contents", "c09_contents_unique", "c09_contents_dropped",
    "c09_file_debugid", "c09_root_ignore_dropped", "c09_strip_spec", "c09_mapping", "c09_hermes_perm", "c09_hermes_scope",
    "c09_hermes_scope_distinct", "c09_hermes_dup_counterexample")]}
TRUSTED = BASE_TRUST + [
    "model: lean/SmVerif/Model/Builder.lean (SourceMapBuilder add_token/add_with_id/add_source_with_id/add_name/set_source_contents/strip_prefixes/into_sourcemap, "
    "SourceMap::rewrite_with_mapping), Model/SourceMap.lean (SourceMap::new, set_source_root, get_source, get_source_contents), Model/Rewrite.lean (SourceMapHermes::rewrite permutation, get_scope_for_token's choice of function map); "
    "FxHashMap entry().or_insert() as a first-match association list; Vec/Arc<str>/str::starts_with as documented",
    "sort_unstable_by_key leaves an already ordered slice unchanged and is stable below 21 elements (the generator pre-orders longer token lists)",
    "the function-map decoder and the scope search inside one function map (C14) are abstract in the theorems; the driver uses a direct reading for ascending entries",
]
ASSUMPTIONS = [
    "explicit prefixes only: the '~' entry of strip_prefixes (common-prefix detection) and load_local_source_contents (file system) are out of scope",
    "fewer than 2^32-1 tokens (the builder's u32 ids do not reach the !0 sentinel)",
    "strings are compared as UTF-8 byte strings",
    "Hermes: tokens that carry the same source name select equal function maps (true when source names are distinct); otherwise the scope of the later id changes - reported as a finding",
]
RULE = ("maps built through SourceMap::new + set_source_root/set_debug_id/add_to_ignore_list with 0-6 sources (duplicates, names made equal by the root, unreferenced, listed against first use), 0-5 names, "
        "source/name ids valid, absent and out of range, contents vector absent/partial/short/long, x with_names x with_source_contents x prefix sets "
        "(none, one, several, with/without trailing '/', non-matching, equal to a whole source, empty); ops rw.run (resolved view), rw.raw (ids, root, ignore list: model only), rw.hermes (scopes before/after); "
        "exhaustive block: <=3 sources over 2 names x contents pattern x <=3 tokens over all source choices x 3 name patterns x 8 option sets. "
        "non-trivial = the rewritten sources/names differ from the input lists, or an option is off, or a prefix is given (rw.*); at least one resolved scope (rw.hermes); distinct = distinct case line")
EXHAUSTIVE = {"quick": False, "thorough": True}
NONE = 4294967295


def item(s):
    return hx(s)


def lst(xs):
    return ",".join(item(x) for x in xs) if xs else "_"


def opt(x):
    return "~" if x is None else item(x)


def optlst(xs):
    return ",".join(opt(x) for x in xs) if xs else "_"


def tokstr(ts):
    return ";".join("%d:%d:%d:%d:%d:%d:%d" % t for t in ts) if ts else "-"


def presort(ts):
    """token lists longer than 20 are handed over already ordered (ties keep their order)"""
    if len(ts) > 20:
        return sorted(ts, key=lambda t: (t[0], t[1]))
    return ts


def line(op, sources, names, root, contents, file, dbg, toks, ign, wn, wc, prefixes):
    return " ".join([op, lst(sources), lst(names), opt(root), "_" if contents is None else (optlst(contents) if contents else "_"),
                     opt(file), opt(dbg), tokstr(presort(toks)), ilist(ign), str(wn), str(wc), lst(prefixes)])


def nontrivial(r):
    t = r["case"].split(" ")
    if not r["model"].startswith("ok"):
        return False
    if t[0] == "rw.hermes":
        body = r["model"].split(" ")[1]
        return any(not p.startswith("~/") for p in body.split(";")) and body != "_"
    if t[9] == "0" or t[10] == "0" or t[11] != "_":
        return True
    if t[0] == "rw.run":
        f = dict(x.split("=", 1) for x in r["model"].split(" ")[1:])
        return f.get("S") != t[1] or f.get("N") != t[2]
    return True


DBG = "0a1b2c3d-4e5f-6071-8293-a4b5c6d7e8f9"


def corpus():
    r = []
    T = [(0, 0, 1, 1, 1, 1, 0), (0, 5, 2, 2, 0, 0, 1), (1, 0, 3, 3, 2, 2, 0)]
    # duplicates, contents of the second id used first
    r.append(line("rw.run", ["a/b", "a/b", "c"], ["n1", "n1", "n2"], None, ["AA", "BB", None], "f", None, T, [1], 1, 1, []))
    # root folded into the names, prefix stripped afterwards, out-of-range and absent ids
    T2 = T[:2] + [(1, 0, 3, 3, 7, 2, 0), (2, 0, 9, 9, NONE, NONE, 0), (2, 1, 9, 9, 0, 9, 0), (2, 2, 1, 1, NONE, 1, 1)]
    for wn in (0, 1):
        for wc in (0, 1):
            r.append(line("rw.run", ["a/b", "a/b", "c"], ["n1", "n1", "n2"], "r", ["AA", "BB", None], "f", DBG, T2, [0, 2], wn, wc, ["r/a"]))
            r.append(line("rw.raw", ["a/b", "a/b", "c"], ["n1", "n1", "n2"], "r", ["AA", "BB", None], "f", DBG, T2, [0, 2], wn, wc, ["r/a"]))
    # two raw names made equal by the root, different contents; first id without contents is skipped
    r.append(line("rw.run", ["x", "/r/x", "y"], [], "/r", [None, "second", "Y"], None, None, [(0, 0, 0, 0, 0, NONE, 0), (0, 1, 0, 0, 1, NONE, 0), (0, 2, 0, 0, 2, NONE, 0)], [], 1, 1, ["/r/"]))
    r.append(line("rw.run", ["x", "/r/x", "y"], [], "/r", ["first", "second", "Y"], None, None, [(0, 0, 0, 0, 1, NONE, 0), (0, 1, 0, 0, 0, NONE, 0)], [], 1, 1, ["", "/r"]))
    # prefix stripping makes two names equal; prefix equal to a whole source; several prefixes, only the first match is removed
    r.append(line("rw.run", ["a/x", "b/x", "a", "a/"], [], None, None, None, None, [(0, i, 0, 0, i, NONE, 0) for i in range(4)], [], 1, 1, ["a", "b/"]))
    r.append(line("rw.run", ["a/a/x", "a/x"], [], None, None, None, None, [(0, i, 0, 0, i, NONE, 0) for i in range(2)], [], 1, 1, ["a/a", "a"]))
    r.append(line("rw.run", ["a/a/x", "a/x"], [], None, None, None, None, [(0, i, 0, 0, i, NONE, 0) for i in range(2)], [], 1, 1, ["a", "a/a"]))
    # contents vector shorter / longer than sources
    r.append(line("rw.run", ["a", "b", "c"], [], None, ["A"], None, None, [(0, i, 0, 0, 2 - i, NONE, 0) for i in range(3)], [], 1, 1, []))
    r.append(line("rw.run", ["a"], [], None, ["A", "B", "C"], None, None, [(0, 0, 0, 0, 0, NONE, 0)], [], 1, 1, []))
    # more sources than a byte can index, every one referenced (in reverse order) and every one with contents: the
    # builder's own ids run past 255 too
    r.append(line("rw.run", ["s%d" % i for i in range(300)], [], None, ["C%d" % i for i in range(300)], None, None,
                  [(0, i, 0, 0, 299 - i, NONE, 0) for i in range(300)], [], 1, 1, []))
    # empty map
    r.append(line("rw.run", [], [], None, None, None, None, [], [], 1, 1, []))
    r.append(line("rw.run", ["a"], ["n"], "", [None], "", None, [], [], 0, 0, ["a"]))
    # Hermes: permuted sources; F9 shape (short x_facebook_sources); duplicate names with different function maps (finding)
    r.append("rw.hermes 61,62,63 6e 6630=1.0.0,~,6632+6633=1.0.0+3.1.1 0:0:1:1:2:0:0;0:5:2:2:1:0:0;0:9:2:2:2:0:0 1 1 _")
    r.append("rw.hermes 61,62,63 6e 6630=1.0.0 0:0:1:1:2:0:0 1 1 _")
    # more sources than a byte can index, most of them unreferenced: the function maps follow their sources through the
    # renumbering (ids 299, 256, 255, 0 become 0..3)
    hx_ = lambda t: t.encode().hex()
    r.append("rw.hermes %s 6e %s %s 1 1 _" % (",".join(hx_("s%d" % i) for i in range(300)), ",".join("%s=1.0.0" % hx_("f%d" % i) for i in range(300)),
                                            ";".join("0:%d:0:1:%d:0:0" % (c, sid) for c, sid in ((0, 299), (5, 256), (9, 255), (12, 0)))))
    r.append("rw.hermes 61,62,61 6e 6630=1.0.0,6631=1.0.0,6632=1.0.0 0:0:1:1:2:0:0;0:5:2:2:1:0:0;0:9:2:2:0:0:0 1 1 _")
    return r


SRC_POOL = ["a/b.js", "a/c.js", "a", "a/", "a/a/b.js", "/abs/x.js", "/r/x", "x", "http://h/x.js", "https://h/y", "", "src/a/b.js", "b.js", "é/ü.js", "x//y", "/", "ab/c.js"]
ROOTS = [None, None, None, "", "r", "r/", "/r", "/r/", "a", "/", "http://h"]
NAME_POOL = ["n", "m", "", "é", "long_name", "n"]
FILES = [None, "f.js", "", "out/é.js"]


def prefixed(root, s):
    if not root:
        return s
    rt = root[:-1] if root.endswith("/") else root
    if s and (s.startswith("/") or s.startswith("http:") or s.startswith("https:")):
        return s
    return rt + "/" + s


def prefix_sets(rng, root, sources):
    """prefix lists derived from the names the map actually exposes"""
    k = rng.below(10)
    if k < 3 or not sources:
        return [] if k < 2 or not sources else [rng.choice(["zz", "", "a", "r", "/"])]
    cands = []
    for s in sources:
        p = prefixed(root, s)
        parts = p.split("/")
        for i in range(1, len(parts) + 1):
            c = "/".join(parts[:i])
            cands += [c, c + "/"]
        cands.append(p)
    cands += ["zz", "", "a", "b", "r", "/", "a/b.js/"]
    cands = [c for c in cands if c != "~"]
    n = 1 if k < 6 else rng.range(2, 4)
    return [rng.choice(cands) for _ in range(n)]


def rand_map(rng, hist):
    ns = rng.choice([0, 1, 1, 2, 2, 3, 3, 3, 4, 5, 6])
    pool = SRC_POOL if rng.chance(0.6) else SRC_POOL[:4]
    sources = [rng.choice(pool) for _ in range(ns)]
    if ns >= 2 and rng.chance(0.35):  # force a duplicate
        sources[rng.below(ns)] = sources[rng.below(ns)]
    root = rng.choice(ROOTS)
    nn = rng.choice([0, 1, 2, 2, 3, 4, 5])
    names = [rng.choice(NAME_POOL) for _ in range(nn)]
    c = rng.below(10)
    if c < 2:
        contents = None
    elif c < 7:
        contents = [None if rng.chance(0.35) else "C%d" % i for i in range(ns)]
    elif c < 8:
        contents = [None if rng.chance(0.3) else "C%d" % i for i in range(rng.below(ns + 1))]
    else:
        contents = [None if rng.chance(0.3) else "C%d" % i for i in range(ns + rng.range(1, 2))]
    if contents is not None and rng.chance(0.15):
        contents = [("" if x is not None and rng.chance(0.5) else x) for x in contents]
    nt = rng.small(40)
    toks = []
    order_desc = rng.chance(0.3)  # sources used against their listing order
    for i in range(nt):
        if toks and rng.chance(0.12):
            toks.append(toks[rng.below(len(toks))])
            continue
        if toks and rng.chance(0.15):
            dl, dc = toks[rng.below(len(toks))][:2]
        else:
            dl, dc = rng.below(3), rng.below(10)
        u = rng.below(100)
        if ns == 0 or u < 12:
            src = NONE
        elif u < 18:
            src = rng.choice([ns, ns + 3, NONE - 1])
        else:
            src = rng.below(ns)
            if order_desc:
                src = ns - 1 - src if dl == 0 else src
        u = rng.below(100)
        if nn == 0 or u < 35:
            nm = NONE
        elif u < 41:
            nm = rng.choice([nn, nn + 2, NONE - 1])
        else:
            nm = rng.below(nn)
        sl = rng.choice([0, 1, 2, 7, 100, NONE]) if rng.chance(0.3) else rng.below(6)
        sc = rng.choice([0, 3, NONE, 1 << 31]) if rng.chance(0.2) else rng.below(9)
        toks.append((dl, dc, sl, sc, src, nm, 1 if rng.chance(0.15) else 0))
    if rng.chance(0.5):
        toks.sort(key=lambda t: (t[0], t[1]))
    ign = sorted(set(rng.below(ns + 1) for _ in range(rng.below(3)))) if ns else []
    bump(hist, "sources_%d" % ns)
    bump(hist, "tokens_%s" % (nt if nt < 4 else "4-11" if nt < 12 else "12+"))
    bump(hist, "dup_source_strings" if len(set(prefixed(root, s) for s in sources)) < ns else "distinct_source_strings")
    bump(hist, "contents_" + ("absent" if contents is None else "full" if len(contents) == ns else "short" if len(contents) < ns else "long"))
    bump(hist, "root_" + ("none" if root is None else "empty" if root == "" else "set"))
    return sources, names, root, contents, rng.choice(FILES), (DBG if rng.chance(0.3) else None), toks, ign


def exhaustive(rng, hist, sample=None):
    out = []
    P = ["a/x", "a/y"]
    optsets = [(wn, wc, pre) for wn in (0, 1) for wc in (0, 1) for pre in ([], ["a"])]
    for ns in range(0, 4):
        for strs in itertools.product(P, repeat=ns):
            for cpat in itertools.product((0, 1), repeat=ns):
                contents = [("C%d" % i if cpat[i] else None) for i in range(ns)]
                for nt in range(0, 4):
                    for srcs in itertools.product(list(range(ns)) + [NONE], repeat=nt):
                        for npat in range(3):
                            if npat == 0:
                                names, nms = [], [NONE] * nt
                            elif npat == 1:
                                names, nms = ["n", "m"], [0, 1, 0][:nt]
                            else:
                                names, nms = ["n", "n", "u"], [1, 1, 0][:nt]
                            if nt == 0 and npat > 0 and ns > 0:
                                continue
                            toks = [(0, i, i, i + 1, srcs[i], nms[i], 0) for i in range(nt)]
                            for (wn, wc, pre) in optsets:
                                if sample is not None and not rng.chance(sample):
                                    continue
                                out.append(line("rw.run", list(strs), names, None, contents, None, None, toks, [], wn, wc, pre))
    bump(hist, "exhaustive_small_scope", len(out))
    return out


def hermes_case(rng, hist):
    ns = rng.range(1, 5)
    pool = ["a", "b", "c/d", "e", "p/q", "p/r"]
    rng.shuffle(pool)
    sources = pool[:ns]
    kind = "distinct"
    fm = []
    for i in range(ns):
        if rng.chance(0.15):
            fm.append("~")
            continue
        k = rng.below(4)
        names = ["f%d" % i, "g%d" % i, "h"][:rng.range(1, 3)]
        ents = sorted(set((rng.range(1, 5), rng.below(7)) for _ in range(k)))
        es = "+".join("%d.%d.%d" % (l, c, rng.below(len(names) + (1 if rng.chance(0.1) else 0))) for (l, c) in ents)
        fm.append("+".join(hx(n) for n in names) + "=" + es)
    if ns >= 2 and rng.chance(0.2):
        i, j = rng.below(ns), rng.below(ns)
        if i != j:
            sources[j] = sources[i]
            if rng.chance(0.6):
                fm[j] = fm[i]
                kind = "dup_same_fmap"
            else:
                kind = "dup_other_fmap(outside)"
    u = rng.below(20)
    if u == 0:
        fm = fm[:rng.below(ns)]
        kind = "short_metadata(outside)"
    elif u == 1:
        fm = fm + ["~", hx("zz") + "=1.0.0"]
        kind = "long_metadata(outside)"
    nn = rng.below(3)
    names = ["n", "m"][:nn]
    nt = rng.small(12)
    toks = []
    col = 0
    dl = 0
    for _ in range(nt):
        if rng.chance(0.15):
            dl += 1
            col = 0
        col += rng.range(1, 4)
        if rng.chance(0.1):
            toks.append((dl, col, 0, 0, NONE, NONE, 0))
        else:
            toks.append((dl, col, rng.below(5), rng.below(7), rng.below(ns), rng.below(nn) if nn and rng.chance(0.5) else NONE, 0))
    pre = [] if rng.chance(0.5) else [rng.choice(["p", "c/", "zz", "a"])]
    bump(hist, "hermes_" + kind)
    return " ".join(["rw.hermes", lst(sources), lst(names), ",".join(fm) if fm else "_", tokstr(toks), str(rng.below(2)), str(rng.below(2)), lst(pre)])


def generate(tier, rng, hist):
    out = []
    if tier == "thorough":
        out += exhaustive(rng, hist)
    else:
        out += exhaustive(rng, hist, sample=0.012)
    N = 3000 if tier == "quick" else 110000
    for _ in range(N):
        m = rand_map(rng, hist)
        root, sources = m[2], m[0]
        # every on/off combination for the same map now and then, otherwise one random option set
        combos = [(wn, wc) for wn in (0, 1) for wc in (0, 1)] if rng.chance(0.1) else [(rng.below(2), rng.below(2))]
        for (wn, wc) in combos:
            pre = prefix_sets(rng, root, sources)
            bump(hist, "opts_n%d_c%d" % (wn, wc))
            bump(hist, "prefixes_%d" % min(len(pre), 3))
            op = "rw.raw" if rng.chance(0.12) else "rw.run"
            out.append(line(op, *m, wn, wc, pre))
    H = 600 if tier == "quick" else 30000
    for _ in range(H):
        out.append(hermes_case(rng, hist))
    return out


def finding_class(r, kind):
    """F19: a Hermes map in which two source ids carry the same source NAME: rewrite interns sources by name, so the
    later id's tokens move to the function map of the id used first.  Narrow class: op rw.hermes, a duplicated
    source name in the case, the property's own demand contradicted (kind spec) and the implementation doing
    exactly what the validated model does."""
    t = r["case"].split(" ")
    if kind != "spec" or t[0] != "rw.hermes" or r["impl"] != r["model"]:
        return None
    srcs = t[1].split(",")
    return "F19-hermes-duplicate-source-names" if len(set(srcs)) < len(srcs) else None
