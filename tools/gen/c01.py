"""C01 - writing a map and reading it back yields the same map (document level: doc.rt; token level: map.rt)."""
from common import *
from mapgen import *
import docgen as D

PROP = "C01"
CONSTS = ["B64_CHARS", "B64", "prefix_source", "RawSourceMap", "RawSection", "encoder version", "file <invalid>"]
THEOREMS = {"SmVerif.Props.C01": ["SmVerif.C01.c01_mappings_roundtrip", "SmVerif.C01.c01_idempotent"],
            "SmVerif.Props.C04": ["SmVerif.C04.c04_sort_of_sorted"],
            "SmVerif.Props.C01Doc": ["SmVerif.C01Doc.c01_doc_roundtrip", "SmVerif.C01Doc.c01_doc_roundtrip_tokens", "SmVerif.C01Doc.c01_index_roundtrip",
                                     "SmVerif.C01Doc.c01_hermes_roundtrip", "SmVerif.C01Doc.c01_doc_idempotent", "SmVerif.C01Doc.c01_decoded_wf",
                                     "SmVerif.C01Doc.c01_second_generation_needs_decoded"]}
TRUSTED = BASE_TRUST + ["model: lean/SmVerif/Model/Raw.lean (decode_common / decode_regular / decode_index / decode_hermes and as_raw_sourcemap for SourceMap, SourceMapIndex, SourceMapHermes, DecodedMap on the serde record RawSourceMap) "
                        "on top of Model/Mappings.lean (serialize_mappings / token loop) and Model/SourceMap.lean (SourceMap::new, set_source_root, get_source, source_contents, add_to_ignore_list)",
                        "JSON text <-> RawSourceMap is serde / serde_json (string escaping, Unicode, key order, null <-> None) and DebugId text round trip (debugid): trusted, exercised on every case through to_writer + decode_slice / decode (reader)",
                        "slice::sort_unstable_by_key leaves an already ordered token vector unchanged and is stable below 21 elements (documents with more tokens are generated in order)"]
ASSUMPTIONS = ["observational equality as in the property: token sequence after removal of exact consecutive duplicates *in the view* (two neighbouring tokens that show the same through every accessor count as duplicates; the theorems state the sharper raw-token form), "
               "each token as (generated position, source name, original position if it has a source, name); sources as read through get_source; "
               "contents per source (entries of sourcesContent beyond the last source belong to no source and are not written back); RAM-bundle extension fields of an index map (x_facebook_offsets, x_metro_module_paths) are not part of the property and are not written back",
               "range tokens are C07's: a document whose map holds one has spec `-` here",
               "second-generation byte stability is claimed for decoded maps (as the property says); for maps built from raw components the flag is compared model-vs-code only (theorem c01_second_generation_needs_decoded gives the witness why)",
               "theorem c01_doc_idempotent assumes fewer than 2^32 lines / sources / names per map (SmallDoc): the model's lists are unbounded, the code's u32 casts of the line counter are not modelled"]
RULE = ("doc.rt on regular / index (nested <= 3) / Hermes documents from the abstract model: 0-300 tokens over 0-10 lines, same-position tokens, exact duplicates, empty lines/segments, source-less tokens, 0-5 sources and names with duplicates, "
        "empty / Unicode / JSON-special strings, null sources, numeric names, every optional field independently present, roots with and without '/', sourcesContent of any length, ignoreList with duplicates, both debug id keys, keys in random order, junk header; "
        "plus maps built from raw components (`new` mode: SourceMap::new + setters; exact duplicates, unresolvable names, hidden fields of source-less tokens, unsorted input) and map.rt token lists. non-trivial = the re-read map has at least one token or section; distinct = distinct case line")
EXHAUSTIVE = {"quick": False, "thorough": True}  # thorough: every token list of <= 3 tokens over a 2x3 grid, 2 sources, arities 1/4/5


def nontrivial(r):
    m = r["model"]
    if r["case"].startswith("map.rt"):
        return m.startswith("ok ") and m != "ok -"
    return m.startswith("ok ") and (";t=." not in m or ";S=[" in m)


def corpus():
    sx = D.sx
    return [
        # F17 witness (fixed): second generation differed from the first
        "doc.rt -:0 " + " ".join(D.doc_of("ver=3", "srcs=[%s]" % sx("a"), "names=[]", "map=" + sx("K,IAGA,J"))),
        "map.rt 1 0 " + toks([(0, 5, 0, 0, NONE, NONE, 0), (0, 9, 3, 0, 0, NONE, 0), (0, 4, 0, 0, NONE, NONE, 0)]),
        "doc.rt -:0 " + " ".join(D.doc_of("ver=3", "srcs=[%s]" % sx("coolstuff.js"), "names=[%s,%s]" % (sx("x"), sx("alert")), "map=" + sx("AAAA,GAAIA,GAAI,EACR,IAAIA,GAAK,EAAG,CACVC,MAAM"))),
        # root + absolute / relative sources, contents longer than sources, ignore list with duplicates
        "doc.rt -:1 " + " ".join(D.doc_of("ver=3", "srcs=[%s,%s,null]" % (sx("a.js"), sx("/abs.js")), "root=" + sx("/r/"), "sc=[%s,null,%s,%s]" % (sx("A"), sx("C"), sx("extra")), "ign=[2,0,2]", "map=" + sx("AAAA,CCAA"),
                                           "file=" + sx("out.js"), "didn=" + sx("22222222-2222-2222-2222-222222222222"))),
        "doc.rt -:0 " + " ".join(["{", "file=" + sx("i"), "fbo=[1,null]", "secs=[", "(", "off=5:0", "url=" + sx("u"), ")", "(", "off=0:0", "map"] + D.doc_of("ver=3", "srcs=[%s]" % sx("s"), "map=" + sx("AAAA,AAAA"), "fbs=[m[]/414141]") + [")", "]", "}"]),
    ]


def small_exhaustive():
    """every token list of <= 3 tokens over a 2x3 grid (2 lines, 3 columns) with 2 sources / 1 name, as documents"""
    cells = []
    for ar in (1, 4, 5):
        for src in ((0,) if ar == 1 else (0, 1)):
            cells.append((ar, src))
    docs = []
    pos = [(0, 0), (0, 1), (0, 2), (1, 0), (1, 1), (1, 2)]
    import itertools
    for n in (1, 2, 3):
        for ps in itertools.combinations_with_replacement(pos, n):
            for kinds in itertools.product(cells, repeat=n):
                docs.append((ps, kinds))
    return docs


def render_small(ps, kinds):
    lines = [[], []]
    col = [0, 0]
    src = sl = sc = 0
    for (l, c), (ar, s) in zip(ps, kinds):
        f = [c - col[l]]
        col[l] = c
        if ar > 1:
            nsl, nsc = l, c
            f += [s - src, nsl - sl, nsc - sc]
            src, sl, sc = s, nsl, nsc
            if ar == 5:
                f.append(0)
        lines[l].append(f)
    if not lines[1]:
        lines = lines[:1]
    return lines


def generate(tier, rng, hist):
    out = []
    N = 3000 if tier == "quick" else 110000
    for i in range(N):
        big_doc = rng.chance(0.5)
        doc = D.rand_doc(rng, hist, monotone=big_doc, budget=None if big_doc else 18, ranges=(i % 25 == 7))
        out.append(D.case("doc.rt", rng, doc, hist))
    M = 600 if tier == "quick" else 20000
    for _ in range(M):
        nsrc, nn = rng.choice([1, 2, 3]), rng.choice([0, 1, 3])
        ts = rand_tokens(rng, nsrc, nn, rng.small(40), lines=rng.choice([1, 3, 6]), cols=8, wf=rng.chance(0.7))
        ts.sort(key=lambda t: (t[0], t[1]))
        out.append("map.rt %d %d %s" % (nsrc, nn, toks(ts)))
        bump(hist, "map.rt")
    K = 500 if tier == "quick" else 20000
    for _ in range(K):
        out.append("doc.rt -:0:new " + " ".join(D.rand_new(rng, hist, wf=rng.chance(0.85))))
    small = small_exhaustive()
    if tier == "quick":
        small = [small[rng.below(len(small))] for _ in range(400)]
    for ps, kinds in small:
        lines = render_small(ps, kinds)
        doc = D.doc_of("ver=3", "srcs=[%s,%s]" % (D.sx("a"), D.sx("b")), "names=[%s]" % D.sx("n"), "map=" + D.sx(D.render(lines)), "amap=" + D.render_abstract(lines))
        out.append("doc.rt -:0 " + " ".join(doc))
        bump(hist, "exhaustive_small")
    return out
