"""C12 - reader, slice and data-URL decoding agree, however the stream is chunked."""
from common import *
from mapgen import rand_doc, render
import base64, itertools, json

PROP = "C12"
CONSTS = ["is_junk_json", "decode_data_url", "DATA_PREAMBLE", "B64_CHARS", "to_data_url"]
_T = ("c12_chunking_irrelevant", "c12_any_two_chunkings", "c12_no_false_eof", "c12_progress", "c12_reader_eq_slice", "c12_errors_coincide",
      "c12_output_is_suffix", "c12_junk_set", "c12_header_rule", "c12_header_skipped_iff", "c12_b64_roundtrip", "c12_b64_alphabet",
      "c12_data_url", "c12_data_url_produced")
THEOREMS = {"SmVerif.Props.C12": ["SmVerif.C12." + t for t in _T]}
TRUSTED = BASE_TRUST + [
    "model: lean/SmVerif/Model/Header.lean mirrors StripHeaderReader::read / strip_head_read per read call (inner reader = list of chunks), strip_junk_header and decode_data_url up to the call of decode_slice (decoder.rs); the junk byte set and the accepted data-URL preambles are regenerated from the source",
    "serde_json: from_reader and from_slice give the same result on the same bytes, and a leading '\\n' is insignificant (exercised by every case: the outcome incl. error category, message, line and column is compared across the two paths and with a reference stream)",
    "std::io::Read contract of the inner reader (Ok(0) only at end of input, never more bytes than the buffer holds); BufReader asks with its 8192-byte buffer and does not retry after an InvalidData error",
    "data_encoding::BASE64.decode and base64_simd::STANDARD.encode implement RFC 4648 as the model codec does (compared on every hdr.dataurl / hdr.b64enc case; not proved)",
    "harness/src/ops/hdr.rs: the JSON oracle is decode_slice(' ' + stream) (trivial path of strip_junk_header), the cut positions printed come from a reference reading of the rule in the harness, which the model is compared with on every case",
]
ASSUMPTIONS = ["after an Err the wrapper is not called again (serde_json stops at the first I/O error)",
               "the inner reader does not fail by itself (only the wrapper's own InvalidData error is modelled)",
               "data URLs are valid UTF-8 (the API takes &str)"]
RULE = ("hdr.chunked: documents (valid regular/index maps compact or pretty-printed with LF/CRLF, scalars, truncated, byte-corrupted, random bytes) x headers (none, each junk byte, )]}' and friends, garbage incl. junk/NUL/high bytes, look-alikes with a non-junk or blank first byte) "
        "x line ends (\\n, \\r\\n, bare \\r, \\r\\r\\n, \\n\\n, none, \\r at end of input) x chunkings (1-byte reads, one read, cycles of short reads, a read ending at / one before / one after the end of the header, between \\r and \\n, reads larger than the 8 KiB buffer on inputs > 8 KiB); "
        "hdr.splits: every single split point for inputs <= 64 bytes, every pair of split points for shorter ones, and *every* chunking (all compositions) of every byte string of length <= 6 (quick: 5) over the alphabet ) \\r \\n x 1 { and of short structured inputs <= 12 bytes; "
        "hdr.dataurl: accepted / rejected preambles x base64 of documents and random bytes of every length mod 3, and malformed base64 (padding dropped/added/misplaced, foreign, url-safe and non-ASCII characters, non-zero unused bits, length not a multiple of 4, line breaks, concatenated padded blocks); "
        "hdr.b64enc: to_data_url on maps whose canonical JSON is the case's byte string, compared with the model encoder. "
        "non-trivial = a header is skipped or refused / the data URL is accepted / an encoding is compared; distinct = distinct case line")
EXHAUSTIVE = {"quick": True, "thorough": True}
LIMIT_MS = 20000

JUNK = [b")", b"]", b"}", b"'"]
BIG = 100000


def nontrivial(r):
    op = r["case"].split(" ", 1)[0]
    if op in ("hdr.chunked", "hdr.splits"):
        return " rk=0 " not in r["model"]
    return r["model"].startswith("ok")


# ---------------------------------------------------------------- documents

STRS = ["a.js", "b.js", "src/é.ts", "", "x y", "/abs/p.js", "http://h/q.js", "n", "𝒳", "with\nnl", "cr\rlf\r\n", ")]}'", "tab\t"]


def valid_map(rng, hist=None):
    nsrc = rng.choice([0, 1, 1, 2, 3])
    nn = rng.choice([0, 0, 1, 2])
    d = {"version": 3}
    if rng.chance(0.3):
        d["file"] = rng.choice(STRS)
    d["sources"] = [rng.choice(STRS) for _ in range(nsrc)]
    if rng.chance(0.25):
        d["sourceRoot"] = rng.choice(["", "/", "r", "r/"])
    if rng.chance(0.35):
        d["sourcesContent"] = [rng.choice([None, "function a(){}\nvar é=1;\r\n", "", "}\n]\n)\n'\n"]) for _ in range(nsrc)]
    d["names"] = [rng.choice(STRS) for _ in range(nn)]
    d["mappings"] = render(rand_doc(rng, nsrc, nn, max_lines=4, max_segs=5))
    if rng.chance(0.1):
        d["ignoreList"] = [rng.below(max(nsrc, 1))] if nsrc else []
    if rng.chance(0.1):
        d["debug_id"] = "00000000-0000-0000-0000-00000000000%d" % rng.below(10)
    return d


def valid_index(rng):
    secs = []
    line = 0
    for _ in range(rng.range(1, 3)):
        line += rng.range(0, 3)
        secs.append({"offset": {"line": line, "column": rng.below(5)}, "map": valid_map(rng)})
        line += 6
    return {"version": 3, "sections": secs}


def dump(rng, d):
    keys = list(d.keys())
    if rng.chance(0.3):
        rng.shuffle(keys)
    d = {k: d[k] for k in keys}
    style = rng.below(6)
    ascii_ = rng.chance(0.5)
    if style < 3:
        s = json.dumps(d, ensure_ascii=ascii_, separators=(",", ":"))
    elif style == 3:
        s = json.dumps(d, ensure_ascii=ascii_)
    elif style == 4:
        s = json.dumps(d, ensure_ascii=ascii_, indent=rng.choice([1, 2]))
    else:
        s = json.dumps(d, ensure_ascii=ascii_, indent=1).replace("\n", "\r\n")
    return s.encode("utf-8")


SCALARS = [b"", b"0", b"7", b"12345", b"-1", b"1.5", b'"abc"', b'"', b"null", b"true", b"[]", b"[1,2", b"[1, 2, 3]", b"{}", b"{", b'{"version":3}',
           b'{"mappings":"AAAA","sources":["a"]}', b"x", b"\n", b" ", b"\n\n!", b"\r\n{}", b"\r{}", b" {}", b"\t7", b"\xef\xbb\xbf{}", b"\x00", b"\xff", b"}", b"]", b")", b"'x'"]


def document(rng, hist):
    r = rng.below(20)
    if r < 8:
        d = dump(rng, valid_map(rng))
        kind = "valid_regular"
    elif r < 10:
        d = dump(rng, valid_index(rng))
        kind = "valid_index"
    elif r < 12:
        import c05
        d = json.dumps(c05.rand_map_doc(rng) if rng.chance(0.7) else c05.rand_index_doc(rng), ensure_ascii=rng.chance(0.5)).encode("utf-8")
        kind = "c05_structured"
    elif r < 15:
        d = rng.choice(SCALARS)
        kind = "scalar_or_tiny"
    elif r < 17:
        d = dump(rng, valid_map(rng))
        d = d[: rng.below(len(d) + 1)]
        kind = "truncated"
    elif r < 19:
        b = bytearray(dump(rng, valid_map(rng)))
        for _ in range(rng.range(1, 3)):
            m = rng.below(4)
            i = rng.below(len(b) + 1)
            if m == 0 and i < len(b):
                b[i] = rng.choice([0, 10, 13, 0x22, 0x5c, 0x7d, 0x29, 0xff, rng.below(256)])
            elif m == 1 and i < len(b):
                del b[i]
            elif m == 2:
                b.insert(i, rng.choice([10, 13, 0x20, 0x2c, 0x7b, 0x7d, 0x5d, rng.below(256)]))
            elif i < len(b):
                b[i] ^= 1 << rng.below(8)
        d = bytes(b)
        kind = "corrupted"
    else:
        d = bytes(rng.below(256) for _ in range(rng.small(40)))
        kind = "random_bytes"
    if rng.chance(0.08):
        d = rng.choice([b"\n", b" ", b"\r\n", b"\n\n", b"\t"]) + d
        kind += "+leading_ws"
    if rng.chance(0.08):
        d = d + rng.choice([b"\n", b" ", b"\r\n", b"x", b"}", b"\n{}"])
        kind += "+trailer"
    bump(hist, "doc_" + kind)
    return d


GARBAGE = [b"", b"garbage", b"]}'", b" ", b"\t\t", b"while(1);", b"for(;;);", b")]}'", b"\x00", b"\xff\xfe", b"\xc3\xa9", b"{}", b'"', b"  )", b"x" * 40]
ENDS = [(b"\n", "lf"), (b"\n", "lf"), (b"\r\n", "crlf"), (b"\r\n", "crlf"), (b"\r", "bare_cr"), (b"\r\r\n", "crcrlf"), (b"\n\n", "lflf"), (b"\n\r", "lfcr"), (b"\r\n\n", "crlflf"), (b"", "none")]


def header(rng, hist):
    """returns (header bytes incl. line end, label)"""
    r = rng.below(20)
    if r < 4:
        bump(hist, "hdr_none")
        return b"", "none"
    if r < 8:
        start = rng.choice(JUNK)
        kind = "single_junk"
    elif r < 12:
        start = rng.choice([b")]}'", b")]}", b")]}',", b"])}while(1);</x>"])
        kind = "xssi"
    elif r < 17:
        start = rng.choice(JUNK) + rng.choice(GARBAGE) + (rng.choice(GARBAGE) if rng.chance(0.3) else b"")
        kind = "junk_garbage"
    elif r < 18:
        start = rng.choice(JUNK) + bytes(rng.choice([rng.below(256), 0x29, 0x20, 0x7d]) for _ in range(rng.small(30)))
        kind = "junk_random"
    else:
        # look-alikes: the first byte is not a junk byte
        start = rng.choice([b" ", b"x", b"\n", b"(", b"[", b"{", b"\xef\xbb\xbf"]) + b")]}'"
        kind = "lookalike"
    end, ek = rng.choice(ENDS)
    bump(hist, "hdr_" + kind)
    bump(hist, "end_" + ek)
    return start + end, kind + "/" + ek


def chunkings_for(rng, hist, data, hlen, n):
    """n size lists for `data` whose header (if any) is the first hlen bytes"""
    out = []
    L = len(data)
    fixed = [[1], [BIG]]
    if hlen > 0:
        fixed += [[hlen, BIG], [max(hlen - 1, 1), BIG], [hlen + 1, BIG], [max(hlen - 1, 1), 1, BIG], [1, BIG], [max(hlen - 2, 1), 1, 1, BIG], [hlen, 1, BIG]]
    rng.shuffle(fixed)
    for f in fixed[: max(2, n // 2)]:
        out.append(f)
        bump(hist, "chunk_boundary" if len(f) > 1 else ("chunk_1byte" if f == [1] else "chunk_whole"))
    while len(out) < n:
        r = rng.below(4)
        if r == 0:
            out.append([rng.choice([2, 3, 4, 5, 7, 8, 16, 64, 1000])])
            bump(hist, "chunk_const")
        elif r == 1:
            out.append([rng.choice([1, 1, 2, 3, 5, 8, 13, 40, 200]) for _ in range(rng.range(2, 6))])
            bump(hist, "chunk_cycle")
        elif r == 2 and L > 1:
            # explicit random composition of the whole input
            sizes, left = [], L
            while left > 0:
                s = min(left, 1 + rng.small(max(1, L // 2)))
                sizes.append(s)
                left -= s
            out.append(sizes[:60] + [BIG])
            bump(hist, "chunk_composition")
        else:
            out.append([rng.range(1, max(1, hlen + 2)), rng.choice([1, 2, BIG])] + ([BIG] if rng.chance(0.5) else []))
            bump(hist, "chunk_near_header")
    return out


# ---------------------------------------------------------------- data urls

PRE = [b"data:application/json;base64,", b"data:application/json;charset=utf-8;base64,"]
BADPRE = [b"", b"data:", b"data:application/json;base64", b"data:application/json,", b"Data:application/json;base64,", b"data:application/json;charset=utf8;base64,",
          b"data:application/json;charset=UTF-8;base64,", b"data:text/plain;base64,", b" data:application/json;base64,", b"data:application/json; base64,"]


def dataurl_cases(rng, hist, n):
    out = []
    for _ in range(n):
        r = rng.below(10)
        if r < 3:
            p = bytes(rng.below(256) for _ in range(rng.small(30)))
            pk = "random"
        elif r < 7:
            h, _ = header(rng, {}) if rng.chance(0.3) else (b"", "")
            p = h + document(rng, {})
            pk = "document"
        else:
            p = dump(rng, valid_map(rng))
            p = p + b" " * rng.below(3)
            pk = "valid_map"
        b = base64.b64encode(p)
        pre = rng.choice(PRE)
        m = rng.below(16)
        mk = "wellformed"
        if m == 0:
            pre = rng.choice(BADPRE)
            mk = "bad_preamble"
        elif m == 1 and b.endswith(b"="):
            b = b.rstrip(b"=")
            mk = "padding_dropped"
        elif m == 2:
            b = b + rng.choice([b"=", b"==", b"====", b"A", b"AA", b"AAA"])
            mk = "tail_added"
        elif m == 3 and len(b) > 0:
            i = rng.below(len(b))
            b = b[:i] + rng.choice([b"-", b"_", b" ", b"\n", b"=", b".", b"\xc3\xa9", b"%", b"\x00"]) + b[i + 1:]
            mk = "foreign_char"
        elif m == 4 and b.endswith(b"=") and len(b) >= 4:
            # non-zero unused bits in the last data character
            k = len(b.rstrip(b"=")) - 1
            c = B64.index(chr(b[k]))
            b = b[:k] + B64[c ^ rng.choice([1, 2, 3] if b.endswith(b"==") else [1])].encode() + b[k + 1:]
            mk = "trailing_bits"
        elif m == 5 and len(b) > 1:
            i = rng.below(len(b))
            b = b[:i] + b[i + 1:]
            mk = "char_deleted"
        elif m == 6 and len(b) > 4:
            i = 4 * rng.range(1, len(b) // 4)
            b = b[:i] + rng.choice([b"\n", b"\r\n", b" "]) + b[i:]
            mk = "line_break"
        elif m == 7:
            q = bytes(rng.below(256) for _ in range(rng.choice([1, 2, 4, 5])))
            b = base64.b64encode(q) + b
            mk = "concatenated_blocks"
        elif m == 8:
            b = base64.urlsafe_b64encode(p)
            mk = "urlsafe_alphabet"
        bump(hist, "url_" + mk)
        bump(hist, "url_payload_" + pk)
        bump(hist, "url_len_mod3_%d" % (len(p) % 3))
        out.append("hdr.dataurl " + hx(pre + b))
    return out


SAFE = "abcXYZ019 .,:;/-_(){}[]'<>!?*é𝒳 €"


def safe_str(rng):
    return "".join(rng.choice(SAFE) for _ in range(rng.small(12)))


def canonical_json(rng):
    """the JSON text to_writer emits for a simple map (serde field order, compact)"""
    nsrc = rng.choice([0, 1, 2, 3])
    nn = rng.choice([0, 1, 2])
    parts = ['"version":3']
    if rng.chance(0.4):
        parts.append('"file":' + json.dumps(safe_str(rng), ensure_ascii=False))
    sources = ["s%d%s" % (i, safe_str(rng)) for i in range(nsrc)]
    parts.append('"sources":' + json.dumps(sources, ensure_ascii=False, separators=(",", ":")))
    if rng.chance(0.4) and nsrc:
        parts.append('"sourcesContent":' + json.dumps([rng.choice([None, safe_str(rng)]) for _ in range(nsrc)] [:-1] + [safe_str(rng)], ensure_ascii=False, separators=(",", ":")))
    names = ["n%d%s" % (i, safe_str(rng)) for i in range(nn)]
    parts.append('"names":' + json.dumps(names, ensure_ascii=False, separators=(",", ":")))
    parts.append('"mappings":"%s"' % (rng.choice(["", "AAAA", "AAAA;AACA", ";;AAAA,CAAC"]) if nsrc else rng.choice(["", "A", "A,C;;E"])))
    return ("{" + ",".join(parts) + "}").encode("utf-8")


# ---------------------------------------------------------------- fixed cases

def corpus():
    doc = b'{"version":3,"sources":["a.js"],"names":["x"],"mappings":"AAAAA;AACA"}'
    out = []
    for data, sizes in [
        (b")]}garbage\r\n[1, 2, 3]", [BIG]),          # the crate's own unit tests
        (b")]}'\r[1, 2, 3]", [BIG]),
        (b")]}'\n" + doc, [1]), (b")]}'\n" + doc, [5, BIG]), (b")]}'\n" + doc, [4, BIG]), (b")]}'\n" + doc, [4, 1, BIG]),
        (b")]}'\r\n" + doc, [5, BIG]),                # \r last byte of a read, \n first of the next
        (b")]}'\r\n" + doc, [5, 1, BIG]), (b")]}'\r\n" + doc, [6, BIG]), (b")]}'\r\n" + doc, [2, 2, 2, BIG]),
        (b")]}'\r" + doc, [5, BIG]), (b")]}'\r", [1]), (b")]}'", [2]), (b")", [1]), (b")]}'\n", [5]), (b")]}'\n", [1]), (b")]}'\r\n", [5, 1]),
        (doc, [1]), (b"", [1]), (b"\n" + doc, [1, BIG]), (b" )]}'\n" + doc, [3]), (b"]\n\n" + doc, [1]), (b"}\r\n\r\n" + doc, [2]),
        (b"'" + b"x" * 9000 + b"\n" + doc + b" " * 9000, [10000]), (b")" + b"x" * 8190 + b"\r\n" + doc, [8192]), (b")" + b"x" * 8190 + b"\r\n" + doc, [BIG]),
    ]:
        out.append("hdr.chunked %s %s" % (hx(data), ilist(sizes)))
    for data in [b")]}'\r\n{}", b")\r1", b"]\n7", b")]}'\n" + doc[:30], b"'\r"]:
        out.append("hdr.splits %s %d" % (hx(data), 9 if len(data) <= 12 else 2))
    out.append("hdr.dataurl " + hx(PRE[0] + base64.b64encode(doc)))
    out.append("hdr.dataurl " + hx(PRE[1] + base64.b64encode(b")]}'\n" + doc)))
    out.append("hdr.dataurl " + hx(PRE[0] + b"e30"))
    out.append("hdr.dataurl " + hx(PRE[0] + b"AA==AA=="))
    out.append("hdr.dataurl " + hx(PRE[0] + b"AB=="))
    out.append("hdr.dataurl " + hx(b"data:application/json;base64"))
    out.append("hdr.b64enc " + hx(doc))
    return out


# ---------------------------------------------------------------- generated cases

def generate(tier, rng, hist):
    out = []
    quick = tier == "quick"
    # 1. exhaustive small scope: every byte string up to a length over the alphabet ) \r \n x 1, with any
    #    first byte and (one byte longer) behind a junk byte; every chunking of each (all compositions)
    alpha = [0x29, 0x0d, 0x0a, 0x78, 0x31]
    maxlen = 4 if quick else 7
    n0 = len(out)
    for n in range(0, maxlen + 1):
        for w in itertools.product(alpha, repeat=n):
            out.append("hdr.splits %s 9" % hx(bytes(w)))
    for w in itertools.product(alpha, repeat=maxlen):
        out.append("hdr.splits %s 9" % hx(bytes((0x29,) + w)))
    if not quick:
        for w in itertools.product(alpha, repeat=maxlen - 1):
            for j in (0x5d, 0x7d, 0x27):
                out.append("hdr.splits %s 9" % hx(bytes((j,) + w)))
    bump(hist, "exhaustive_strings_all_chunkings", len(out) - n0)
    # 2. structured documents x headers x chunkings
    ndocs = 450 if quick else 40000
    per = 8 if quick else 14
    for _ in range(ndocs):
        h, hk = header(rng, hist)
        d = document(rng, hist)
        if rng.chance(0.06):
            d = b""
            bump(hist, "header_only")
        data = h + d
        for sizes in chunkings_for(rng, hist, data, len(h), per):
            out.append("hdr.chunked %s %s" % (hx(data), ilist(sizes)))
        if len(data) <= 64 and rng.chance(0.5 if quick else 0.8):
            mode = 9 if len(data) <= 11 else (2 if len(data) <= (24 if quick else 40) else 1)
            out.append("hdr.splits %s %d" % (hx(data), mode))
            bump(hist, "splits_mode%d" % mode)
    # 3. short inputs: header x tiny document, all single/double splits or all chunkings
    nshort = 300 if quick else 30000
    for _ in range(nshort):
        h, hk = header(rng, hist)
        d = rng.choice(SCALARS)
        data = (h + d)[:64]
        mode = 9 if len(data) <= 11 else (2 if len(data) <= (24 if quick else 40) else 1)
        out.append("hdr.splits %s %d" % (hx(data), mode))
        bump(hist, "splits_mode%d" % mode)
    # 4. inputs larger than the 8 KiB buffer: reads are capped, header longer than one buffer
    for _ in range(6 if quick else 150):
        h, hk = header(rng, hist)
        if h and rng.chance(0.6):
            cut = 1 + rng.below(max(1, len(h.rstrip(b"\r\n"))))
            h = h[:cut] + b"x" * rng.choice([8186, 8187, 8188, 8189, 8190, 8191, 8192, 9000, 17000]) + h[cut:]
        d = dump(rng, valid_map(rng))
        pad = b" " * rng.choice([0, 8192, 20000])
        data = h + d + pad
        for sizes in [[BIG], [8192], [8193, 1], [8191, 2], [10000, 1, 8192], [4096]]:
            out.append("hdr.chunked %s %s" % (hx(data), ilist(sizes)))
        bump(hist, "bigger_than_buffer")
    # 5. data urls
    out += dataurl_cases(rng, hist, 500 if quick else 60000)
    for _ in range(150 if quick else 10000):
        out.append("hdr.b64enc " + hx(canonical_json(rng)))
        bump(hist, "b64enc")
    return out
