"""C16 - a SourceView shared between threads answers as if accessed by one."""
from common import *

PROP = "C16"
CONSTS = []
THEOREMS = {"SmVerif.Props.C16": [
    "SmVerif.C16.c16_invariant", "SmVerif.C16.c16_lines_prefix", "SmVerif.C16.c16_no_panic", "SmVerif.C16.c16_linearizable",
    "SmVerif.C16.c16_finished_thread", "SmVerif.C16.c16_no_deadlock", "SmVerif.C16.c16_terminates", "SmVerif.C16.c16_step_decreases",
    "SmVerif.C16.c16_view_usable_after", "SmVerif.C16.c16_sequential_view_any_time", "SmVerif.C16.c16_replay_reachable",
    "SmVerif.C16.c16_replay_results", "SmVerif.C16.c16_fits_of_length",
    "SmVerif.C16.c16_counterexample_prefix", "SmVerif.C16.c16_counterexample_prefix_none", "SmVerif.C16.c16_fixed_on_witness"]}
TRUSTED = BASE_TRUST + [
    "model: lean/SmVerif/Model/SourceViewConc.lean mirrors SourceView::get_line / line_count / lines (sourceview.rs) as a small-step semantics (one step per critical section, one per iteration of the indexing loop, one for the unlocked relaxed load), on top of the scan step and the splitLines specification of Model/SourceView.lean",
    "std::sync::Mutex (mutual exclusion, poisoning on a panic with the guard alive, lock().unwrap() panics on a poisoned mutex), the OS scheduler and the hardware memory model are ASSUMED to refine the model: any interleaving of the atomic steps, every un-synchronised relaxed load returning any earlier value of processed_until (a superset of C++11 relaxed semantics); loads and fetch_add inside a critical section see the latest value because every write happens under the same mutex",
    "cfg(sourcemap_verif) yield points in get_line (src/verif_hooks.rs) and the harness ops conc.run / conc.trace (real threads parked at the pause points and released in schedule order) / conc.stress (free-running)",
]
ASSUMPTIONS = [
    "Fits src: the text has at most 2^32-1 lines (implied by a length below 2^32-2 bytes): line indices are u32, line_count asks for line !0 and the lines() iterator counts in u32, so beyond that line_count is wrong and lines() overflows already for a single thread",
    "the unsafe lifetime extension of the cached slices (sourceview.rs) is sound because source: Arc<str> is never mutated - argued, not proved",
    "real-thread replay only exercises interleavings at the granularity of the three pause points (start of a later call, yield_point 1, yield_point 2); finer interleavings (relaxed loads during another thread's indexing loop, stale values) are covered by the theorems and by the free-running stress only",
]
RULE = ("conc.run/conc.trace: real threads driven through a schedule (one entry = one thread runs to its next pause point). "
        "Exhaustive part: 2 threads x 1 call each from {g0,g1,g2,g5,c,a} on the texts '', 'a', 'a\\n', 'a\\nb', '\\r\\n', 'a\\rb\\n': ALL interleavings of all 36 program pairs (17 494 schedules, each as conc.run and conc.trace; quick: every 50th). "
        "2 threads x <=2 calls and 3 threads x 1 call (all program combinations, same texts): the number of full interleavings is > 10^7, so instead every transition (state, thread step) of the pause-level state graph of every combination is covered by at least one schedule (thorough). "
        "Random: up to 4 threads x 3 calls, calls g<present/absent/u32::MAX>, c, a, texts over {a,b,e-acute,\\n,\\r} up to 10 characters, schedules by a random walk over the enabled threads (bursty), plus unstructured id lists. "
        "conc.stress: free-running threads on fresh views, every result compared with the sequential answer. "
        "non-trivial = the schedule switches between at least two threads (conc.run/trace) or rounds > 0 (stress); distinct = distinct case line")
EXHAUSTIVE = {"quick": False, "thorough": True}
LIMIT_MS = 20000

TEXTS = ["", "a", "a\n", "a\nb", "\r\n", "a\rb\n"]
CALLS = ["g0", "g1", "g2", "g5", "c", "a"]
NONE = 4294967295


def nontrivial(r):
    t = r["case"].split(" ")
    if t[0] == "conc.stress":
        return t[3] != "0"
    if len(t) < 4 or t[3] == "-":
        return False
    return len(set(t[3].split(","))) >= 2


# ---- a pause-level simulation of get_line, used ONLY to enumerate schedules without redundancy
# (a wrong simulation would cost coverage, never a false verdict: both sides interpret the schedule themselves)

def nlines(t):
    n = 1
    i = 0
    while i < len(t):
        if t[i] == "\r" and i + 1 < len(t) and t[i + 1] == "\n":
            n += 1
            i += 2
        elif t[i] in "\r\n":
            n += 1
            i += 1
        else:
            i += 1
    return n


START = ("s",)


def run_to_pause(n, k, prog, pos, ev=None):
    """n pieces, k of them cached; pos = (call index, START | (idx, 1|2)); -> (k', pos' or None)"""
    def note(what):
        if ev is not None:
            ev[what] = ev.get(what, 0) + 1
    ci, where = pos
    call = prog[ci]
    kind = "a" if call == "a" else ("c" if call == "c" else "g")
    if where == START:
        idx = 0 if kind == "a" else (NONE if kind == "c" else int(call[1:]))
        phase = 0
    else:
        idx, phase = where
    while True:
        if phase == 0:
            if idx < k:
                note("path_cache_hit")
                r = True
            else:
                return k, (ci, (idx, 1))
        elif phase == 1:
            if k == n:
                note("path_finished_then_get_some" if idx < k else "path_finished_then_get_none")
                r = idx < k
            else:
                return k, (ci, (idx, 2))
        else:
            if idx < k:
                note("path_recheck_hit_under_second_lock")
                r = True
            elif k == n:
                note("path_recheck_finished_under_second_lock")
                r = False
            else:
                note("path_index_loop")
                k = min(idx + 1, n)
                r = idx < k
        if kind == "a" and r:
            idx += 1
            phase = 0
            continue
        return k, ((ci + 1, START) if ci + 1 < len(prog) else None)


def init_pos(progs):
    return tuple((0, START) if p else None for p in progs)


def all_interleavings(n, progs):
    out = []

    def dfs(k, poss, sched):
        alive = [i for i, p in enumerate(poss) if p is not None]
        if len(alive) <= 1:
            out.append(list(sched))  # the rest runs to completion in id order anyway
            return
        for i in alive:
            k2, p2 = run_to_pause(n, k, progs[i], poss[i])
            np_ = list(poss)
            np_[i] = p2
            sched.append(i)
            dfs(k2, tuple(np_), sched)
            sched.pop()
    dfs(0, init_pos(progs), [])
    return out


def edge_cover(n, progs):
    """schedules that together traverse every (state, thread step) edge of the pause-level state graph"""
    def succ(state, i):
        k, poss = state
        k2, p2 = run_to_pause(n, k, progs[i], poss[i])
        np_ = list(poss)
        np_[i] = p2
        return (k2, tuple(np_))

    def alive(state):
        return [i for i, p in enumerate(state[1]) if p is not None]
    root = (0, init_pos(progs))
    parent = {root: None}
    order = [root]
    edges = []
    qi = 0
    while qi < len(order):
        s = order[qi]
        qi += 1
        for i in alive(s):
            edges.append((s, i))
            s2 = succ(s, i)
            if s2 not in parent:
                parent[s2] = (s, i)
                order.append(s2)
    covered = set()
    scheds = []
    for (s, i) in edges:
        if (s, i) in covered:
            continue
        path = []
        x = s
        while parent[x] is not None:
            px, pi = parent[x]
            path.append((px, pi))
            x = px
        path.reverse()
        sched = []
        for e in path:
            covered.add(e)
            sched.append(e[1])
        covered.add((s, i))
        sched.append(i)
        cur = succ(s, i)
        while True:
            al = alive(cur)
            if not al:
                break
            nxt = [j for j in al if (cur, j) not in covered]
            if not nxt:
                break
            j = nxt[0]
            covered.add((cur, j))
            sched.append(j)
            cur = succ(cur, j)
        # default completion: remaining threads in id order
        while True:
            al = alive(cur)
            if not al:
                break
            covered.add((cur, al[0]))
            cur = succ(cur, al[0])
        scheds.append(sched)
    return scheds


def path_events(n, progs, sched, hist):
    """which paths through get_line a schedule (plus the default completion) exercises"""
    ev = {}
    k = 0
    poss = list(init_pos(progs))
    for i in list(sched) + [j for j in range(len(progs)) for _ in range(64)]:
        if i < len(progs) and poss[i] is not None:
            k, poss[i] = run_to_pause(n, k, progs[i], poss[i], ev)
    for what in ev:
        bump(hist, what)


def line(op, text, progs, sched):
    return "%s %s %s %s" % (op, hx(text), ";".join(ilist(p) for p in progs), ilist(sched))


def random_walk(rng, n, progs):
    k = 0
    poss = list(init_pos(progs))
    sched = []
    last = None
    stop_early = rng.chance(0.3)
    while True:
        al = [i for i, p in enumerate(poss) if p is not None]
        if not al:
            break
        if stop_early and sched and rng.chance(0.08):
            break
        if last in al and rng.chance(0.45):
            i = last
        else:
            i = rng.choice(al)
        k, poss[i] = run_to_pause(n, k, progs[i], poss[i])
        sched.append(i)
        last = i
    return sched


def random_text(rng):
    if rng.chance(0.35):
        return rng.choice(TEXTS)
    n = rng.range(0, 10) if rng.chance(0.85) else rng.range(10, 40)
    return "".join(rng.choice(["a", "b", "é", "\n", "\n", "\r", "\r\n"]) for _ in range(n))


def random_call(rng, n):
    r = rng.below(100)
    if r < 55:
        return "g%d" % rng.range(0, n + 1)
    if r < 60:
        return "g%d" % rng.choice([NONE, NONE - 1, 65536, 5])
    if r < 80:
        return "c"
    return "a"


def corpus():
    out = []
    for op in ("conc.run", "conc.trace"):
        # F11 (fixed in 663e049): both windows of the race, as harness schedules
        out.append(line(op, "a", [["g0"], ["g0"]], [1, 1, 0, 0, 0]))
        out.append(line(op, "a", [["g0"], ["g0"]], [1, 0, 0, 0]))
        out.append(line(op, "a", [["g0"], ["g0"]], [1, 1, 0, 0, 0, 0, 1, 1]))
        out.append(line(op, "a", [["g0"], ["g0"]], [1, 0, 0, 0, 1, 1]))
        out.append(line(op, "a\nb", [["c"], ["g1"], ["a"]], [1, 1, 2, 2, 0, 0, 0, 2, 1]))
        out.append(line(op, "a\rb\n", [["a", "c"], ["g2", "g0"]], [0, 0, 1, 1, 0, 0, 1, 0, 0, 1]))
        out.append(line(op, "", [["g0"], []], []))
        out.append(line(op, "\r\n", [["g%d" % NONE], ["c"], ["g1"], ["a"]], [3, 2, 1, 0, 0, 1, 2, 3]))
        out.append(line(op, "a", [["g0"]], [0, 0, 0, 7, 0]))
    out.append("conc.stress %s 4 200 1" % hx("a"))
    out.append("conc.stress %s 2 200 2" % hx(""))
    return out


def generate(tier, rng, hist):
    out = []
    one = [[c] for c in CALLS]
    two = [[c, d] for c in CALLS for d in CALLS]
    # (A) 2 threads x 1 call: all interleavings
    exh = []
    for t in TEXTS:
        n = nlines(t)
        for p in one:
            for q in one:
                for s in all_interleavings(n, [p, q]):
                    exh.append((t, [p, q], s))
    bump(hist, "exhaustive_2x1_interleavings_total", len(exh))
    if tier == "quick":
        exh = exh[::50]
    for (t, ps, s) in exh:
        path_events(nlines(t), ps, s, hist)
        out.append(line("conc.run", t, ps, s))
        out.append(line("conc.trace", t, ps, s))
    bump(hist, "exhaustive_2x1_emitted", len(exh))
    if tier != "quick":
        # (B) 2 threads x <= 2 calls and (C) 3 threads x 1 call: cover every transition of the state graph
        nb = 0
        for t in TEXTS:
            n = nlines(t)
            combos = [[p, q] for p in one + two for q in one + two if not (len(p) == 1 and len(q) == 1)]
            combos += [[p, q, r] for p in one for q in one for r in one]
            for ps in combos:
                for j, s in enumerate(edge_cover(n, ps)):
                    out.append(line("conc.run", t, ps, s))
                    if j % 4 == 0:
                        out.append(line("conc.trace", t, ps, s))
                    nb += 1
        bump(hist, "edge_cover_schedules_2x2_3x1", nb)
    # random: up to 4 threads x 3 calls
    N = 2000 if tier == "quick" else 40000
    for _ in range(N):
        t = random_text(rng)
        n = nlines(t)
        nt = rng.choice([2, 2, 2, 3, 3, 4])
        progs = [[random_call(rng, n) for _ in range(rng.range(1, 3))] for _ in range(nt)]
        if rng.chance(0.03):
            progs[rng.below(nt)] = []
        if rng.chance(0.9):
            s = random_walk(rng, n, progs)
            bump(hist, "schedule_random_walk")
        else:
            s = [rng.below(nt + 1) for _ in range(rng.small(30))]
            bump(hist, "schedule_unstructured")
        op = "conc.run" if rng.chance(0.6) else "conc.trace"
        out.append(line(op, t, progs, s))
        path_events(n, progs, s, hist)
        bump(hist, "threads_%d" % nt)
        bump(hist, "calls_%d" % sum(len(p) for p in progs))
        bump(hist, "pieces_%d" % min(n, 6))
        bump(hist, "sched_len_%s" % ("0" if not s else "1-5" if len(s) <= 5 else "6-12" if len(s) <= 12 else "13+"))
        bump(hist, op)
    # free-running stress
    ns, rounds = (8, 150) if tier == "quick" else (200, 500)
    for i in range(ns):
        t = TEXTS[i % len(TEXTS)] if i < 2 * len(TEXTS) else random_text(rng)
        out.append("conc.stress %s %d %d %d" % (hx(t), rng.choice([2, 3, 4, 4]), rounds, rng.below(1 << 30)))
    # one long text: building its index takes long enough for other threads (and clones taken meanwhile) to overlap it
    out.append("conc.stress %s 3 %d %d" % (hx("ab\n" * 200000), 3 if tier == "quick" else 6, rng.below(1 << 30)))
    bump(hist, "stress_long_text", 1)
    bump(hist, "stress_cases", ns)
    bump(hist, "stress_rounds", ns * rounds)
    return out
