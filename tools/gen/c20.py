"""C20 - indexed RAM bundles are parsed exactly and malformed ones are refused."""
from common import *
import struct

PROP = "C20"
CONSTS = ["RAM_BUNDLE_MAGIC"]
THEOREMS = {"SmVerif.Props.C20": ["SmVerif.C20." + t for t in (
    # well-formed bundles written by the model's `serialize` (modules in id order)
    "c20_parse_serialize", "c20_get_module", "c20_past_table", "c20_iter",
    # the same for any physical layout (`Layout img startup slots`: any order, gaps), and `serialize` is one
    "c20_parse_layout", "c20_get_module_layout", "c20_past_table_layout", "c20_iter_layout", "c20_iter_layout_all",
    "c20_serialize_layout", "fieldsFit_of_size", "serialize_bytes",
    # every byte string
    "c20_recognise", "c20_parse_iff", "c20_parse_refused", "c20_total", "c20_in_bounds")]}
TRUSTED = BASE_TRUST + ["model: lean/SmVerif/Model/RamBundle.lean mirrors IndexedRamBundle::{parse,startup_code,get_module}, RamBundleModuleIter and is_ram_bundle_slice (ram_bundle.rs) on top of scroll 0.10's Pread bounds rules (BadOffset when offset >= len, TooBig when size > remaining), little-endian reads",
                        "memory safety itself is Rust's (safe code + scroll); the theorems are about the values returned"]
ASSUMPTIONS = ["64-bit target: usize sums of 32-bit fields cannot overflow", "the iterator is observed on the ids below a cap (a corrupted module count can be 2^32)"]
RULE = ("ram.wf: bundles written by the generator from an abstract description (0-6 modules, empty slots anywhere, non-empty startup code, 0/1-byte modules, non-UTF-8 bytes, modules in any physical order, gaps) - spec computed from the description, not from the bytes; "
        "small scope: every bundle of 0-2 slots over {empty, NUL-only, 00, 41} x startup {73, 7374} in every physical order, each also truncated at every length and with every header/table byte set to 00/01/80/ff; "
        "ram.parse: corruptions of such bundles: truncation at every length (thorough; quick samples 12 lengths of images over 40 bytes), one 32-bit field replaced by a value past the end or near 2^31/2^32, "
        "boundary values (offset/length/startup size/count placed exactly at, one below and one above the end of the buffer, where scroll's BadOffset-at-len rule bites), wrong magic, zero length with non-zero offset, random bytes. "
        "non-trivial = parse succeeds and at least one module or error is reported, or parse is refused; distinct = distinct case line")
EXHAUSTIVE = {"quick": False, "thorough": False}
MAGIC = 0xFB0BD1E5


def nontrivial(r):
    return r["model"].startswith("err") or "m" in r["model"].split("mods=")[-1]


def build(startup, slots, rng=None, shuffle=False, gap=False):
    """returns bytes; modules placed behind the startup code in a (possibly shuffled) physical order"""
    n = len(slots)
    order = [i for i, s in enumerate(slots) if s is not None]
    if shuffle and rng:
        rng.shuffle(order)
    body = bytearray(startup)
    entries = [(0, 0)] * n
    for i in order:
        if gap and rng and rng.chance(0.3):
            body += bytes([rng.below(256) for _ in range(rng.range(1, 3))])
        entries[i] = (len(body), len(slots[i]) + 1)
        body += bytes(slots[i]) + b"\0"
    out = struct.pack("<III", MAGIC, n, len(startup))
    for o, l in entries:
        out += struct.pack("<II", o, l)
    return out + bytes(body)


def slots_str(slots):
    return ";".join("none" if s is None else "m" + bytes(s).hex() for s in slots) if slots else "-"


def rand_bundle(rng):
    n = rng.choice([0, 1, 1, 2, 3, 4, 6])
    slots = []
    for _ in range(n):
        if rng.chance(0.3):
            slots.append(None)
        else:
            ln = rng.choice([0, 1, 1, 2, 5, 17])
            slots.append(bytes(rng.choice([0, 0x41, 0xff, 0x80, rng.below(256)]) for _ in range(ln)))
    startup = bytes(rng.below(256) for _ in range(rng.choice([1, 1, 2, 7, 30])))
    return startup, slots


# the image `exShuffled` of lean/SmVerif/Props/C20.lean (physical order 3,0,2 with gaps): the Layout example
EX_SHUFFLED = (struct.pack("<III", MAGIC, 4, 3) + struct.pack("<IIIIIIII", 8, 2, 0, 0, 11, 1, 5, 3)
               + b"abc" + b"\xde\xad" + b"\xff\x00\x00" + b"x\x00" + b"\x63" + b"\x00")


def small_scope():
    """every bundle of 0..2 slots over a 4-value pool, two startup codes, every physical order;
    each well-formed image, all its truncations, and every header/table byte overwritten"""
    import itertools
    out = []
    pool = [None, b"", b"\x00", b"A"]
    for startup in (b"s", b"st"):
        for n in range(3):
            for slots in itertools.product(pool, repeat=n):
                slots = list(slots)
                pres = [i for i, x in enumerate(slots) if x is not None]
                for order in itertools.permutations(pres):
                    body = bytearray(startup)
                    entries = [(0, 0)] * n
                    for i in order:
                        entries[i] = (len(body), len(slots[i]) + 1)
                        body += slots[i] + b"\0"
                    img = struct.pack("<III", MAGIC, n, len(startup)) + b"".join(struct.pack("<II", o, l) for o, l in entries) + bytes(body)
                    out.append("ram.wf %s %s %s" % (img.hex(), hx(startup), slots_str(slots)))
                    ids = ",".join(str(i) for i in range(n + 2))
                    for L in range(len(img)):
                        out.append("ram.parse %s %s %d" % (img[:L].hex() or "-", ids, n + 2))
                    for k in range(12 + 8 * n):
                        for v in (0, 1, 0x80, 0xff):
                            if img[k] != v:
                                b = bytearray(img)
                                b[k] = v
                                out.append("ram.parse %s %s %d" % (bytes(b).hex(), ids, n + 2))
    return out


def corpus():
    b = build(b"abc", [b"x", None, b"", b"\xff\x00"])
    return ["ram.wf %s %s %s" % (EX_SHUFFLED.hex(), hx(b"abc"), slots_str([b"x", None, b"", b"\xff\x00"])),
            # the corrupted example of Props/C20.lean: cut inside module 3, slot 2's length = 2^32-1
            "ram.parse %s 0,1,2,3,4 6" % (EX_SHUFFLED[:32] + b"\xff\xff\xff\xff" + EX_SHUFFLED[36:50]).hex(),
            # outside the quantifier (empty startup code at the very end of the buffer is BadOffset): spec '='
            "ram.parse %s 0,1 4" % (struct.pack("<III", MAGIC, 1, 0) + struct.pack("<II", 0, 0)).hex(),
            "ram.wf %s %s %s" % (b.hex(), hx(b"abc"), slots_str([b"x", None, b"", b"\xff\x00"])),
            "ram.parse - 0,1 4", "ram.parse %s 0,1 4" % struct.pack("<III", MAGIC, 0, 0).hex(),
            "ram.parse %s 0,4294967295 4" % struct.pack("<III", MAGIC, 0xFFFFFFFF, 0xFFFFFFFF).hex()]


def generate(tier, rng, hist):
    out = small_scope()
    hist["small_scope_cases"] = len(out)
    N = 1500 if tier == "quick" else 60000
    for _ in range(N):
        startup, slots = rand_bundle(rng)
        img = build(startup, slots, rng, shuffle=rng.chance(0.5), gap=rng.chance(0.3))
        out.append("ram.wf %s %s %s" % (img.hex(), hx(startup), slots_str(slots)))
        bump(hist, "wf_n%d" % len(slots))
        ids = ",".join(str(i) for i in list(range(len(slots) + 2)) + [4294967295, 536870912])
        lim = len(slots) + 3
        r = rng.below(10)
        if r < 4:
            # truncation at every length (quick: a sample of lengths)
            lens = range(len(img)) if tier == "thorough" or len(img) < 40 else [rng.below(len(img)) for _ in range(12)]
            for L in lens:
                out.append("ram.parse %s %s %d" % (img[:L].hex() or "-", ids, lim))
            bump(hist, "truncations")
        elif r < 6:
            # boundary values: the field is placed exactly at / one below / one above the end of the buffer
            b = bytearray(img)
            n = len(slots)
            so = 12 + 8 * n
            d = rng.choice([-2, -1, 0, 1, 2])
            pres = [i for i, x in enumerate(slots) if x is not None]
            k = rng.below(4)
            if k == 0 or not pres:
                if rng.chance(0.5) or n == 0:
                    struct.pack_into("<I", b, 8, max(0, len(img) - so + d))          # startup size up to the end
                    bump(hist, "boundary_ssize")
                else:
                    # count such that the startup offset lands at the end of the buffer (rounded to entries)
                    struct.pack_into("<I", b, 4, max(0, (len(img) - 12) // 8 + d))
                    bump(hist, "boundary_count")
            else:
                i = rng.choice(pres)
                off, ln = struct.unpack_from("<II", b, 12 + 8 * i)
                if k == 1:
                    struct.pack_into("<I", b, 12 + 8 * i, max(0, len(img) - so - (ln - 1) + d))   # module ends at the end
                    bump(hist, "boundary_offset")
                elif k == 2:
                    struct.pack_into("<I", b, 12 + 8 * i + 4, max(0, len(img) - so - off + 1 + d))  # length reaches the end
                    bump(hist, "boundary_length")
                else:
                    struct.pack_into("<II", b, 12 + 8 * i, max(0, len(img) - so + d), 1)            # zero-size read at the end
                    bump(hist, "boundary_zero_size_at_end")
            out.append("ram.parse %s %s %d" % (bytes(b).hex(), ids, lim))
        elif r < 8:
            b = bytearray(img)
            # corrupt one 32-bit field
            nf = 3 + 2 * len(slots)
            f = rng.below(nf)
            v = rng.choice([0, 1, len(img), len(img) - 1, len(img) + 1, 0xFFFFFFFF, 0xFFFFFFFE, 0x80000000, 0x7FFFFFFF, rng.below(len(img) + 4), len(startup), 0x20000000])
            struct.pack_into("<I", b, 4 * f, v)
            out.append("ram.parse %s %s %d" % (bytes(b).hex(), ids, lim))
            bump(hist, "field_%s" % ("magic" if f == 0 else "count" if f == 1 else "ssize" if f == 2 else "entry"))
        elif r < 9:
            b = bytearray(img)
            if len(slots):
                i = rng.below(len(slots))
                struct.pack_into("<II", b, 12 + 8 * i, rng.choice([1, 5, len(img)]), 0)  # zero length with non-zero offset
            out.append("ram.parse %s %s %d" % (bytes(b).hex(), ids, lim))
            bump(hist, "zero_len_nonzero_off")
        else:
            rb = bytes(rng.below(256) for _ in range(rng.range(0, 40)))
            if rng.chance(0.5):
                rb = struct.pack("<I", MAGIC) + rb
            out.append("ram.parse %s %s %d" % (rb.hex() or "-", "0,1,2,4294967295", 4))
            bump(hist, "random_bytes")
    return out
