"""C20 - indexed RAM bundles are parsed exactly and malformed ones are refused."""
from common import *
import struct

PROP = "C20"
CONSTS = ["RAM_BUNDLE_MAGIC"]
THEOREMS = {"SmVerif.Props.C20": ["SmVerif.C20." + t for t in ("c20_parse_serialize", "c20_get_module", "c20_past_table", "c20_iter", "c20_recognise", "c20_parse_iff", "c20_total")]}
TRUSTED = BASE_TRUST + ["model: lean/SmVerif/Model/RamBundle.lean mirrors IndexedRamBundle::{parse,startup_code,get_module}, RamBundleModuleIter and is_ram_bundle_slice (ram_bundle.rs) on top of scroll 0.10's Pread bounds rules (BadOffset when offset >= len, TooBig when size > remaining), little-endian reads",
                        "memory safety itself is Rust's (safe code + scroll); the theorems are about the values returned"]
ASSUMPTIONS = ["64-bit target: usize sums of 32-bit fields cannot overflow", "the iterator is observed on the ids below a cap (a corrupted module count can be 2^32)"]
RULE = ("ram.wf: bundles written by the generator from an abstract description (0-6 modules, empty slots anywhere, non-empty startup code, 0/1-byte modules, non-UTF-8 bytes, modules in any physical order, gaps) - spec computed from the description, not from the bytes; "
        "ram.parse: corruptions of such bundles: truncation at every length, counts/offsets/lengths pointing past the end or near 2^32, wrong magic, zero length with non-zero offset, random bytes. "
        "non-trivial = parse succeeds and at least one module or error is reported, or parse is refused; distinct = distinct case line")
EXHAUSTIVE = {"quick": False, "thorough": False}
MAGIC = 0xFB0BD1E5


def nontrivial(r):
    return r["model"].startswith("err") or "m" in r["model"].split("mods=")[-1]


def build(startup, slots, rng=None, shuffle=False, gap=False):
    """returns bytes; modules placed behind the startup code in a (possibly shuffled) physical order"""
    n = len(slots)
    order = [i for i, s in enumerate(slots) if s is not None]
    if shuffle and rng:
        rng.shuffle(order)
    body = bytearray(startup)
    entries = [(0, 0)] * n
    for i in order:
        if gap and rng and rng.chance(0.3):
            body += bytes([rng.below(256) for _ in range(rng.range(1, 3))])
        entries[i] = (len(body), len(slots[i]) + 1)
        body += bytes(slots[i]) + b"\0"
    out = struct.pack("<III", MAGIC, n, len(startup))
    for o, l in entries:
        out += struct.pack("<II", o, l)
    return out + bytes(body)


def slots_str(slots):
    return ";".join("none" if s is None else "m" + bytes(s).hex() for s in slots) if slots else "-"


def rand_bundle(rng):
    n = rng.choice([0, 1, 1, 2, 3, 4, 6])
    slots = []
    for _ in range(n):
        if rng.chance(0.3):
            slots.append(None)
        else:
            ln = rng.choice([0, 1, 1, 2, 5, 17])
            slots.append(bytes(rng.choice([0, 0x41, 0xff, 0x80, rng.below(256)]) for _ in range(ln)))
    startup = bytes(rng.below(256) for _ in range(rng.choice([1, 1, 2, 7, 30])))
    return startup, slots


def corpus():
    b = build(b"abc", [b"x", None, b"", b"\xff\x00"])
    return ["ram.wf %s %s %s" % (b.hex(), hx(b"abc"), slots_str([b"x", None, b"", b"\xff\x00"])),
            "ram.parse - 0,1 4", "ram.parse %s 0,1 4" % struct.pack("<III", MAGIC, 0, 0).hex(),
            "ram.parse %s 0,4294967295 4" % struct.pack("<III", MAGIC, 0xFFFFFFFF, 0xFFFFFFFF).hex()]


def generate(tier, rng, hist):
    out = []
    N = 1500 if tier == "quick" else 60000
    for _ in range(N):
        startup, slots = rand_bundle(rng)
        img = build(startup, slots, rng, shuffle=rng.chance(0.5), gap=rng.chance(0.3))
        out.append("ram.wf %s %s %s" % (img.hex(), hx(startup), slots_str(slots)))
        bump(hist, "wf_n%d" % len(slots))
        ids = ",".join(str(i) for i in list(range(len(slots) + 2)) + [4294967295, 536870912])
        lim = len(slots) + 3
        r = rng.below(10)
        if r < 4:
            # truncation at every length (quick: a sample of lengths)
            lens = range(len(img)) if tier == "thorough" or len(img) < 40 else [rng.below(len(img)) for _ in range(12)]
            for L in lens:
                out.append("ram.parse %s %s %d" % (img[:L].hex() or "-", ids, lim))
            bump(hist, "truncations")
        elif r < 8:
            b = bytearray(img)
            # corrupt one 32-bit field
            nf = 3 + 2 * len(slots)
            f = rng.below(nf)
            v = rng.choice([0, 1, len(img), len(img) - 1, len(img) + 1, 0xFFFFFFFF, 0xFFFFFFFE, 0x80000000, 0x7FFFFFFF, rng.below(len(img) + 4), len(startup), 0x20000000])
            struct.pack_into("<I", b, 4 * f, v)
            out.append("ram.parse %s %s %d" % (bytes(b).hex(), ids, lim))
            bump(hist, "field_%s" % ("magic" if f == 0 else "count" if f == 1 else "ssize" if f == 2 else "entry"))
        elif r < 9:
            b = bytearray(img)
            if len(slots):
                i = rng.below(len(slots))
                struct.pack_into("<II", b, 12 + 8 * i, rng.choice([1, 5, len(img)]), 0)  # zero length with non-zero offset
            out.append("ram.parse %s %s %d" % (bytes(b).hex(), ids, lim))
            bump(hist, "zero_len_nonzero_off")
        else:
            rb = bytes(rng.below(256) for _ in range(rng.range(0, 40)))
            if rng.chance(0.5):
                rb = struct.pack("<I", MAGIC) + rb
            out.append("ram.parse %s %s %d" % (rb.hex() or "-", "0,1,2,4294967295", 4))
            bump(hist, "random_bytes")
    return out
