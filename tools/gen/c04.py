"""C04 - token lookup returns the closest preceding mapping; tokens are always ordered."""
from common import *
from mapgen import *
import itertools

PROP = "C04"
CONSTS = []
THEOREMS = {"SmVerif.Props.C04": ["SmVerif.C04." + t for t in (
    "c04_sorted_new", "c04_sort_of_sorted", "c04_lookup_safe", "c04_lookup_none_iff", "c04_lookup_greatest",
    "c04_lookup_exact_first", "c04_lookup_admissible")],
    # "whatever way a map was obtained ... non-decreasing generated positions": one theorem per producing operation
    "SmVerif.Props.C02": ["SmVerif.C02.c02_doc_tokens"],                                  # decoding
    "SmVerif.Props.C13": ["SmVerif.C13.c13_into_sourcemap_fields"],                        # builder (tokens = sortToks ...)
    "SmVerif.Props.C09": ["SmVerif.C09.c09_sorted"],                                       # rewrite
    "SmVerif.Props.C08": ["SmVerif.C08.c08_flatten_tokens"],                               # flatten
    "SmVerif.Props.C10": ["SmVerif.C10.c10_sorted"]}                                       # adjust_mappings
TRUSTED = BASE_TRUST + ["model: greatest_lower_bound (utils.rs) over std's binary_search_by (algorithm of Rust 1.95 mirrored literally), SourceMap::new's sort, lookup_token (types.rs)"]
ASSUMPTIONS = ["slice::sort_unstable_by_key returns a sorted permutation and leaves a sorted slice unchanged", "Token::idx is observed through TokenIter::seek"]
RULE = ("map.lookup: token lists with many tokens on one position, single/empty maps, given in position order when positions repeat and in arbitrary order otherwise; queries at every token position +-1, line +-1, (0,0), u32::MAX; "
        "exhaustive: all multisets of <= 4 positions over a 3x3 grid x all queries on a 4x4 grid (thorough; sampled in quick). map.dec for decoded maps (ordering). "
        "non-trivial = at least one query finds a token; distinct = distinct case line")
BORROWED = ("bld.seq", "rw.run", "idx.flatten", "adj.run", "doc.dec", "doc.rt")
MODEL_ONLY_PREFIXES = BORROWED
EXHAUSTIVE = {"quick": False, "thorough": True}


def nontrivial(r):
    return "/" in r["model"] or (r["case"].startswith("map.dec") and r["model"] != "ok -")


def corpus():
    return ["map.lookup - 0:0,1:1,4294967295:4294967295",
            "map.lookup %s 0:0,0:4,0:5,0:6,1:0,4294967295:4294967295" % toks([(0, 5, 1, 1, 0, NONE, 0)] * 3)]


def generate(tier, rng, hist):
    out = []
    grid = [(l, c) for l in range(3) for c in range(3)]
    qgrid = ",".join("%d:%d" % (l, c) for l in range(4) for c in range(4))
    for n in range(0, 5):
        for combo in itertools.combinations_with_replacement(grid, n):
            if tier == "quick" and n >= 3 and rng.chance(0.8):
                continue
            ts = [(l, c, i, 7 * i, 0, NONE, 0) for i, (l, c) in enumerate(combo)]
            out.append("map.lookup %s %s" % (toks(ts), qgrid))
            bump(hist, "grid_n%d" % n)
    N = 2500 if tier == "quick" else 100000
    for _ in range(N):
        n = rng.small(60)
        ts = rand_tokens(rng, 2, 2, n, lines=rng.choice([1, 2, 5, 1000]), cols=rng.choice([3, 10, 1000, 4294967295]), p_same=0.3)
        if len(set((t[0], t[1]) for t in ts)) != len(ts):
            ts.sort(key=lambda t: (t[0], t[1]))
            bump(hist, "ties")
        else:
            bump(hist, "no_ties_arbitrary_order")
        qs = set([(0, 0), (4294967295, 4294967295)])
        for t in ts[:10]:
            for dl in (-1, 0, 1):
                for dc in (-1, 0, 1):
                    l, c = t[0] + dl, t[1] + dc
                    if 0 <= l <= 4294967295 and 0 <= c <= 4294967295:
                        qs.add((l, c))
        qs = sorted(qs)
        rng.shuffle(qs)
        out.append("map.lookup %s %s" % (toks(ts), ",".join("%d:%d" % q for q in qs[:30])))
        bump(hist, "rand_ntok_%02d" % min(n, 60))
    # decoded maps come out ordered (negative column deltas, many lines)
    for _ in range(500 if tier == "quick" else 20000):
        nsrc, nn = rng.choice([1, 3]), rng.choice([0, 2])
        out.append("map.dec %d %d %s none" % (nsrc, nn, hx(render(rand_doc(rng, nsrc, nn, max_lines=8, max_segs=12)))))
    # "whatever way a map was obtained": maps produced by the builder, rewrite, flatten, adjust_mappings and document
    # decoding.  Their ops print the tokens in ITERATION order together with the harness's order / get_token(i)
    # agreement marker; the models' outputs are ordered by theorem (THEOREMS above), so any disorder or get_token
    # disagreement is an impl-vs-model difference.  Only the tie to the model is judged here (MODEL_ONLY_PREFIXES).
    import importlib
    per = 250 if tier == "quick" else 8000
    for name in ("c13", "c09", "c08", "c10", "c02"):
        m = importlib.import_module(name)
        sub = {}
        cases = [c for c in m.generate("quick" if tier == "quick" else "thorough", rng, sub) if c.startswith(BORROWED)]
        step = max(1, len(cases) // per)
        out += cases[::step][:per]
        bump(hist, "produced_by_%s_ops" % m.PROP, min(per, len(cases)))
    return out
