"""Abstract mapping documents and token lists for the map.* ops (generators' own encoder)."""
from common import *

NONE = 4294967295


def tok(dl, dc, sl=0, sc=0, src=NONE, name=NONE, rng=0):
    return "%d:%d:%d:%d:%d:%d:%d" % (dl, dc, sl, sc, src, name, rng)


def toks(ts):
    return ";".join(tok(*t) for t in ts) if ts else "-"


def rand_doc(rng, nsrc, nnames, max_lines=6, max_segs=8, hist=None, big=False):
    """returns list of lines, each a list of segments, each a list of int deltas (valid document)"""
    lines = []
    src = sl = sc = name = 0
    nl = rng.small(max_lines)
    for _ in range(nl):
        segs = []
        col = 0
        if rng.chance(0.25):
            lines.append(segs)
            continue
        for _ in range(rng.range(1, max_segs)):
            if rng.chance(0.07):
                segs.append(None)  # empty segment
                continue
            lim = 40
            if big and rng.chance(0.25):
                # jumps around the i32 / u32 boundaries, up and back down
                tgt = rng.choice([(1 << 31) - 1, 1 << 31, (1 << 31) + 1, 3000000000, (1 << 32) - 1, 0, 1])
                c = tgt - col
            else:
                c = rng.range(-min(col, 20), lim)
            col += c
            ar = 1
            if nsrc > 0:
                ar = rng.choice([1, 4, 4, 4, 5, 5]) if nnames > 0 else rng.choice([1, 4, 4])
            if ar == 1:
                segs.append([c])
            else:
                ns = rng.below(nsrc)
                nsl = max(0, sl + rng.range(-min(sl, 30), lim))
                nsc = max(0, sc + rng.range(-min(sc, 30), lim))
                if big and rng.chance(0.2):
                    nsl = rng.choice([(1 << 31) - 1, 1 << 31, 2500000000, (1 << 32) - 1, 0, 5])
                if big and rng.chance(0.2):
                    nsc = rng.choice([(1 << 31) - 1, 1 << 31, 4000000000, (1 << 32) - 1, 0, 6])
                f = [c, ns - src, nsl - sl, nsc - sc]
                src, sl, sc = ns, nsl, nsc
                if ar == 5:
                    nn = rng.below(nnames)
                    f.append(nn - name)
                    name = nn
                segs.append(f)
            if hist is not None:
                bump(hist, "arity_%d" % ar)
        lines.append(segs)
    return lines


def render(lines):
    return ";".join(",".join("" if s is None else "".join(vlq_enc(x) for x in s) for s in segs) for segs in lines)


def rand_tokens(rng, nsrc, nnames, n, lines=3, cols=12, p_dup=0.15, p_same=0.2, p_nosrc=0.2, p_range=0.0, wf=True):
    ts = []
    for _ in range(n):
        if ts and rng.chance(p_dup):
            ts.append(ts[rng.below(len(ts))])
            continue
        if ts and rng.chance(p_same):
            b = ts[rng.below(len(ts))]
            dl, dc = b[0], b[1]
        else:
            dl, dc = rng.below(lines), rng.below(cols)
        r = 1 if rng.chance(p_range) else 0
        if nsrc == 0 or rng.chance(p_nosrc):
            hidden = (rng.below(5), rng.below(5)) if rng.chance(0.3) else (0, 0)
            ts.append((dl, dc, hidden[0], hidden[1], NONE, NONE, r))
        else:
            nm = rng.below(nnames) if nnames and rng.chance(0.5) else NONE
            if not wf and rng.chance(0.1):
                nm = nnames + rng.below(3)
            ts.append((dl, dc, rng.below(50), rng.below(50), rng.below(nsrc), nm, r))
    return ts


def big_tokens(rng, nsrc, nnames, n):
    """ordered tokens whose coordinates jump around 2^31 and 2^32-1 (deltas that need 33 bits)"""
    vals = [0, 1, 7, (1 << 31) - 1, 1 << 31, (1 << 31) + 5, 2500000000, 3000000000, 4000000000, (1 << 32) - 1]
    ts = []
    for _ in range(n):
        src = rng.below(nsrc) if nsrc and rng.chance(0.8) else NONE
        nm = rng.below(nnames) if (nnames and src != NONE and rng.chance(0.4)) else NONE
        ts.append((rng.choice([0, 0, 1, 3]), rng.choice(vals), rng.choice(vals) if src != NONE else 0, rng.choice(vals) if src != NONE else 0, src, nm, 1 if rng.chance(0.2) else 0))
    ts.sort(key=lambda t: (t[0], t[1]))
    return ts
