"""Abstract source-map documents for the doc.* ops (C01, C02, C03).

A document is generated as an abstract model (sources, names, mapping deltas, optional fields,
sections) and written as the *structured description* both sides read (grammar: harness/src/ops/doc.rs).
The `mappings` text is produced here by the generator's own VLQ writer (`common.vlq_enc`); the abstract
deltas travel along as `amap=` so that harness (third-party `vlq` crate) and driver (`specVlq`) can
check the writer."""
from common import *

STR_POOL = ["a.js", "b.js", "lib/c.ts", "", "/abs/x.js", "http://h/x.js", "https://h/y.js", "httpx", "http:", "https:", "/", "http", "https", "httpsx/y.js", "https/z", "htt", "http/",
            "x/../y", "ünï.js", "日本語", "\"q\"", "back\\slash", "tab\tnew\nline\r", "  ", "\U0001F600.js",
            "a b", "nul\u0000x", "</script>", "\u007f\u0080", "{}[],:", "null", "퟿", "webpack:///./src/i.js"]
ALPH = "ab/.:\\\"\n\t é中\U0001F600{}h-_0"
ROOTS = ["", "/", "/root", "/root/", "rel", "rel/", "http://h/p/", "a//", "//", "ü/", "https://cdn/x"]
NAME_POOL = ["x", "alert", "", "λ", "a\"b", "\\", "n\u0000", "\U0001F600", "constructor", "__proto__"]


def sx(s):
    """str token: s<hex of UTF-8>"""
    return "s" + s.encode("utf-8").hex()


def rand_str(rng, pool=STR_POOL):
    if rng.chance(0.7):
        return rng.choice(pool)
    return "".join(rng.choice(ALPH) for _ in range(rng.small(12)))


def rand_uuid(rng):
    if rng.chance(0.1):
        return "00000000-0000-0000-0000-000000000000"
    v = [rng.next() for _ in range(2)]
    h = "%016x%016x" % (v[0], v[1])
    return "%s-%s-%s-%s-%s" % (h[:8], h[8:12], h[12:16], h[16:20], h[20:])


def rand_lines(rng, nsrc, nnames, hist, max_lines=6, max_segs=8, monotone=False, big=False, budget=None):
    """lines -> segments -> int deltas (None = empty segment); valid for nsrc sources / nnames names.
    monotone: generated columns never decrease on a line (the document is already ordered)."""
    lines = []
    src = sl = sc = name = 0
    ntok = 0
    for _ in range(rng.small(max_lines)):
        segs = []
        col = 0
        if rng.chance(0.25):
            lines.append(segs)
            continue
        for _ in range(rng.range(1, max_segs)):
            if budget is not None and ntok >= budget:
                break
            if rng.chance(0.06):
                segs.append(None)
                continue
            r = rng.below(100)
            if r < 12 and segs and segs[-1] is not None:
                # exact duplicate of the previous token: all deltas zero (same arity)
                prev = segs[-1]
                segs.append([0] * len(prev))
                bump(hist, "exact_duplicate")
                ntok += 1
                continue
            if r < 17 and segs and segs[-1] is not None and len(segs[-1]) >= 4 and nsrc > 1:
                # near duplicate of the previous token: everything equal except the source id (and, with 5 fields,
                # possibly the name id) - a different token even when both ids carry the same string
                prev = segs[-1]
                ns = (src + 1 + rng.below(nsrc - 1)) % nsrc
                f = [0, ns - src, 0, 0]
                src = ns
                if len(prev) == 5 and nnames > 0:
                    nn2 = rng.below(nnames)
                    f.append(nn2 - name)
                    name = nn2
                segs.append(f)
                bump(hist, "near_duplicate_other_id")
                ntok += 1
                continue
            if r < 30:
                c = 0  # same generated position
                bump(hist, "same_position")
            elif big and r < 45:
                tgt = rng.choice([(1 << 31) - 1, 1 << 31, 3000000000, (1 << 32) - 1, 0, 1])
                c = tgt - col
                if monotone and c < 0:
                    c = 0
            else:
                c = rng.range(0 if monotone else -min(col, 20), 40)
            if monotone and col + c > 4294967295:
                c = 0  # an ordered document stays inside u32 (wrapping columns would un-order it)
            col += c
            ar = 1
            if nsrc > 0:
                ar = rng.choice([1, 4, 4, 4, 5, 5]) if nnames > 0 else rng.choice([1, 4, 4])
            if ar == 1:
                segs.append([c])
            else:
                ns = rng.below(nsrc)
                nsl = max(0, sl + rng.range(-min(sl, 30), 40))
                nsc = max(0, sc + rng.range(-min(sc, 30), 40))
                if big and rng.chance(0.2):
                    nsl = rng.choice([(1 << 31) - 1, 1 << 31, (1 << 32) - 1, 0, 5])
                if big and rng.chance(0.2):
                    nsc = rng.choice([(1 << 31) - 1, 1 << 31, (1 << 32) - 1, 0, 6])
                f = [c, ns - src, nsl - sl, nsc - sc]
                src, sl, sc = ns, nsl, nsc
                if ar == 5:
                    nn = rng.below(nnames)
                    f.append(nn - name)
                    name = nn
                segs.append(f)
            ntok += 1
            bump(hist, "arity_%d" % ar)
        lines.append(segs)
    return lines


def render(lines):
    return ";".join(",".join("" if s is None else "".join(vlq_enc(x) for x in s) for s in segs) for segs in lines)


def render_abstract(lines):
    return ";".join(",".join("" if s is None else ":".join(str(x) for x in s) for s in segs) for segs in lines)


def olist(xs, f):
    """list value: [] when empty, elements through f (None -> null)"""
    return "[" + ",".join("null" if x is None else f(x) for x in xs) + "]"


def rand_fbs(rng, nsrc):
    ents = []
    for _ in range(rng.choice([0, nsrc, nsrc, nsrc + 1, max(0, nsrc - 1), rng.small(4)])):
        if rng.chance(0.3):
            ents.append("null")
            continue
        metas = []
        for _ in range(rng.choice([0, 1, 1, 1, 2])):
            names = [rand_str(rng, NAME_POOL) for _ in range(rng.small(3))]
            ns = "[]" if not names else ".".join((n.encode("utf-8").hex() or "-") for n in names)
            mp = rng.choice(["AAA", "AAA,AC", "", "AAA;;CCA,E", "A", "!!", "AAAA,g"])
            metas.append("%s/%s" % (ns, mp.encode().hex() or "-"))
        ents.append("m" + "+".join(metas))
    return "[" + ",".join(ents) + "]"


def rand_regular(rng, hist, monotone=False, budget=None, hermes=False, wild=True, ranges=False, big=None):
    """items (list of tokens) of a document without sections; wild: lenient corners (null sources,
    non-string names/file, odd versions, mismatched array lengths)"""
    nsrc = rng.choice([0, 1, 1, 2, 2, 3, 5])
    nn = rng.choice([0, 0, 1, 2, 3, 4])
    items = []
    ver = "3"
    if wild and rng.chance(0.03):
        ver = rng.choice([None, "null", "2", "4", "0"])
        bump(hist, "version_not_3")
    if ver is not None:
        items.append("ver=" + ver)
    srcs = []
    for _ in range(nsrc):
        if wild and rng.chance(0.12):
            srcs.append(None)
            bump(hist, "null_source")
        elif srcs and any(x is not None for x in srcs) and rng.chance(0.2):
            # the same string under a second id: ids, not strings, identify a source
            srcs.append(rng.choice([x for x in srcs if x is not None]))
            bump(hist, "duplicate_source_string")
        else:
            srcs.append(rand_str(rng))
    if nsrc or rng.chance(0.7):
        items.append("srcs=" + olist(srcs, sx))
    elif rng.chance(0.3):
        items.append("srcs=null")
    names = []
    for _ in range(nn):
        r = rng.below(100)
        if wild and r < 12:
            names.append("n" + rng.choice(["0", "7", "12", "-3", "4294967296", "18446744073709551615", "-9223372036854775808", "1.5", "0.25", "100"]))
            bump(hist, "numeric_name")
        elif wild and r < 14:
            names.append(rng.choice(["null", "t", "a", "o"]))
            bump(hist, "odd_name")
        elif names and rng.chance(0.2):
            names.append(rng.choice(names))
            bump(hist, "duplicate_name_string")
        else:
            names.append(sx(rand_str(rng, NAME_POOL)))
    if nn or rng.chance(0.6):
        items.append("names=[" + ",".join(names) + "]")
    elif rng.chance(0.3):
        items.append("names=null")
    if big is None:
        big = rng.chance(0.12)
    lines = rand_lines(rng, nsrc, nn, hist, monotone=monotone, big=big, budget=budget,
                       max_lines=rng.choice([3, 6, 6, 10]), max_segs=rng.choice([4, 8, 8, 30]))
    ntok = sum(1 for l in lines for s in l if s is not None)
    bump(hist, "tokens_%s" % ("0" if ntok == 0 else "1-5" if ntok <= 5 else "6-20" if ntok <= 20 else "21+"))
    if lines or rng.chance(0.8):
        items.append("map=" + sx(render(lines)))
        items.append("amap=" + render_abstract(lines))
    elif rng.chance(0.3):
        items.append("map=null")
    if ranges and rng.chance(0.5) and lines:
        rm = ";".join(rng.choice(["", "B", "C", "D", "g", "AAB", "/"]) for _ in lines)
        items.append("rm=" + sx(rm))
        bump(hist, "rangeMappings")
    # optional fields
    if rng.chance(0.5):
        if wild and rng.chance(0.05):
            items.append("file=" + rng.choice(["n5", "t", "a", "o"]))
            bump(hist, "nonstring_file")
        else:
            items.append("file=" + sx(rand_str(rng)))
    elif rng.chance(0.1):
        items.append("file=null")
    if rng.chance(0.5):
        items.append("root=" + sx(rng.choice(ROOTS) if rng.chance(0.85) else rand_str(rng)))
        bump(hist, "sourceRoot")
    elif rng.chance(0.1):
        items.append("root=null")
    if rng.chance(0.45):
        k = nsrc
        if wild and rng.chance(0.25):
            k = rng.choice([0, max(0, nsrc - 1), nsrc + 1, nsrc + 3])
            bump(hist, "contents_len_mismatch")
        sc = [None if rng.chance(0.35) else rand_str(rng, ["", "x", "line1\nline2\r\né\U0001F600", "\"use strict\";\\n"]) for _ in range(k)]
        if rng.chance(0.1):
            sc = [None] * k
        items.append("sc=" + olist(sc, sx))
        bump(hist, "sourcesContent")
    elif rng.chance(0.1):
        items.append("sc=null")
    if rng.chance(0.3):
        ign = [rng.below(nsrc + 2) for _ in range(rng.small(5))]
        if rng.chance(0.1):
            ign.append(rng.choice([4294967295, 1000000]))
        items.append("ign=" + olist(ign, str))
        bump(hist, "ignoreList")
    elif rng.chance(0.05):
        items.append("ign=null")
    r = rng.below(100)
    if r < 20:
        items.append("did=" + sx(rand_uuid(rng)))
        bump(hist, "debug_id")
    elif r < 35:
        items.append("didn=" + sx(rand_uuid(rng)))
        bump(hist, "debugId")
    elif r < 50:
        items.append("did=" + sx(rand_uuid(rng)))
        items.append("didn=" + sx(rand_uuid(rng)))
        bump(hist, "debug_id+debugId")
    elif r < 55:
        items.append("did=null")
        items.append("didn=" + sx(rand_uuid(rng)))
    if hermes:
        items.append("fbs=" + rand_fbs(rng, nsrc))
        bump(hist, "kind_hermes")
    elif rng.chance(0.05):
        items.append("fbs=null")
    if wild and rng.chance(0.08):
        items.append("x=" + sx("ignored"))
    if wild and rng.chance(0.04):
        items.append("fbo=" + olist([rng.below(9)], str))
    if wild and rng.chance(0.05):
        items.append("secs=null")
    rng.shuffle(items)
    return items


def rand_index(rng, hist, depth, **kw):
    items = []
    if rng.chance(0.85):
        items.append("ver=3")
    if rng.chance(0.5):
        items.append("file=" + (sx(rand_str(rng)) if rng.chance(0.9) else rng.choice(["n1", "t"])))
    if rng.chance(0.15):
        items.append("fbo=" + olist([None if rng.chance(0.3) else rng.below(1000) for _ in range(rng.small(4))], str))
    if rng.chance(0.15):
        items.append("mmp=" + olist([rand_str(rng) for _ in range(rng.small(3))], sx))
    if rng.chance(0.1):
        items.append("fbs=" + rand_fbs(rng, 1))  # sections win over x_facebook_sources
        bump(hist, "sections+fbs")
    if rng.chance(0.1):
        items.append("srcs=" + olist([rand_str(rng)], sx))
    secs = ["secs=["]
    nsec = rng.choice([0, 1, 1, 2, 2, 3, 4])
    line = col = 0
    for _ in range(nsec):
        r = rng.below(100)
        if r < 55:
            line += rng.range(0, 3)
            col = rng.below(50) if line else col + rng.below(20)
        elif r < 80:
            pass  # equal offsets
        else:
            line, col = rng.below(6), rng.below(60)  # out of order
        part = ["off=%d:%d" % (line, col)]
        k = rng.below(100)
        if k < 60:
            sub = ["map"] + rand_doc(rng, hist, depth + 1, **kw)
            if rng.chance(0.3):
                part.append("url=" + sx(rand_str(rng)))
            part.append(sub)
        elif k < 80:
            part.append("url=" + sx(rand_str(rng)))
            if rng.chance(0.3):
                part.append("map=null")
        elif k < 90:
            part.append("url=null")
        rng.shuffle(part)
        secs.append("(")
        for p in part:
            if isinstance(p, list):
                secs.extend(p)
            else:
                secs.append(p)
        secs.append(")")
    secs.append("]")
    bump(hist, "kind_index_depth%d" % depth)
    bump(hist, "sections_%d" % nsec)
    pos = rng.below(len(items) + 1)
    groups = [[x] for x in items]
    groups.insert(pos, secs)
    rng.shuffle(groups)
    return [t for g in groups for t in g]


def rand_doc(rng, hist, depth=0, p_index=0.2, p_hermes=0.12, **kw):
    """tokens of one `{ … }`"""
    r = rng.chance(p_index) if depth < 3 else False
    if r:
        body = rand_index(rng, hist, depth, p_index=p_index, p_hermes=p_hermes, **kw)
    else:
        h = rng.chance(p_hermes)
        if not h:
            bump(hist, "kind_regular")
        body = rand_regular(rng, hist, hermes=h, **kw)
    return ["{"] + body + ["}"]


HEADERS = ["-", "-", "-", "-", ")]}'\n".encode().hex(), ")]}\n".encode().hex(), ")]}'garbage here\r\n".encode().hex(), "}\n".encode().hex(), "'\n".encode().hex()]


def case(op, rng, doc, hist=None):
    hdr = rng.choice(HEADERS)
    ws = rng.choice([0, 0, 1, 2])
    if hist is not None and hdr != "-":
        bump(hist, "junk_header")
    return "%s %s:%d %s" % (op, hdr, ws, " ".join(doc))


def doc_of(*items):
    return ["{"] + list(items) + ["}"]


# ---------------------------------------------------------------- maps from raw components (`new` mode)

def rand_new(rng, hist, wf=True):
    """a `new`-mode description: SourceMap::new + setters (exact duplicates, unresolvable names, hidden fields)"""
    import mapgen
    nsrc = rng.choice([0, 1, 2, 3, 5])
    nn = rng.choice([0, 1, 2, 4])
    items = ["ver=3", "srcs=" + olist([rand_str(rng) for _ in range(nsrc)], sx), "names=" + olist([rand_str(rng, NAME_POOL) for _ in range(nn)], sx)]
    n = rng.small(40)
    if rng.chance(0.15):
        ts = mapgen.big_tokens(rng, nsrc, nn, min(n, 8))
    else:
        ts = mapgen.rand_tokens(rng, nsrc, nn, n, lines=rng.choice([1, 3, 6]), cols=rng.choice([4, 12]), p_range=0.0 if wf else 0.1, wf=wf)
    if len(ts) > 18 or rng.chance(0.7):
        ts.sort(key=lambda t: (t[0], t[1]))
    else:
        bump(hist, "new_unsorted")
    if ts:
        items.append("toks=" + mapgen.toks(ts))
    if rng.chance(0.4):
        items.append("file=" + sx(rand_str(rng)))
    if rng.chance(0.5):
        items.append("root=" + sx(rng.choice(ROOTS)))
    if rng.chance(0.4):
        k = rng.choice([nsrc, nsrc, max(0, nsrc - 1), nsrc + 2])
        items.append("sc=" + olist([None if rng.chance(0.4) else rand_str(rng, ["", "x", "l1\nl2"]) for _ in range(k)], sx))
    if rng.chance(0.3):
        items.append("ign=" + olist([rng.below(nsrc + 2) for _ in range(rng.small(4))], str))
    if rng.chance(0.3):
        items.append("did=" + sx(rand_uuid(rng)))
    bump(hist, "new_mode")
    rng.shuffle(items)
    return ["{"] + items + ["}"]


def harvest(rng, hist, n):
    """maps produced by rewrite / flatten / adjust_mappings / the builder, as `new`-mode descriptions:
    runs the harness op doc.prod on generated documents (the harness is built before generation)."""
    import os, subprocess, tempfile
    try:
        import runner
        smv = runner.SMV
    except Exception:
        return []
    if not os.path.exists(smv):
        return []
    lines = []
    for i in range(n):
        what = rng.choice(["rewrite", "rewrite-nonames", "rewrite-nocontents", "rewrite-strip", "flatten", "flatten", "adjust", "adjust", "builder"])
        if what == "flatten":
            doc = ["{"] + rand_index(rng, {}, 1, monotone=True, wild=False) + ["}"]
            lines.append("doc.prod flatten " + " ".join(doc))
        elif what == "adjust":
            a = ["{"] + rand_regular(rng, {}, monotone=True, wild=False, big=False) + ["}"]
            b = ["{"] + rand_regular(rng, {}, monotone=True, wild=False, big=False) + ["}"]
            lines.append("doc.prod adjust " + " ".join(a + b))
        else:
            doc = ["{"] + rand_regular(rng, {}, monotone=True, wild=False) + ["}"]
            lines.append("doc.prod %s %s" % (what, " ".join(doc)))
    fd, path = tempfile.mkstemp(prefix="docprod", suffix=".txt", dir=runner.WORK if os.path.isdir(runner.WORK) else None)
    with os.fdopen(fd, "w") as f:
        f.write("\n".join(lines) + "\n")
    try:
        p = subprocess.run([smv, path], capture_output=True, text=True, timeout=600)
    finally:
        os.unlink(path)
    out = []
    for l, r in zip(lines, p.stdout.split("\n")):
        if r.startswith("ok {"):
            out.append(r[3:])
            bump(hist, "harvest_" + l.split(" ")[1])
    return out
