"""C13 - builder and in-place setters behave like a simple interning model."""
from common import *
import itertools

PROP = "C13"
CONSTS = ["prefix_source", "RawSourceMap"]
_T = ["c13_inv_reachable", "c13_inv_ids", "c13_abs_add_source", "c13_abs_add_name", "c13_intern_spec",
      "c13_builder_refines", "c13_builder_panic_iff", "c13_token_resolves", "c13_into_sourcemap_fields", "c13_ignore_set",
      "c13_prefixed_inv", "c13_prefixed_inv_new", "c13_read_rule", "c13_join_rule", "c13_map_refines", "c13_map_init",
      "c13_map_panic_iff", "c13_serialise_raw", "c13_no_double_prefix"]
THEOREMS = {"SmVerif.Props.C13": ["SmVerif.C13." + t for t in _T]}
TRUSTED = BASE_TRUST + [
    "model: lean/SmVerif/Model/Builder.lean mirrors SourceMapBuilder (builder.rs: add_source_with_id, add_name, add_with_id, add_raw, set_source_contents, add_to_ignore_list, set_source_root, set_file, set_debug_id, into_sourcemap); "
    "lean/SmVerif/Model/SourceMap.lean mirrors SourceMap::{new, prefix_source, set_source_root, get_source, set_source, set_source_contents, get_source_contents, add_to_ignore_list, sources(), source_contents()} (types.rs), "
    "Encodable::as_raw_sourcemap for SourceMap (encoder.rs) and the tail of decode_regular (decoder.rs) at the level of the serde fields (asRawFields / ofRawFields)",
    "FxHashMap::entry(k).or_insert(v) behaves as a finite map that never overwrites (association list, first match wins); BTreeSet<u32> as a strictly increasing list; Vec::resize; Arc<str> as a byte string",
    "serde_json: JSON text <-> RawSourceMap (strings, null, omitted keys) and debugid's text round trip are trusted and exercised by the `rt` op",
    "slice::sort_unstable_by_key on tokens with pairwise distinct generated positions returns them ordered by position",
]
ASSUMPTIONS = [
    "fewer than 2^32 - 1 distinct sources / names are interned (ids are u32 in the code and !0 is the no-source sentinel): hypothesis `sources.length <= NONE` of c13_builder_refines / c13_token_resolves",
    "out-of-range source ids in set_source / set_source_contents are documented panics: the abstract model is undefined there (spec `-`), model and code are compared as `err panic`",
    "SourceMapBuilder::set_source and strip_prefixes are not part of the property's call list (they bypass the interning table)",
    "the `rt` op of smap.seq is run on token-less maps: the mappings round trip is C01's subject",
    "tokens of one bld.seq case have pairwise distinct generated positions (the order of ties under sort_unstable is not specified)",
]
RULE = ("bld.seq: sequences of 1-40 builder calls (add_source, add_name, add, add_raw, set_source_contents, add_to_ignore_list, set_source_root, set_file, set_debug_id, get_source; final into_sourcemap) over a pool of 13 source strings "
        "(duplicates, \"\", /abs, //, http://x/y, https://h/z, http (no colon), non-ASCII), 5 names, 9 roots with and without trailing '/', valid ids plus a separate stream with out-of-range ids (5%); "
        "smap.seq: SourceMap::new over 0-5 sources, contents vector absent/shorter/longer than sources, then 1-40 of set_source_root / set_source / set_source_contents / to_writer+from_slice / add_to_ignore_list / set_file / set_debug_id, state observed after every call; "
        "exhaustive: all builder sequences of <= 3 (quick) / <= 4 (thorough) calls over a 22-call alphabet on a 3-string pool, all map sequences of <= 3 / <= 4 calls over a 14-call alphabet on 3 initial maps. "
        "non-trivial = the run succeeds and either an id is returned twice (a string was interned again) or some source reads differently from its raw name (a root was applied); distinct = distinct case line")
EXHAUSTIVE = {"quick": True, "thorough": True}

SRC = ["a", "b", "a", "", "/abs", "http://x/y", "https://h/z", "dir/f.js", "é/x.js", "http", "//", "a/", "httpx:y", "webpack://pkg/b.js", "file:///c", "x://", "ftp://h/f"]
NAMES = ["n", "m", "", "n", "foo"]
ROOTS = ["r", "r/", "/", "", "http://cdn/", "r//", "/abs/", "https:", None, None]
DIDS = ["000102030405060708090a0b0c0d0e0f", "00000000000000000000000000000000", "ffffffffffffffffffffffffffffffff", "~"]
CONT = ["x", "", "line1\nline2", None]


def o(s):
    """optional string field"""
    return "~" if s is None else hx(s)


def strs(xs):
    return ",".join(hx(x) for x in xs) if xs else "."


def opts(xs):
    return ",".join(o(x) for x in xs) if xs else "."


def nontrivial(r):
    m = r["model"]
    if not m.startswith("ok "):
        return False
    if r["case"].startswith("bld.seq"):
        outs = [x for x in m.split(" ")[1].split(",") if x.startswith("i") or x.startswith("t")]
        if len(outs) != len(set(outs)):
            return True
    for st in m[3:].split(" ; "):
        f = dict(p.split("=", 1) for p in st.split(" ") if "=" in p)
        if f.get("S") != f.get("W"):
            return True
    return False


def corpus():
    return [
        "bld.seq ~ as:61;as:62;as:61;an:6e;ad:0:1:2:3:61:6e:0;ad:0:0:0:0:63:~:1;ar:1:0:0:0:1:~:0;ar:1:1:0:0:9:0:0;sc:1:7878;ig:5;ig:1;ig:5;sr:72;sf:66;sd:000102030405060708090a0b0c0d0e0f;gs:1;gs:7",
        "bld.seq 66 as:-;as:2f616273;as:687474703a2f2f782f79;sr:722f;sc:0:-",
        "bld.seq ~ as:61;sc:1:78",
        "bld.seq ~ sc:4294967295:78",
        "bld.seq ~ as:61;sc:4294967295:78",
        "bld.seq ~ .",
        "bld.seq ~ ar:0:0:0:0:4294967295:4294967295:0;ar:0:1:0:0:0:0:0",
        "smap.seq 61,2f62,- 78,~ 6e sr:72;ss:1:63;rt;sr:-;rt;sc:2:7a;sr:2f;rt;ig:3;ig:1;sf:66;sd:000102030405060708090a0b0c0d0e0f;rt",
        "smap.seq 61 78,79,7a . sc:0:~;rt",
        "smap.seq 61 78,79,7a . rt;rt",
        "smap.seq 61 ~ . ss:1:62",
        "smap.seq 61 ~ . sr:72;ss:1:62",
        "smap.seq . ~ . sc:0:78",
        "smap.seq 61 ~ . sr:722f;rt;rt;rt;sr:72;rt;sr:~;rt",
    ]


def gen_bld(rng, hist, bad):
    if not bad and rng.chance(0.01):
        # more sources than a byte can index: ids around 255 / 256 / 257 must not be confused modulo 256
        k = rng.choice([257, 258, 300])
        ops = ["as:" + hx("s%d" % i) for i in range(k)]
        for i in rng.choice([[256, 0, 255], [255, 257, 1], [k - 1, k - 257, 256]]):
            ops.append("sc:%d:%s" % (i, o("c%d" % i)))
        ops += ["ar:0:%d:1:2:%d:~:0" % (j, i) for j, i in enumerate([256, 0, 257, k - 1])]
        ops += ["gs:256", "ig:256", "ig:0"]
        bump(hist, "bld_many_sources")
        return "bld.seq %s %s" % (o("f.js"), ";".join(ops))
    n = rng.range(1, 12) if rng.chance(0.7) else rng.range(1, 40)
    pool = SRC if rng.chance(0.7) else SRC[:4]
    srcs, names = [], []
    ops = []
    # pairwise distinct generated positions, in arbitrary order
    positions = [(l, c) for l in range(3) for c in range(20)]
    rng.shuffle(positions)
    badpos = rng.below(n) if bad else -1

    def add_src(s):
        if s not in srcs:
            srcs.append(s)

    def add_name(s):
        if s not in names:
            names.append(s)

    for k in range(n):
        w = rng.below(100)
        if k == badpos:
            i = rng.choice([len(srcs), len(srcs) + 1, 4294967295, len(srcs) + 7])
            ops.append("sc:%d:%s" % (i, o(rng.choice(CONT))))
            bump(hist, "bld_bad_id")
            continue
        if w < 25:
            s = rng.choice(pool)
            ops.append("as:" + hx(s))
            add_src(s)
            kind = "as"
        elif w < 37:
            s = rng.choice(NAMES)
            ops.append("an:" + hx(s))
            add_name(s)
            kind = "an"
        elif w < 57 and positions:
            l, c = positions.pop()
            s = rng.choice(pool) if rng.chance(0.8) else None
            nm = rng.choice(NAMES) if rng.chance(0.5) else None
            ops.append("ad:%d:%d:%d:%d:%s:%s:%d" % (l, c, rng.below(5), rng.below(50), o(s), o(nm), rng.chance(0.15)))
            if s is not None:
                add_src(s)
            if nm is not None:
                add_name(nm)
            kind = "ad"
        elif w < 65 and positions:
            l, c = positions.pop()
            if rng.chance(0.8):
                si = rng.below(len(srcs)) if srcs and rng.chance(0.85) else rng.choice([None, len(srcs), 4294967295, len(srcs) + 3])
            else:
                si = None
            ni = rng.below(len(names)) if names and rng.chance(0.5) else rng.choice([None, None, len(names), 4294967295])
            ops.append("ar:%d:%d:%d:%d:%s:%s:%d" % (l, c, rng.below(5), rng.below(50), "~" if si is None else si, "~" if ni is None else ni, rng.chance(0.15)))
            kind = "ar"
        elif w < 75 and srcs:
            ops.append("sc:%d:%s" % (rng.below(len(srcs)), o(rng.choice(CONT))))
            kind = "sc"
        elif w < 80:
            ops.append("ig:%d" % rng.choice([0, 1, 2, 5, len(srcs), 4294967295, rng.below(8)]))
            kind = "ig"
        elif w < 90:
            ops.append("sr:" + o(rng.choice(ROOTS)))
            kind = "sr"
        elif w < 93:
            ops.append("sf:" + o(rng.choice(["out.js", "", None])))
            kind = "sf"
        elif w < 96:
            ops.append("sd:" + rng.choice(DIDS))
            kind = "sd"
        else:
            ops.append("gs:%d" % rng.choice([0, 1, len(srcs), rng.below(6)]))
            kind = "gs"
        bump(hist, "bld_op_" + kind)
    bump(hist, "bld_len_%s" % ("1-4" if n <= 4 else "5-12" if n <= 12 else "13-40"))
    bump(hist, "bld_distinct_sources_%d" % min(len(srcs), 8))
    return "bld.seq %s %s" % (o(rng.choice(["f.js", None, ""])), ";".join(ops))


def gen_smap(rng, hist, bad):
    ns = rng.choice([0, 1, 1, 2, 2, 3, 3, 4, 5])
    many = rng.chance(0.02)
    if many:
        # more sources than a byte can index: ids around 255 / 256 / 257 must not be confused modulo 256
        ns = rng.choice([256, 257, 300])
        bump(hist, "smap_many_sources")
    sources = [("s%d" % i if many else rng.choice(SRC)) for i in range(ns)]
    pick = (lambda: rng.choice([0, 1, 255, 256, ns - 1, ns - 44, rng.below(ns)]) % ns) if many else (lambda: rng.below(ns))
    r = rng.below(10)
    if r < 3:
        conts = None
    elif r < 7:
        conts = [rng.choice(CONT) for _ in range(ns)]
    else:
        conts = [rng.choice(CONT) for _ in range(rng.choice([0, max(0, ns - 1), ns + 1, ns + 3]))]
    names = [rng.choice(NAMES) for _ in range(rng.below(3))]
    n = rng.range(1, 10) if rng.chance(0.7) else rng.range(1, 40)
    if many:
        n = rng.range(2, 6)
    badpos = rng.below(n) if bad else -1
    ops = []
    for k in range(n):
        w = rng.below(100)
        if k == badpos:
            i = rng.choice([ns, ns + 1, 4294967295, ns + 5])
            ops.append(("ss:%d:%s" % (i, hx(rng.choice(SRC)))) if rng.chance(0.5) else ("sc:%d:%s" % (i, o(rng.choice(CONT)))))
            bump(hist, "smap_bad_id")
            continue
        if w < 27:
            ops.append("sr:" + o(rng.choice(ROOTS)))
            kind = "sr"
        elif w < 50 and ns:
            ops.append("ss:%d:%s" % (pick(), hx(rng.choice(SRC))))
            kind = "ss"
        elif w < 65 and ns:
            ops.append("sc:%d:%s" % (pick(), o(rng.choice(CONT))))
            kind = "sc"
        elif w < 88:
            ops.append("rt")
            kind = "rt"
        elif w < 93:
            ops.append("ig:%d" % rng.choice([0, 1, 2, ns, 4294967295, rng.below(8)]))
            kind = "ig"
        elif w < 96:
            ops.append("sf:" + o(rng.choice(["out.js", "", None])))
            kind = "sf"
        else:
            ops.append("sd:" + rng.choice(DIDS))
            kind = "sd"
        bump(hist, "smap_op_" + kind)
    bump(hist, "smap_len_%s" % ("1-4" if n <= 4 else "5-12" if n <= 12 else "13-40"))
    bump(hist, "smap_contents_%s" % ("none" if conts is None else "eq" if len(conts) == ns else "shorter" if len(conts) < ns else "longer"))
    return "smap.seq %s %s %s %s" % (strs(sources), "~" if conts is None else opts(conts), strs(names), ";".join(ops))


# exhaustive small scopes: a 3-string pool {"a", "/b", ""}
B_ALPHA = (["as:" + hx(s) for s in ("a", "/b", "")] + ["an:" + hx(s) for s in ("a", "/b", "")]
           + ["ad:%d:%d:1:2:%s:%s:0" % (0, 0, o(s), o(n)) for s, n in (("a", "a"), ("/b", None), (None, None), ("", "/b"))]
           + ["ar:0:0:0:0:0:~:0", "ar:0:0:0:0:1:0:0", "sc:0:78", "sc:1:~", "ig:0", "ig:1"]
           + ["sr:" + o(r) for r in ("r", "r/", "", None)] + ["sf:66", "sd:000102030405060708090a0b0c0d0e0f"])
M_ALPHA = (["sr:" + o(r) for r in ("r", "r/", "", None, "/")] + ["ss:%d:%s" % (i, hx(s)) for i in (0, 1) for s in ("a", "/b", "")]
           + ["sc:0:78", "sc:1:~", "rt"])
M_INIT = ["smap.seq 61,2f62 ~ .", "smap.seq -,61 78 .", "smap.seq 61,61 ~,79,7a 6e"]


def fix_positions(seq):
    """give the k-th token of the sequence the position (0, maxlen-k): distinct, decreasing"""
    out = []
    for k, op in enumerate(seq):
        if op.startswith("ad:") or op.startswith("ar:"):
            f = op.split(":")
            f[2] = str(9 - k)
            op = ":".join(f)
        out.append(op)
    return out


def generate(tier, rng, hist):
    out = []
    maxlen = 3 if tier == "quick" else 4
    for n in range(1, maxlen + 1):
        for seq in itertools.product(B_ALPHA, repeat=n):
            out.append("bld.seq ~ " + ";".join(fix_positions(seq)))
    bump(hist, "exhaustive_bld", len(out))
    k0 = len(out)
    for n in range(1, maxlen + 1):
        for seq in itertools.product(M_ALPHA, repeat=n):
            for init in M_INIT:
                out.append(init + " " + ";".join(seq))
    bump(hist, "exhaustive_smap", len(out) - k0)
    N = 2500 if tier == "quick" else 120000
    for _ in range(N):
        out.append(gen_bld(rng, hist, bad=rng.chance(0.05)))
        out.append(gen_smap(rng, hist, bad=rng.chance(0.05)))
    return out
