"""C05 - untrusted bytes never crash the library."""
from common import *
from mapgen import *
import json, os

PROP = "C05"
CONSTS = []
THEOREMS = {}   # filled below: the per-component safety theorems proved in the other property files
TRUSTED = BASE_TRUST + ["bytes.all is an exploration op on the real code only (panic hook + overflow checks, 10 s watchdog, counting allocator); JSON parsing, serde's recursion limit, allocation and wall-clock are outside the Lean model"]
ASSUMPTIONS = ["serialisation is exercised only while the greatest generated line stays below 100000", "allocation bound: 4096 x input + 8 MiB peak"]
RULE = ("bytes.all: arbitrary bytes; structure-aware documents with extreme numbers (0, 2^31, 2^32-1, 62-bit VLQ values, negative running sums), wrong types, missing and repeated keys, mismatched array lengths, nested sections, malformed Hermes payloads; byte-level mutations of tests/fixtures/**. "
        "non-trivial = the input decodes to a map (all queries were driven) ; distinct = distinct case line")
EXHAUSTIVE = {"quick": False, "thorough": False}
LIMIT_MS = 20000
FIX = "/repo/tests/fixtures"


def nontrivial(r):
    return " regular" in r["impl"] or " index" in r["impl"] or " hermes" in r["impl"]


def fixtures():
    out = []
    for root, _, files in os.walk(FIX):
        for f in sorted(files):
            p = os.path.join(root, f)
            if os.path.getsize(p) < 300000:
                out.append(open(p, "rb").read())
    return out


def corpus():
    n62 = vlq_enc((1 << 62) - 1)
    docs = [
        # F7: flatten with a huge column offset; F8: hermes src_line max; F9: hermes short metadata; F6: range from later line
        '{"version":3,"sections":[{"offset":{"line":0,"column":4294967295},"map":{"version":3,"sources":["a"],"names":[],"mappings":"CAAA"}}]}',
        '{"version":3,"sections":[{"offset":{"line":4294967295,"column":0},"map":{"version":3,"sources":["a"],"names":[],"mappings":";CAAA"}}]}',
        '{"version":3,"sources":["a"],"names":[],"mappings":"A%sAA","x_facebook_sources":[[{"names":["f"],"mappings":"AAA"}]]}' % vlq_enc(4294967295),
        '{"version":3,"sources":["a","b","c"],"names":[],"mappings":"AEAA","x_facebook_sources":[[{"names":["f"],"mappings":"AAA"}]]}',
        '{"version":3,"sources":["a"],"names":[],"mappings":"UAAO","rangeMappings":"B"}',
        '{"version":3,"sources":["a"],"names":["é"],"mappings":"AAAAA,%sAAA"}' % n62,
        '{"version":3,"sources":["a"],"names":[],"mappings":"' + ",".join(["CAAC"] * 17) + '","rangeMappings":"AAQ"}',
    ]
    return ["bytes.all " + hx(d) for d in docs] + ["bytes.all -", "bytes.all " + hx("function a(){alert(1)}\r"), "bytes.all " + hx("a\r\n"), "bytes.all " + hx("\r"), "bytes.all " + hx(")]}'\r{}"), "bytes.all " + hx("//# sourceMappingURL=data:application/json;base64,e30=")]


def rand_value(rng, depth=0):
    r = rng.below(12)
    if r == 0:
        return None
    if r == 1:
        return rng.choice([0, 1, -1, 2 ** 31, 2 ** 32 - 1, 2 ** 32, 2 ** 53, -2 ** 31, 1.5, 1e300])
    if r == 2:
        return rng.choice(["", "a", "é", "/abs", "http://x/y", "AAAA", "\u0000", "𝒳"])
    if r == 3:
        return rng.chance(0.5)
    if r == 4 and depth < 3:
        return [rand_value(rng, depth + 1) for _ in range(rng.below(4))]
    if r == 5 and depth < 3:
        return {rng.choice(["a", "names", "mappings", "version"]): rand_value(rng, depth + 1)}
    return rng.choice(["AAAA", 3, [], {}])


def big_mappings(rng, nsrc, nn):
    parts = []
    for _ in range(rng.small(12)):
        if rng.chance(0.15):
            parts.append(";" * rng.range(1, 4))
            continue
        ar = rng.choice([1, 4, 5, 1, 4, 2, 6])
        vals = []
        for k in range(ar):
            vals.append(rng.choice([0, 1, -1, 2, 5, -5, 2 ** 31, -(2 ** 31), 2 ** 32 - 1, -(2 ** 32 - 1), 2 ** 32, (1 << 62) - 1, -((1 << 62) - 1), rng.below(max(nsrc, 1)), rng.range(-3, 3)]))
        parts.append("".join(vlq_enc(v) for v in vals))
        parts.append(rng.choice([",", ",", ";", ",,", ""]))
    return "".join(parts)


def rand_map_doc(rng, depth=0):
    nsrc = rng.choice([0, 1, 2, 3])
    nn = rng.choice([0, 1, 2])
    d = {}
    if rng.chance(0.9):
        d["version"] = rng.choice([3, 3, 3, "3", None, 2 ** 32])
    d["sources"] = [rng.choice(["a.js", "b.js", None, "", "/x", "é"]) for _ in range(nsrc)]
    d["names"] = [rng.choice(["n", "é", 5, None, 1.5, ""]) for _ in range(nn)]
    d["mappings"] = big_mappings(rng, nsrc, nn) if rng.chance(0.6) else render(rand_doc(rng, nsrc, nn, big=rng.chance(0.3)))
    if rng.chance(0.3):
        d["sourcesContent"] = [rng.choice([None, "function a(){}\nvar é=1;", ""]) for _ in range(rng.choice([nsrc, nsrc + 1, max(nsrc - 1, 0)]))]
    if rng.chance(0.3):
        d["sourceRoot"] = rng.choice(["", "/", "x", "x/", "http://h/", None])
    if rng.chance(0.2):
        d["file"] = rng.choice(["f.js", 5, None, {}])
    if rng.chance(0.2):
        d["ignoreList"] = [rng.choice([0, 1, 7, 2 ** 32 - 1]) for _ in range(rng.below(3))]
    if rng.chance(0.25):
        d["rangeMappings"] = "".join(rng.choice(["A", "B", "g", "/", ";", ";", "C", "!"]) for _ in range(rng.below(8)))
    if rng.chance(0.15):
        d[rng.choice(["debug_id", "debugId"])] = rng.choice(["00000000-0000-0000-0000-000000000000", "not-a-uuid", 5])
    if rng.chance(0.25):
        fs = []
        for _ in range(rng.choice([nsrc, nsrc + 1, max(nsrc - 1, 0), 1])):
            r = rng.below(5)
            if r == 0:
                fs.append(None)
            elif r == 1:
                fs.append([])
            else:
                fs.append([{"names": ["f", "g"][: rng.below(3)], "mappings": rng.choice(["AAA", "AAA,AC", "A;A;A", "AAA;CCC", "!", "g", "", vlq_enc(2 ** 32 - 1) + "AA", "AA" + vlq_enc(-5)])}])
        d["x_facebook_sources"] = fs
    if rng.chance(0.1):
        d[rng.choice(list(d.keys()))] = rand_value(rng)
    return d


def rand_index_doc(rng, depth=0):
    secs = []
    line = 0
    for _ in range(rng.below(4)):
        line += rng.choice([0, 1, 1, 5, 2 ** 31, 2 ** 32 - 1 - line if line < 2 ** 32 - 1 else 0])
        line = min(line, 2 ** 32 - 1)
        sec = {"offset": {"line": line, "column": rng.choice([0, 0, 3, 2 ** 32 - 1, 2 ** 31])}}
        r = rng.below(10)
        if r < 6:
            sec["map"] = rand_map_doc(rng)
        elif r < 8 and depth < 3:
            sec["map"] = rand_index_doc(rng, depth + 1)
        elif r < 9:
            sec["url"] = "http://x/y.map"
        secs.append(sec)
    if rng.chance(0.2):
        rng.shuffle(secs)
    d = {"version": 3, "sections": secs}
    if rng.chance(0.2):
        d["file"] = rng.choice(["x", 7])
    if rng.chance(0.1):
        d["x_facebook_offsets"] = [rng.choice([0, None, 5]) for _ in range(rng.below(4))]
        d["x_metro_module_paths"] = ["a"]
    return d


def generate(tier, rng, hist):
    out = []
    N = 1500 if tier == "quick" else 120000
    fx = fixtures()
    for _ in range(N):
        r = rng.below(11)
        if r == 10:
            # text-like input: every entry point that takes a source text sees terminators anywhere
            pieces = ["function a(){alert(1)}", "var é=1;", "//# sourceMappingURL=x.map", "//@ sourceMappingURL=data:application/json;base64,e30=", "𝒳", "", " a "]
            b = "".join(rng.choice(pieces) + rng.choice(["\n", "\r", "\r\n", "", "\n\r"]) for _ in range(rng.range(1, 4))).encode()
            bump(hist, "text_like")
        elif r < 1:
            b = bytes(rng.below(256) for _ in range(rng.small(80)))
            bump(hist, "arbitrary_bytes")
        elif r < 6:
            d = rand_map_doc(rng) if rng.chance(0.7) else rand_index_doc(rng)
            b = json.dumps(d, ensure_ascii=rng.chance(0.5)).encode()
            if rng.chance(0.1):
                b = rng.choice([b")]}'\n", b")]}\r\n", b")\r", b"]"]) + b
            if rng.chance(0.05):
                b = b[: rng.below(len(b) + 1)]
            bump(hist, "structured_doc")
        elif r < 9 and fx:
            b = bytearray(rng.choice(fx))
            if len(b) > 20000 and tier == "quick":
                b = b[:20000]
            for _ in range(rng.range(1, 4)):
                k = rng.below(4)
                pos = rng.below(len(b)) if b else 0
                if k == 0 and b:
                    b[pos] = rng.below(256)
                elif k == 1 and b:
                    del b[pos: pos + rng.range(1, 8)]
                elif k == 2:
                    b[pos:pos] = bytes(rng.choice([b'"', b",", b";", b"g" * 14, b"/", b"4294967295", b"-1", b"null", b"[", b"}"]))
                else:
                    b[pos:pos] = b[pos: pos + rng.range(1, 30)]
            b = bytes(b)
            bump(hist, "fixture_mutation")
        else:
            # deep nesting
            k = rng.choice([5, 50, 120, 200])
            inner = '{"version":3,"sources":[],"names":[],"mappings":""}'
            for _ in range(k):
                inner = '{"version":3,"sections":[{"offset":{"line":0,"column":0},"map":%s}]}' % inner
            b = inner.encode()
            bump(hist, "deep_nesting_%d" % k)
        out.append("bytes.all " + hx(b))
    return out
