"""C05 - untrusted bytes never crash the library."""
from common import *
from mapgen import *
import json, os

PROP = "C05"
CONSTS = []
THEOREMS = {"SmVerif.Props.C05": ["SmVerif.C05." + n for n in [
    "c05_safe_iff", "c05_parseVlq_safe", "c05_decLoop_safe", "c05_parse_nonempty", "c05_decode_safe",
    "c05_decoded_tokens", "c05_decoded_wf_partial", "c05_decoded_wf_needs_size",
    "c05_lookup_safe", "c05_lookup_safe_any",
    "c05_serialize_safe", "c05_serialize_rmi_safe", "c05_serialize_sorted", "c05_vlqDiff_total",
    "c05_reencode_decodes_partial", "c05_rmi_safe"]],
    # crash-freedom of the other modelled operations the property lists, proved in their own packages
    "SmVerif.Props.C04": ["SmVerif.C04.c04_lookup_safe"],
    "SmVerif.Props.C08": ["SmVerif.C08.c08_safe_flatten", "SmVerif.C08.c08_safe_lookup", "SmVerif.C08.c08_lookup_no_underflow"],
    "SmVerif.Props.C09": ["SmVerif.C09.c09_safe"],
    "SmVerif.Props.C12": ["SmVerif.C12.c12_no_false_eof", "SmVerif.C12.c12_errors_coincide"],
    "SmVerif.Props.C14": ["SmVerif.C14.c14_safe"],
    "SmVerif.Props.C15": ["SmVerif.C15.c15_no_panic", "SmVerif.C15.c15_get_line", "SmVerif.C15.c15_slice"],
    "SmVerif.Props.C17": ["SmVerif.C17.c17_safe", "SmVerif.C17.c17_safe_new"],
    "SmVerif.Props.C18": ["SmVerif.C18.c18_locate"],
    "SmVerif.Props.C20": ["SmVerif.C20.c20_total", "SmVerif.C20.c20_in_bounds"]}
TRUSTED = BASE_TRUST + ["bytes.all is an exploration op on the real code only (panic hook + overflow checks, 20 s watchdog, counting allocator); JSON parsing, serde's recursion limit, allocation and wall-clock are outside the Lean model"]
ASSUMPTIONS = ["serialisation is exercised only while the greatest generated line stays below 100000", "allocation bound: 4096 x input + 8 MiB peak",
               "c05_decoded_wf_partial and c05_reencode_decodes_partial carry size bounds (mappings string shorter than 2^32 bytes, at most 2^32 sources and names, i.e. a document below 4 GiB): the model counts lines in an unbounded Nat where the code has `dst_line as u32` (c05_decoded_wf_needs_size is the counterexample without the bound); c05_decoded_tokens is the unconditional part"]
RULE = ("bytes.all: about 60 % valid structured documents that decode (regular maps with coordinates at 2^31 / 2^32-1 and negative deltas back to 0, wrapping deltas, up to 100001 generated lines, aligned rangeMappings, "
        "Hermes maps whose function maps parse, index maps with ordered / nested sections and large-but-legal offsets, junk headers) so that every post-decode query, serialisation, rewrite and flatten is driven; "
        "and the malformed stream: arbitrary bytes; structure-aware documents with extreme numbers (0, 2^31, 2^32-1, 62-bit VLQ values, negative running sums), wrong types, missing and repeated keys, mismatched array lengths, nested sections, malformed Hermes payloads; byte-level mutations of tests/fixtures/**. "
        "non-trivial = the input decodes to a map (all queries were driven) ; distinct = distinct case line")
EXHAUSTIVE = {"quick": False, "thorough": False}
LIMIT_MS = 20000
FIX = "/repo/tests/fixtures"


def nontrivial(r):
    return " regular" in r["impl"] or " index" in r["impl"] or " hermes" in r["impl"]


def fixtures():
    out = []
    for root, _, files in os.walk(FIX):
        for f in sorted(files):
            p = os.path.join(root, f)
            if os.path.getsize(p) < 300000:
                out.append(open(p, "rb").read())
    return out


def corpus():
    n62 = vlq_enc((1 << 62) - 1)
    docs = [
        # F7: flatten with a huge column offset; F8: hermes src_line max; F9: hermes short metadata; F6: range from later line
        '{"version":3,"sections":[{"offset":{"line":0,"column":4294967295},"map":{"version":3,"sources":["a"],"names":[],"mappings":"CAAA"}}]}',
        '{"version":3,"sections":[{"offset":{"line":4294967295,"column":0},"map":{"version":3,"sources":["a"],"names":[],"mappings":";CAAA"}}]}',
        '{"version":3,"sources":["a"],"names":[],"mappings":"A%sAA","x_facebook_sources":[[{"names":["f"],"mappings":"AAA"}]]}' % vlq_enc(4294967295),
        '{"version":3,"sources":["a","b","c"],"names":[],"mappings":"AEAA","x_facebook_sources":[[{"names":["f"],"mappings":"AAA"}]]}',
        '{"version":3,"sources":["a"],"names":[],"mappings":"UAAO","rangeMappings":"B"}',
        '{"version":3,"sources":["a"],"names":["é"],"mappings":"AAAAA,%sAAA"}' % n62,
        '{"version":3,"sources":["a"],"names":[],"mappings":"' + ",".join(["CAAC"] * 17) + '","rangeMappings":"AAQ"}',
    ]
    return ["bytes.all " + hx(d) for d in docs] + ["bytes.all -", "bytes.all " + hx("function a(){alert(1)}\r"), "bytes.all " + hx("a\r\n"), "bytes.all " + hx("\r"), "bytes.all " + hx(")]}'\r{}"), "bytes.all " + hx("//# sourceMappingURL=data:application/json;base64,e30=")]


def rand_value(rng, depth=0):
    r = rng.below(12)
    if r == 0:
        return None
    if r == 1:
        return rng.choice([0, 1, -1, 2 ** 31, 2 ** 32 - 1, 2 ** 32, 2 ** 53, -2 ** 31, 1.5, 1e300])
    if r == 2:
        return rng.choice(["", "a", "é", "/abs", "http://x/y", "AAAA", "\u0000", "𝒳"])
    if r == 3:
        return rng.chance(0.5)
    if r == 4 and depth < 3:
        return [rand_value(rng, depth + 1) for _ in range(rng.below(4))]
    if r == 5 and depth < 3:
        return {rng.choice(["a", "names", "mappings", "version"]): rand_value(rng, depth + 1)}
    return rng.choice(["AAAA", 3, [], {}])


def big_mappings(rng, nsrc, nn):
    parts = []
    for _ in range(rng.small(12)):
        if rng.chance(0.15):
            parts.append(";" * rng.range(1, 4))
            continue
        ar = rng.choice([1, 4, 5, 1, 4, 2, 6])
        vals = []
        for k in range(ar):
            vals.append(rng.choice([0, 1, -1, 2, 5, -5, 2 ** 31, -(2 ** 31), 2 ** 32 - 1, -(2 ** 32 - 1), 2 ** 32, (1 << 62) - 1, -((1 << 62) - 1), rng.below(max(nsrc, 1)), rng.range(-3, 3)]))
        parts.append("".join(vlq_enc(v) for v in vals))
        parts.append(rng.choice([",", ",", ";", ",,", ""]))
    return "".join(parts)


def rand_map_doc(rng, depth=0):
    nsrc = rng.choice([0, 1, 2, 3])
    nn = rng.choice([0, 1, 2])
    d = {}
    if rng.chance(0.9):
        d["version"] = rng.choice([3, 3, 3, "3", None, 2 ** 32])
    d["sources"] = [rng.choice(["a.js", "b.js", None, "", "/x", "é"]) for _ in range(nsrc)]
    d["names"] = [rng.choice(["n", "é", 5, None, 1.5, ""]) for _ in range(nn)]
    d["mappings"] = big_mappings(rng, nsrc, nn) if rng.chance(0.6) else render(rand_doc(rng, nsrc, nn, big=rng.chance(0.3)))
    if rng.chance(0.3):
        d["sourcesContent"] = [rng.choice([None, "function a(){}\nvar é=1;", ""]) for _ in range(rng.choice([nsrc, nsrc + 1, max(nsrc - 1, 0)]))]
    if rng.chance(0.3):
        d["sourceRoot"] = rng.choice(["", "/", "x", "x/", "http://h/", None])
    if rng.chance(0.2):
        d["file"] = rng.choice(["f.js", 5, None, {}])
    if rng.chance(0.2):
        d["ignoreList"] = [rng.choice([0, 1, 7, 2 ** 32 - 1]) for _ in range(rng.below(3))]
    if rng.chance(0.25):
        d["rangeMappings"] = "".join(rng.choice(["A", "B", "g", "/", ";", ";", "C", "!"]) for _ in range(rng.below(8)))
    if rng.chance(0.15):
        d[rng.choice(["debug_id", "debugId"])] = rng.choice(["00000000-0000-0000-0000-000000000000", "not-a-uuid", 5])
    if rng.chance(0.25):
        fs = []
        for _ in range(rng.choice([nsrc, nsrc + 1, max(nsrc - 1, 0), 1])):
            r = rng.below(5)
            if r == 0:
                fs.append(None)
            elif r == 1:
                fs.append([])
            else:
                fs.append([{"names": ["f", "g"][: rng.below(3)], "mappings": rng.choice(["AAA", "AAA,AC", "A;A;A", "AAA;CCC", "!", "g", "", vlq_enc(2 ** 32 - 1) + "AA", "AA" + vlq_enc(-5)])}])
        d["x_facebook_sources"] = fs
    if rng.chance(0.1):
        d[rng.choice(list(d.keys()))] = rand_value(rng)
    return d


def rand_index_doc(rng, depth=0):
    secs = []
    line = 0
    for _ in range(rng.below(4)):
        line += rng.choice([0, 1, 1, 5, 2 ** 31, 2 ** 32 - 1 - line if line < 2 ** 32 - 1 else 0])
        line = min(line, 2 ** 32 - 1)
        sec = {"offset": {"line": line, "column": rng.choice([0, 0, 3, 2 ** 32 - 1, 2 ** 31])}}
        r = rng.below(10)
        if r < 6:
            sec["map"] = rand_map_doc(rng)
        elif r < 8 and depth < 3:
            sec["map"] = rand_index_doc(rng, depth + 1)
        elif r < 9:
            sec["url"] = "http://x/y.map"
        secs.append(sec)
    if rng.chance(0.2):
        rng.shuffle(secs)
    d = {"version": 3, "sections": secs}
    if rng.chance(0.2):
        d["file"] = rng.choice(["x", 7])
    if rng.chance(0.1):
        d["x_facebook_offsets"] = [rng.choice([0, None, 5]) for _ in range(rng.below(4))]
        d["x_metro_module_paths"] = ["a"]
    return d


# ---------------------------------------------------------------- valid documents (they decode; the queries run)

E32 = [0, 1, (1 << 31) - 1, 1 << 31, (1 << 31) + 1, (1 << 32) - 2, (1 << 32) - 1]
UUIDS = ["00000000-0000-0000-0000-000000000000", "dfb8e43a-f242-3d73-a453-aeb6a777ef75", "DFB8E43AF2423D73A453AEB6A777EF75", "dfb8e43a-f242-3d73-a453-aeb6a777ef75-a"]
TEXTS = ["function a(){}\nvar é=1;", "", "function é(){}function 𝒳(a){return a}\nvar x=function(){};", "a\r\nb\rc\n", "x" * 300, "function a ( ) {\n  return 1\n}\n"]


def rmi_enc(bits):
    """generator's own writer of a range-mapping line: 6 bits per character, least significant first"""
    return "".join(B64[sum(b << k for k, b in enumerate(bits[i:i + 6]))] for i in range(0, len(bits), 6))


def extreme_doc(rng, nsrc, nn):
    """valid document whose absolute coordinates sit on the u32 extremes: every field jumps to 2^31 / 2^32-1 and back to 0"""
    lines = []
    src = sl = sc = name = 0
    for _ in range(rng.range(1, 4)):
        segs = []
        col = 0
        for _ in range(rng.range(1, 6)):
            ncol = rng.choice(E32)
            c, col = ncol - col, ncol
            if nsrc == 0 or rng.chance(0.2):
                segs.append([c])
                continue
            ns, nsl, nsc = rng.choice([0, nsrc - 1, rng.below(nsrc)]), rng.choice(E32), rng.choice(E32)
            f = [c, ns - src, nsl - sl, nsc - sc]
            src, sl, sc = ns, nsl, nsc
            if nn and rng.chance(0.5):
                n2 = rng.choice([0, nn - 1, rng.below(nn)])
                f.append(n2 - name)
                name = n2
            segs.append(f)
        lines.append(segs)
    return lines


def wrap_doc(rng, nsrc, nn):
    """accepted by the decoder although the running column / original position leaves u32 (`as u32` wraps): deltas of
    -1 at 0, 2^32, +-(2^62-1), 13-digit values; source and name indices stay inside their arrays"""
    W = [-1, -7, 1 << 32, -(1 << 32), (1 << 32) + 1, (1 << 62) - 1, -((1 << 62) - 1), 1 << 61, -(1 << 61), (1 << 63) - 2 >> 1, 5, 0]
    lines = []
    src = name = 0
    for _ in range(rng.range(1, 3)):
        segs = []
        for _ in range(rng.range(1, 5)):
            if nsrc == 0 or rng.chance(0.3):
                segs.append([rng.choice(W)])
                continue
            ns = rng.below(nsrc)
            f = [rng.choice(W), ns - src, rng.choice(W), rng.choice(W)]
            src = ns
            if nn and rng.chance(0.5):
                n2 = rng.below(nn)
                f.append(n2 - name)
                name = n2
            segs.append(f)
        lines.append(segs)
    return lines


def spread(rng, lines, last):
    """push the lines apart with empty ones so that the last line index is `last`"""
    if not lines:
        lines = [[[0]]]
    k = len(lines)
    gaps = [0] * k
    room = max(0, last + 1 - k)
    for _ in range(3):
        gaps[rng.below(k)] += room // 3
    gaps[k - 1] += room - sum(gaps)
    out = []
    for g, ln in zip(gaps, lines):
        out += [[]] * g
        out.append(ln)
    return out


def valid_rmi(rng, lines):
    """a rangeMappings string aligned with the document: bits for some segments of some lines"""
    if rng.chance(0.1):
        return "".join(rng.choice(["A", "B", "g", "/", "+", "9", ";", ";"]) for _ in range(rng.below(10)))
    parts = []
    for segs in lines:
        if not segs or rng.chance(0.4):
            parts.append("")
            continue
        n = len(segs) + rng.choice([0, 0, 0, 1, 7])
        parts.append(rmi_enc([1 if rng.chance(0.4) else 0 for _ in range(n)]))
    while parts and parts[-1] == "" and rng.chance(0.8):
        parts.pop()
    return ";".join(parts)


def fn_map(rng):
    """a Hermes function map that parses: running column (per line) / name index / line (starts at 1)"""
    names = ["<global>", "f", "g", "é", "h"][: rng.range(0, 5)]
    out = []
    name = 0
    line = 1
    for _ in range(rng.small(8)):
        segs = []
        col = 0
        for _ in range(rng.range(0, 4)):
            ncol = rng.choice([col + rng.below(30), col + rng.below(30), 0, rng.choice(E32)])
            nname = rng.below(max(len(names), 1)) if rng.chance(0.9) else rng.choice([7, (1 << 32) - 1])
            nline = rng.choice([line, line + 1, line + rng.below(5), line + 1, 1, 1 << 31, (1 << 32) - 1, (1 << 32) - 2])
            ar = rng.choice([3, 3, 3, 2, 1, 4])
            f = [ncol - col, nname - name, nline - line, 0][:ar]
            col = ncol
            if ar >= 2:
                name = nname
            if ar >= 3:
                line = nline
            segs.append("".join(vlq_enc(v) for v in f))
        out.append(",".join(segs))
    return {"names": names, "mappings": ";".join(out)}


def valid_map(rng, hist, hermes=False, many=0.0):
    """a regular (or Hermes) map document that decodes"""
    nsrc = rng.choice([0, 1, 1, 2, 3, 5])
    nn = rng.choice([0, 1, 2, 4])
    r = rng.below(20)
    if r < 9:
        lines = rand_doc(rng, nsrc, nn, big=rng.chance(0.5))
        kind = "mixed"
    elif r < 13:
        lines = extreme_doc(rng, nsrc, nn)
        kind = "u32_extremes"
    elif r < 16:
        lines = wrap_doc(rng, nsrc, nn)
        kind = "wrapping_deltas"
    elif r < 18:
        lines = rand_doc(rng, nsrc, nn, max_lines=40, max_segs=30, big=rng.chance(0.3))
        kind = "long_lines"
    else:
        lines = spread(rng, rand_doc(rng, nsrc, nn, max_lines=5, max_segs=4), rng.choice([7, 60, 300, 2000]))
        kind = "sparse_lines"
    if rng.chance(many):
        # few tokens: bytes.all drives ~80 linear-time name-resolution queries per token with the whole input as source
        # text, so a 200 KB document with 40 tokens costs seconds and trips the watchdog on a loaded machine
        lines = spread(rng, rand_doc(rng, nsrc, nn, max_lines=3, max_segs=2), rng.choice([20000, 99998, 99999, 99999, 100000, 100001]))
        kind = "many_lines"
    bump(hist, "valid_" + ("hermes_" if hermes else "") + kind)
    d = {}
    if rng.chance(0.95):
        d["version"] = rng.choice([3, 3, 3, 3, None, 0, 2 ** 32 - 1])
    d["sources"] = [rng.choice(["a.js", "b.js", None, "", "/x/y.js", "é.js", "http://h/p/a.js", "~/z.js", "b/c.js"]) for _ in range(nsrc)]
    d["names"] = [rng.choice(["n", "é", "a", "function", 5, None, 1.5, "", "𝒳"]) for _ in range(nn)]
    d["mappings"] = render(lines)
    if rng.chance(0.5):
        d["sourcesContent"] = [rng.choice([None] + TEXTS) for _ in range(rng.choice([nsrc, nsrc, nsrc + 1, max(nsrc - 1, 0)]))]
    if rng.chance(0.3):
        d["sourceRoot"] = rng.choice(["", "/", "x", "x/", "http://h/", None, "/a"])
    if rng.chance(0.3):
        d["file"] = rng.choice(["f.js", 5, None, {}, "é"])
    if rng.chance(0.3):
        d["ignoreList"] = [rng.choice([0, 1, 7, 2 ** 32 - 1]) for _ in range(rng.below(3))]
    if rng.chance(0.45):
        d["rangeMappings"] = valid_rmi(rng, lines)
        bump(hist, "valid_with_range_mappings")
    if rng.chance(0.2):
        d[rng.choice(["debug_id", "debugId"])] = rng.choice(UUIDS)
    if hermes:
        fs = []
        for _ in range(rng.choice([nsrc, nsrc, nsrc, nsrc + 1, max(nsrc - 1, 0), 0])):
            k = rng.below(8)
            fs.append(None if k == 0 else [] if k == 1 else [fn_map(rng) for _ in range(rng.choice([1, 1, 1, 2]))])
        d["x_facebook_sources"] = fs
    if rng.chance(0.2):
        ks = list(d.items())
        rng.shuffle(ks)
        d = dict(ks)
    return d


def valid_index(rng, hist, depth=0):
    """an index map that decodes: ordered offsets (sometimes listed out of order - the decoder sorts), nested valid maps,
    offsets up to 2^32-1 (flatten then answers ok or CannotFlatten, never a crash)"""
    secs = []
    line = col = 0
    n = rng.choice([0, 1, 1, 2, 2, 3, 4]) if depth else rng.choice([1, 1, 2, 2, 3, 3, 5])
    big = rng.chance(0.3)
    for i in range(n):
        k = rng.below(6)
        if i == 0 and k < 3:
            pass                                    # first section at (0, 0)
        elif k < 2:
            col += rng.choice([1, 5, 80])           # same line, further right
        elif k < 5 or not big:
            line, col = line + rng.choice([1, 1, 2, 10, 1000]), rng.choice([0, 0, 0, 4, 100])
        else:
            line, col = max(line + 1, rng.choice([1 << 31, (1 << 32) - 1000, (1 << 32) - 2])), rng.choice([0, 0, 1 << 31, (1 << 32) - 1, (1 << 32) - 8])
        if big and rng.chance(0.3):
            col = rng.choice([(1 << 32) - 1, (1 << 32) - 40, 1 << 31])
        line, col = min(line, (1 << 32) - 1), min(col, (1 << 32) - 1)
        sec = {"offset": {"line": line, "column": col}}
        r = rng.below(12)
        if r < 7:
            sec["map"] = valid_map(rng, hist)
        elif r < 9:
            sec["map"] = valid_map(rng, hist, hermes=True)
        elif r < 11 and depth < 3:
            sec["map"] = valid_index(rng, hist, depth + 1)
        elif r < 11:
            sec["map"] = {"version": 3, "sources": [], "names": [], "mappings": ""}
        else:
            sec["url"] = rng.choice(["http://x/y.map", "", "y.map"])
            if rng.chance(0.3):
                sec["map"] = None
        secs.append(sec)
    if rng.chance(0.15):
        rng.shuffle(secs)
    if rng.chance(0.1) and secs:
        secs.append(dict(secs[rng.below(len(secs))]))      # two sections at one offset
    d = {"version": 3, "sections": secs}
    if rng.chance(0.3):
        d["file"] = rng.choice(["x", 7, None])
    if rng.chance(0.15):
        d["x_facebook_offsets"] = [rng.choice([0, None, 5, 2 ** 32 - 1]) for _ in range(rng.below(4))]
        d["x_metro_module_paths"] = ["a", "b/c"][: rng.below(3)]
    bump(hist, "valid_index_depth_%d" % depth)
    return d


def valid_document(rng, hist, many):
    r = rng.below(10)
    if r < 5:
        d = valid_map(rng, hist, many=many)
    elif r < 7:
        d = valid_map(rng, hist, hermes=True, many=many / 2)
    else:
        d = valid_index(rng, hist)
    b = json.dumps(d, ensure_ascii=rng.chance(0.5), separators=rng.choice([(",", ":"), (", ", ": ")])).encode()
    if rng.chance(0.08):
        b = rng.choice([b")]}'\n", b")]}'\r\n", b")]}' // not json\n", b")\n", b"}]'\n"]) + b
        bump(hist, "valid_with_junk_header")
    if rng.chance(0.05):
        b = b + rng.choice([b"\n", b" ", b"\r\n\t "])
    return b


def generate(tier, rng, hist):
    out = []
    N = 1500 if tier == "quick" else 120000
    fx = fixtures()
    for _ in range(N):
        r = rng.below(11)
        if r == 10:
            # text-like input: every entry point that takes a source text sees terminators anywhere
            pieces = ["function a(){alert(1)}", "var é=1;", "//# sourceMappingURL=x.map", "//@ sourceMappingURL=data:application/json;base64,e30=", "𝒳", "", " a "]
            b = "".join(rng.choice(pieces) + rng.choice(["\n", "\r", "\r\n", "", "\n\r"]) for _ in range(rng.range(1, 4))).encode()
            bump(hist, "text_like")
            if rng.chance(0.3):
                # a minified file whose reference embeds a valid map: drives get_embedded_sourcemap's decoder
                import base64
                doc = json.dumps(valid_map(rng, {}, hermes=rng.chance(0.3))).encode()
                b += rng.choice([b"//# sourceMappingURL=data:application/json;base64,", b"//# sourceMappingURL=data:application/json;charset=utf-8;base64,", b"//@ sourceMappingURL=data:application/json;base64,"]) + base64.b64encode(doc) + rng.choice([b"", b"\n", b"\r\n"])
                bump(hist, "text_like_embedded_valid_map")
        elif r < 1:
            b = bytes(rng.below(256) for _ in range(rng.small(80)))
            bump(hist, "arbitrary_bytes")
        elif r < 6:
            d = rand_map_doc(rng) if rng.chance(0.7) else rand_index_doc(rng)
            b = json.dumps(d, ensure_ascii=rng.chance(0.5)).encode()
            if rng.chance(0.1):
                b = rng.choice([b")]}'\n", b")]}\r\n", b")\r", b"]"]) + b
            if rng.chance(0.05):
                b = b[: rng.below(len(b) + 1)]
            bump(hist, "structured_doc")
        elif r < 9 and fx:
            b = bytearray(rng.choice(fx))
            if len(b) > 20000 and tier == "quick":
                b = b[:20000]
            for _ in range(rng.range(1, 4)):
                k = rng.below(4)
                pos = rng.below(len(b)) if b else 0
                if k == 0 and b:
                    b[pos] = rng.below(256)
                elif k == 1 and b:
                    del b[pos: pos + rng.range(1, 8)]
                elif k == 2:
                    b[pos:pos] = bytes(rng.choice([b'"', b",", b";", b"g" * 14, b"/", b"4294967295", b"-1", b"null", b"[", b"}"]))
                else:
                    b[pos:pos] = b[pos: pos + rng.range(1, 30)]
            b = bytes(b)
            bump(hist, "fixture_mutation")
        else:
            # deep nesting
            k = rng.choice([5, 50, 120, 200])
            inner = '{"version":3,"sources":[],"names":[],"mappings":""}'
            for _ in range(k):
                inner = '{"version":3,"sections":[{"offset":{"line":0,"column":0},"map":%s}]}' % inner
            b = inner.encode()
            bump(hist, "deep_nesting_%d" % k)
        out.append("bytes.all " + hx(b))
    # the valid stream: documents that decode, so that every post-decode query / serialisation / rewrite / flatten runs
    NV = 2400 if tier == "quick" else 150000
    many = 30.0 / NV if tier == "quick" else 400.0 / NV
    for _ in range(NV):
        out.append("bytes.all " + hx(valid_document(rng, hist, many)))
        bump(hist, "valid_doc")
    rng.shuffle(out)
    return out
