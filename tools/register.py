#!/usr/bin/env python3
"""tools/register.py <family> <LeanDrvModule> <leanHandle> <rustmod> <op1,op2,...>: one-line registrations in Main.lean and ops/mod.rs"""
import sys
fam, drv, handle, rmod, ops = sys.argv[1:6]
p = '/verif/lean/Main.lean'; s = open(p).read()
imp = "import SmVerif.Model.%s\n" % drv
if imp not in s:
    s = s.replace("import SmVerif.Model.DrvRam\n", "import SmVerif.Model.DrvRam\n" + imp)
line = '    else if op.startsWith "%s." then %s.%s toks\n' % (fam, drv, handle)
if line not in s:
    s = s.replace('    else if op.startsWith "bytes." then', line + '    else if op.startsWith "bytes." then')
open(p, 'w').write(s)
p = '/verif/harness/src/ops/mod.rs'; s = open(p).read()
if "pub mod %s;" % rmod not in s:
    s = "pub mod %s;\n" % rmod + s
arm = '        %s => %s::run(t),\n' % (" | ".join('"%s"' % o for o in ops.split(",")), rmod)
if arm not in s:
    s = s.replace('        _ => "bad-op".into(),', arm + '        _ => "bad-op".into(),')
open(p, 'w').write(s)
print("registered", fam)
