import SmVerif.Model.Proto
import SmVerif.Model.Vlq
/-
Line-protocol driver: one case per input line, one output line per case:
  <model>\t<spec>\t<wf>
`spec` is `-` when the case has no separate specification output; `wf` is 1 when the case
lies inside the property's quantifier (so that impl ≠ spec counts as a violation).
-/
open SmVerif SmVerif.Proto

def fnv (h : UInt64) (b : Nat) : UInt64 := (h ^^^ b.toUInt64) * 1099511628211

/-- checksum over the encodings of all integers in `[lo, hi)` plus the number of values that
do not round-trip; both sides of the correspondence compute the same fold. -/
partial def vlqRange (lo hi : Int) : String := Id.run do
  let mut h : UInt64 := 14695981039346656037
  let mut bad : Nat := 0
  let mut n := lo
  while n < hi do
    match Vlq.encodeVlq n with
    | .ok bs =>
      for b in bs do h := fnv h b
      match Vlq.parseVlq bs with
      | .ok [m] => if m ≠ n then bad := bad + 1
      | _ => bad := bad + 1
    | .error _ => bad := bad + 1
    n := n + 1
  return s!"ok {h.toNat} {bad}"

def fits63 (ds : List Nat) : Bool :=
  let (gs, _) := Vlq.splitGroups ds []
  gs.all fun g => decide (Vlq.groupValue g < 9223372036854775808)

def handle (toks : List String) : String :=
  match toks with
  | ["vlq.enc", xs] =>
    let m := showRes toHex (Vlq.encodeSeg (parseInts xs))
    s!"{m}\t-\t1"
  | ["vlq.dec", hx] =>
    let bs := parseHex hx
    let m := showRes showInts (Vlq.parseVlq bs)
    match Vlq.toDigits bs with
    | some ds => s!"{m}\t{showRes showInts (Vlq.specVlq ds)}\t{b2s (fits63 ds)}"
    | none => s!"{m}\t-\t0"
  | ["vlq.range", lo, hi] => s!"{vlqRange (parseInt lo) (parseInt hi)}\t-\t1"
  | _ => "bad-op\t-\t0"

partial def loop (h : IO.FS.Stream) (out : IO.FS.Stream) : IO Unit := do
  let line ← h.getLine
  if line.isEmpty then return ()
  let l := line.trimAscii.toString
  if l.isEmpty || l.startsWith "#" then
    loop h out
  else
    out.putStrLn (handle (l.splitOn " "))
    loop h out

def main : IO Unit := do
  let out ← IO.getStdout
  loop (← IO.getStdin) out
