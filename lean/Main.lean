import SmVerif.Model.Proto
import SmVerif.Model.Vlq
import SmVerif.Model.Lookup
import SmVerif.Model.V3Spec
import SmVerif.Model.Paths
import SmVerif.Model.DrvRam
import SmVerif.Model.DrvDoc
import SmVerif.Model.DrvIndex
import SmVerif.Model.DrvConc
import SmVerif.Model.DrvHermes
import SmVerif.Model.DrvDetect
import SmVerif.Model.DrvHeader
import SmVerif.Model.DrvBld
import SmVerif.Model.DrvRewrite
import SmVerif.Model.DrvName
import SmVerif.Model.DrvAdjust
import SmVerif.Model.DrvSv
/-
Line-protocol driver: one case per input line, one output line per case:
  <model>\t<spec>\t<wf>
`spec` is `-` when the case has no separate specification output; `wf` is 1 when the case
lies inside the property's quantifier (so that impl ≠ spec counts as a violation).
-/
open SmVerif SmVerif.Proto

def fnv (h : UInt64) (b : Nat) : UInt64 := (h ^^^ b.toUInt64) * 1099511628211

/-- checksum over the encodings of all integers in `[lo, hi)` plus the number of values that
do not round-trip; both sides of the correspondence compute the same fold. -/
partial def vlqRange (lo hi : Int) : String := Id.run do
  let mut h : UInt64 := 14695981039346656037
  let mut bad : Nat := 0
  let mut n := lo
  while n < hi do
    match Vlq.encodeVlq n with
    | .ok bs =>
      for b in bs do h := fnv h b
      match Vlq.parseVlq bs with
      | .ok [m] => if m ≠ n then bad := bad + 1
      | _ => bad := bad + 1
    | .error _ => bad := bad + 1
    n := n + 1
  return s!"ok {h.toNat} {bad}"

def fits63 (ds : List Nat) : Bool :=
  let (gs, _) := Vlq.splitGroups ds []
  gs.all fun g => decide (13 < g.length) || decide (Vlq.groupValue g < 9223372036854775808)

def parseTok (s : String) : Tok :=
  let f := (s.splitOn ":").map parseNat
  let g (i : Nat) : Nat := f.getD i 0
  { dl := g 0, dc := g 1, sl := g 2, sc := g 3, src := g 4, name := g 5, rng := g 6 != 0 }

def parseToks (s : String) : List Tok := (splitList s ";").map parseTok

def showTok (t : Tok) : String :=
  s!"{t.dl}:{t.dc}:{t.sl}:{t.sc}:{t.src}:{t.name}:{if t.rng then 1 else 0}"

def showToks (ts : List Tok) : String := showList showTok ts ";"

def tokKey (t : Tok) : List Nat := [t.dl, t.dc, t.sl, t.sc, t.src, t.name, if t.rng then 1 else 0]
def lexLe : List Nat → List Nat → Bool
  | [], _ => true
  | _ :: _, [] => false
  | a :: as, b :: bs => a < b || (a == b && lexLe as bs)
/-- canonical order for comparison: position first (iteration order), ties by the other fields -/
def canonToks (ts : List Tok) : List Tok := ts.mergeSort fun a b => lexLe (tokKey a) (tokKey b)

def parsePos (s : String) : Nat × Nat :=
  let f := (s.splitOn ":").map parseNat
  (f.getD 0 0, f.getD 1 0)

/-- `map.dec`: decode + the sort of `SourceMap::new` -/
def mapDec (nsrc nn : Nat) (m r : List Nat) : Res (List Tok) :=
  match Mappings.decodeMappings m r nsrc nn with
  | .ok ts => .ok (Lookup.sortToks ts)
  | .error e => .error e

/-- `map.enc` on `SourceMap::new(tokens)`: sort, then both serialisers (range mappings first, as
`as_raw_sourcemap` evaluates its fields in that order) -/
def mapEnc (nn : Nat) (ts : List Tok) : Res (List Nat × Option (List Nat)) :=
  let ts := Lookup.sortToks ts
  match Mappings.serializeRangeMappings ts with
  | .error e => .error e
  | .ok r => match Mappings.serializeMappings ts nn with
    | .error e => .error e
    | .ok m => .ok (m, r)

def showEnc (x : List Nat × Option (List Nat)) : String :=
  s!"{toHex x.1} {match x.2 with | some r => toHex r | none => "none"}"

def showLookup : Res (Option (Nat × Tok × Nat)) → String
  | .error _ => "!"
  | .ok none => "-"
  | .ok (some (i, t, c)) => s!"{i}/{showTok t}/{c}"

def handleMap (toks : List String) : String :=
  match toks with
  | ["map.dec", nsrc, nn, m, r] =>
    let rb := if r = "none" then [] else parseHex r
    let mb := parseHex m
    let model := showRes (fun ts => showToks (canonToks ts)) (mapDec (parseNat nsrc) (parseNat nn) mb rb)
    -- independent reading (C02 / C06); an undecodable rangeMappings piece is outside both properties
    let rmiOk := ((Mappings.splitOn Mappings.SEMI mb).zipIdx.all fun (ln, l) =>
      ln = [] || (Mappings.decodeRmi ((Mappings.splitOn Mappings.SEMI rb).getD l [])).isSome)
    let (spec, wf) := if !rmiOk then ("-", "1") else
      match V3.specDecode mb rb (parseNat nsrc) (parseNat nn) with
      | .fault => ("err", "1")
      | .outside => ("-", "1")
      | .toks ts => ("ok " ++ showToks (canonToks ts), "1")
    s!"{model}\t{spec}\t{wf}"
  | ["map.enc", nsrc, nn, ts] =>
    let toks := parseToks ts
    let r := mapEnc (parseNat nn) toks
    let model := showRes showEnc r
    -- C03: the independent reader must read the serialised form back as the map's tokens
    let wf := V3.wfToks (parseNat nsrc) toks
    let spec := match r with
      | .ok (m, rm) =>
        match V3.specDecode m (rm.getD []) (parseNat nsrc) (parseNat nn) with
        | .toks back => if back = V3.roundTripSpec (parseNat nn) toks then model else "unreadable " ++ showToks back
        | .fault => "unreadable fault"
        | .outside => "unreadable outside"
      | .error _ => model
    s!"{model}\t{if wf then spec else "-"}\t1"
  | ["map.rt", nsrc, nn, ts] =>
    let toks := parseToks ts
    let r : Res (List Tok) := match mapEnc (parseNat nn) toks with
      | .error e => .error e
      | .ok (m, r) => mapDec (parseNat nsrc) (parseNat nn) m (r.getD [])
    let wf := V3.wfToks (parseNat nsrc) toks
    let spec := if wf then "ok " ++ showToks (V3.roundTripSpec (parseNat nn) toks) else "-"
    s!"{showRes showToks r}\t{spec}\t1"
  | ["map.lookup", ts, qs] =>
    let ts := Lookup.sortToks (parseToks ts)
    let qs := (splitList qs).map parsePos
    let rs := qs.map fun q => Lookup.lookup ts q
    let out := if rs.any (fun r => match r with | .error _ => true | _ => false) then "err panic"
      else "ok " ++ ",".intercalate (rs.map showLookup)
    -- C04 + C07: closest preceding token, first of equals; column shifted only for a range token on its own line
    let spec := "ok " ++ ",".intercalate (qs.map fun q =>
      match Lookup.lookupSpec ts q with
      | [] => "-"
      | alts => "|".intercalate (alts.map fun (i, t) =>
        let c := if t.rng && t.dl = q.1 then Lookup.satAdd t.sc (q.2 - t.dc) else t.sc
        s!"{i}/{showTok t}/{c}"))
    s!"{out}\t{spec}\t1"
  | _ => "bad-op\t-\t0"

def handleMisc (toks : List String) : String :=
  match toks with
  | ["relpath", b, t] =>
    let base := parseHex b
    let target := parseHex t
    let out := Paths.makeRel base target
    -- C19: the returned path, resolved against the base file's directory, must give the target
    let ordinary := (Paths.comps target).all fun c => c != Paths.DOT && c != Paths.DOTDOT
    let good := Paths.resolve (Paths.comps base).dropLast (Paths.comps out) == Paths.comps target
      && ((out == [46]) == (Paths.comps target == (Paths.comps base).dropLast))
    let spec := if !ordinary then "-" else if good then s!"ok {toHex out}" else "does-not-resolve"
    s!"ok {toHex out}\t{spec}\t1"
  | _ => "bad-op\t-\t0"

def handleVlq (toks : List String) : String :=
  match toks with
  | ["vlq.enc", xs] =>
    let m := showRes toHex (Vlq.encodeSeg (parseInts xs))
    s!"{m}\t=\t1"
  | ["vlq.dec", hx] =>
    let bs := parseHex hx
    let m := showRes showInts (Vlq.parseVlq bs)
    match Vlq.toDigits bs with
    | some ds => if fits63 ds then s!"{m}\t{showRes showInts (Vlq.specVlq ds)}\t1" else s!"{m}\t-\t1"
    | none => s!"{m}\t-\t1"
  | ["vlq.range", lo, hi] => s!"{vlqRange (parseInt lo) (parseInt hi)}\t=\t1"
  | _ => "bad-op\t-\t0"

/-- dispatch on the op family (the prefix before the first dot) -/
def handle (toks : List String) : String :=
  match toks.head? with
  | none => "bad-op\t-\t0"
  | some op =>
    if op.startsWith "vlq." then handleVlq toks
    else if op.startsWith "map." then handleMap toks
    else if op.startsWith "ram." then DrvRam.handleRam toks
    else if op.startsWith "sv." then DrvSv.handleSv toks
    else if op.startsWith "adj." then DrvAdjust.handleAdj toks
    else if op.startsWith "name." then DrvName.handleName toks
    else if op.startsWith "rw." then DrvRewrite.handleRewrite toks
    else if op.startsWith "bld." || op.startsWith "smap." then DrvBld.handleBld toks
    else if op.startsWith "hdr." then DrvHeader.handleHdr toks
    else if op.startsWith "det." then DrvDetect.handleDet toks
    else if op.startsWith "hermes." then DrvHermes.handleHermes toks
    else if op.startsWith "conc." then DrvConc.handleConc toks
    else if op.startsWith "idx." then DrvIndex.handleIdx toks
    else if op.startsWith "doc." then DrvDoc.handleDoc toks
    else if op.startsWith "bytes." then "*\tsafe\t1"
    else handleMisc toks

partial def loop (h : IO.FS.Stream) (out : IO.FS.Stream) : IO Unit := do
  let line ← h.getLine
  if line.isEmpty then return ()
  let l := line.trimAscii.toString
  if l.isEmpty || l.startsWith "#" then
    loop h out
  else
    out.putStrLn (handle (l.splitOn " "))
    loop h out

def main : IO Unit := do
  let out ← IO.getStdout
  loop (← IO.getStdin) out
