import SmVerif.Generated.Consts
import SmVerif.Model.Basic
import SmVerif.Model.Vlq
