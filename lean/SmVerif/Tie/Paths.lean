import SmVerif.Tie.PreludeLemmas5
import SmVerif.Generated.RsUtils
import SmVerif.Model.Paths
import SmVerif.Proofs.Paths
import SmVerif.Props.C19
/-
Tie unit "Paths": `find_common_prefix_of_sorted_vec` and `make_relative_path` of utils.rs as translated
by `tools/rs2lean` (`SmVerif/Generated/RsUtils.lean`) compute what the hand-written model
`SmVerif/Model/Paths.lean` says - the model that `c19_resolves` / `c19_dot_iff` are about.

* `tie_splitAny`, `tie_join`, `tie_comps`, `tie_sort_two` : the prelude operations used by the generated
  code are the model's `splitSep`, `joinSlash`, `comps`, and the stable two-element sort.
* `tie_common_prefix_loop2`, `tie_common_prefix_loop1_two`, `tie_common_prefix_two` : the two `for` loops
  and the function on the sorted pair; it never panics.
* `tie_make_relative_path` : `make_relative_path base target = .ok (Paths.makeRel base target)` for ALL
  byte lists, no hypothesis (not even `c < 256`: bytes are only compared).  In particular the checked
  `base_path.len() - prefix` never underflows and `&target_path[prefix..]` is in bounds.
* `tie_c19_resolves`, `tie_c19_dot_iff` : the C19 property theorems about the generated code.
-/
namespace SmVerif.Tie
open SmVerif SmVerif.Rs

/-! ### 1. split / join / components -/

/-- `&['/', '\\'][..]` as a pattern is the model's `isSep` -/
theorem contains_seps (c : Nat) : [47, 92].contains c = Paths.isSep c := by
  rw [Bool.eq_iff_iff]
  simp only [List.contains_eq_mem, List.mem_cons, List.not_mem_nil, or_false, decide_eq_true_eq, Paths.isSep,
    Bool.or_eq_true, beq_iff_eq]

theorem tie_splitAny (s : List Nat) : Rs.rsSplitAny [47, 92] s = Paths.splitSep s := by
  induction s with
  | nil => rfl
  | cons c cs ih =>
    by_cases h : Paths.isSep c = true
    · simp only [rsSplitAny, Paths.splitSep, contains_seps, ih, h, ↓reduceIte]
    · have h' : Paths.isSep c = false := Bool.eq_false_iff.mpr h
      simp only [rsSplitAny, Paths.splitSep, contains_seps, ih, h', Bool.false_eq_true, ↓reduceIte]
      cases Paths.splitSep cs <;> rfl

theorem tie_join (xs : List (List Nat)) : Rs.rsJoin [47] xs = Paths.joinSlash xs := by
  induction xs with
  | nil => rfl
  | cons p ps ih =>
    cases ps with
    | nil => rfl
    | cons q rest =>
      simp only [rsJoin_cons_cons, Paths.joinSlash, ← ih, List.append_assoc, List.singleton_append]

/-- the closure `|x| !x.is_empty()` is the model's `· ≠ []` -/
theorem not_isEmpty_eq (x : List Nat) : (!x.isEmpty) = decide (x ≠ []) := by
  cases x <;> rfl

theorem tie_comps (s : List Nat) :
    (Rs.rsSplitAny [47, 92] s).filter (fun x => !x.isEmpty) = Paths.comps s := by
  unfold Paths.comps
  rw [tie_splitAny]
  congr 1
  funext x
  exact not_isEmpty_eq x

/-! ### 2. the stable sort of the two component lists -/

theorem tie_sort_two {α} (a b : List α) :
    Rs.rsSortByKey (·.length) [a, b] = if a.length ≤ b.length then [a, b] else [b, a] :=
  rsSortByKey_pair _ a b

/-! ### 3. `find_common_prefix_of_sorted_vec` on the sorted pair -/

/-- `Option<usize>` index of the last match for a count of leading matches: `None` for 0, `Some(k-1)` -/
def lastIdx (k : Nat) : Option Nat := if k = 0 then none else some (k - 1)

@[simp] theorem lastIdx_zero : lastIdx 0 = none := rfl
theorem lastIdx_succ (k : Nat) : lastIdx (k + 1) = some k := rfl
theorem lastIdx_pos {k : Nat} (h : k ≠ 0) : lastIdx k = some (k - 1) := by
  simp only [lastIdx, h, ↓reduceIte]

/-- the inner loop, started anywhere: with `n` components already matched, the rest `sh` of `shortest`
enumerated from `n` against `seq`, whose components from `n` on are `q`.  `acc` is the running
`seq_max_idx`. -/
theorem tie_common_prefix_loop2_from (seq : List (List Nat)) (sh : List (List Nat)) :
    ∀ (n : Nat) (acc : Option Nat),
      Gen.RsUtils.find_common_prefix_of_sorted_vec.loop2 seq (enumFrom n sh) acc
        = .ok (if Paths.leadingMatches sh (seq.drop n) = 0 then acc
               else some (n + Paths.leadingMatches sh (seq.drop n) - 1)) := by
  induction sh with
  | nil =>
    intro n acc
    cases seq.drop n <;>
      simp only [enumFrom_nil, Gen.RsUtils.find_common_prefix_of_sorted_vec.loop2, Paths.leadingMatches,
        ↓reduceIte]
  | cons s ss ih =>
    intro n acc
    simp only [enumFrom_cons, Gen.RsUtils.find_common_prefix_of_sorted_vec.loop2]
    cases hq : seq.drop n with
    | nil =>
      have hn : seq[n]? = none := by
        rw [List.getElem?_eq_none_iff]
        exact List.drop_eq_nil_iff.mp hq
      simp only [hn, ne_eq, reduceCtorEq, not_false_eq_true, ↓reduceIte, Paths.leadingMatches]
    | cons q0 qs =>
      have hn : seq[n]? = some q0 := by
        rw [← List.head?_drop, hq, List.head?_cons]
      have hd : seq.drop (n + 1) = qs := by
        rw [← List.drop_drop, hq, List.drop_one, List.tail_cons]
      simp only [hn, ne_eq, Option.some.injEq, Paths.leadingMatches]
      by_cases h : q0 = s
      · simp only [h, not_true_eq_false, ↓reduceIte, ih (n + 1) (some n), hd]
        congr 1
        split
        · rename_i h0; simp only [h0, Nat.add_zero, Nat.add_one_ne_zero, ↓reduceIte, Nat.add_sub_cancel]
        · have : 1 + Paths.leadingMatches ss qs ≠ 0 := by omega
          simp only [this, ↓reduceIte, Option.some.injEq]
          omega
      · simp only [h, not_false_eq_true, ↓reduceIte]

/-- the inner `for (idx, &comp) in shortest.iter().enumerate()` loop for one `seq`: the index of the last
leading match, as the model counts it (`Paths.leadingMatches`, 0 = `None`) -/
theorem tie_common_prefix_loop2 (shortest seq : List (List Nat)) :
    Gen.RsUtils.find_common_prefix_of_sorted_vec.loop2 seq (rsEnumerate shortest) none
      = .ok (lastIdx (Paths.leadingMatches shortest seq)) := by
  rw [rsEnumerate_eq, tie_common_prefix_loop2_from seq shortest 0 none, List.drop_zero]
  simp only [lastIdx, Nat.zero_add]

/-- `max_idx.is_none() || seq_max_idx < max_idx` on last-match indices is the model's test on counts -/
theorem lastIdx_min (m1 m2 : Nat) :
    (if ((lastIdx m1).isNone = true) ∨ (rsOptLt true (lastIdx m2) (lastIdx m1) = true) then lastIdx m2
      else lastIdx m1)
      = lastIdx (if m1 = 0 then m2 else if m2 < m1 then m2 else m1) := by
  by_cases h1 : m1 = 0
  · subst h1; simp only [lastIdx_zero, Option.isNone_none, true_or, ↓reduceIte]
  · by_cases h2 : m2 = 0
    · subst h2
      have : 0 < m1 := by omega
      simp only [lastIdx_pos h1, lastIdx_zero, rsOptLt_strict_none_some, or_true, ↓reduceIte, h1, this]
    · simp only [lastIdx_pos h1, lastIdx_pos h2, Option.isNone_some, Bool.false_eq_true, false_or,
        rsOptLt_strict_some_some, decide_eq_true_eq, h1, ↓reduceIte]
      by_cases h : m2 < m1
      · have h' : m2 - 1 < m1 - 1 := by omega
        simp only [h, h', ↓reduceIte, lastIdx_pos h2]
      · have h' : ¬ (m2 - 1 < m1 - 1) := by omega
        simp only [h, h', ↓reduceIte, lastIdx_pos h1]

/-- the outer `for seq in items` loop over the two items `[shortest, other]`, started with `None` -/
theorem tie_common_prefix_loop1_two (shortest other : List (List Nat)) :
    Gen.RsUtils.find_common_prefix_of_sorted_vec.loop1 shortest [shortest, other] none
      = .ok (lastIdx
          (if Paths.leadingMatches shortest shortest = 0 then Paths.leadingMatches shortest other
           else if Paths.leadingMatches shortest other < Paths.leadingMatches shortest shortest
             then Paths.leadingMatches shortest other
           else Paths.leadingMatches shortest shortest)) := by
  simp only [Gen.RsUtils.find_common_prefix_of_sorted_vec.loop1, tie_common_prefix_loop2,
    Option.isNone_none, true_or, ↓reduceIte]
  rw [← lastIdx_min]
  split <;> rfl

/-- the common prefix is no longer than either list -/
theorem commonPrefixTwo_le_left (t b : List (List Nat)) : Paths.commonPrefixTwo t b ≤ t.length := by
  rw [Paths.commonPrefixTwo_eq]; exact Paths.leadingMatches_le_left t b

theorem commonPrefixTwo_le_right (t b : List (List Nat)) : Paths.commonPrefixTwo t b ≤ b.length := by
  rw [Paths.commonPrefixTwo_eq]; exact Paths.leadingMatches_le_right t b

/-- what the function returns on the sorted pair: `None` when nothing is shared, otherwise the first
`commonPrefixTwo t b` components (of `t`, equally of `b`) -/
def prefixTwo (t b : List (List Nat)) : Option (List (List Nat)) :=
  if Paths.commonPrefixTwo t b = 0 then none else some (t.take (Paths.commonPrefixTwo t b))

/-- **`find_common_prefix_of_sorted_vec` on the two sorted component lists** never panics (`items[0]`
exists, `&shortest[0..=max_idx]` is inside `shortest`) and returns the shared leading components. -/
theorem tie_common_prefix_two (t b : List (List Nat)) :
    Gen.RsUtils.find_common_prefix_of_sorted_vec (Rs.rsSortByKey (fun x => x.length) [t, b])
      = .ok (prefixTwo t b) := by
  have hk : Paths.commonPrefixTwo t b = Paths.leadingMatches t b := Paths.commonPrefixTwo_eq t b
  have hle_t := Paths.leadingMatches_le_left t b
  have hle_b := Paths.leadingMatches_le_right t b
  -- what the outer loop leaves in `max_idx`, whichever of the two is `shortest`
  have hloop : ∀ (sh other : List (List Nat)),
      (if t.length ≤ b.length then (t, b) else (b, t)) = (sh, other) →
      Gen.RsUtils.find_common_prefix_of_sorted_vec.loop1 sh [sh, other] none
        = .ok (lastIdx (Paths.leadingMatches t b)) := by
    intro sh other hso
    rw [tie_common_prefix_loop1_two, ← hk]
    unfold Paths.commonPrefixTwo
    rw [hso]
  -- `&shortest[0..=max_idx]` is the same whichever list is `shortest`
  have htake : b.take (Paths.leadingMatches t b) = t.take (Paths.leadingMatches t b) :=
    (Paths.take_leadingMatches t b).symm
  unfold Gen.RsUtils.find_common_prefix_of_sorted_vec prefixTwo
  rw [rsSortByKey_pair, hk]
  by_cases hlen : t.length ≤ b.length
  · simp only [hlen, ↓reduceIte, reduceCtorEq, rsIndex_cons_zero,
      hloop t b (by simp only [hlen, ↓reduceIte])]
    by_cases h0 : Paths.leadingMatches t b = 0
    · simp only [h0, lastIdx_zero, ↓reduceIte]
    · have : Paths.leadingMatches t b - 1 + 1 = Paths.leadingMatches t b := by omega
      simp only [lastIdx_pos h0, this, rsSlice_zero t _ hle_t, h0, ↓reduceIte]
  · simp only [hlen, ↓reduceIte, reduceCtorEq, rsIndex_cons_zero,
      hloop b t (by simp only [hlen, ↓reduceIte])]
    by_cases h0 : Paths.leadingMatches t b = 0
    · simp only [h0, lastIdx_zero, ↓reduceIte]
    · have : Paths.leadingMatches t b - 1 + 1 = Paths.leadingMatches t b := by omega
      simp only [lastIdx_pos h0, this, rsSlice_zero b _ hle_b, htake, h0, ↓reduceIte]

/-- the returned prefix is `None` exactly when no leading component is shared -/
theorem prefixTwo_eq_none_iff (t b : List (List Nat)) : prefixTwo t b = none ↔ Paths.commonPrefixTwo t b = 0 := by
  unfold prefixTwo
  split <;> simp_all only [reduceCtorEq]

/-- the returned prefix has `commonPrefixTwo t b` components -/
theorem prefixTwo_length (t b : List (List Nat)) (p : List (List Nat)) (h : prefixTwo t b = some p) :
    p.length = Paths.commonPrefixTwo t b := by
  unfold prefixTwo at h
  split at h
  · exact absurd h (by simp only [reduceCtorEq, not_false_eq_true])
  · have hle := commonPrefixTwo_le_left t b
    simp only [Option.some.injEq] at h
    subst h
    simp only [List.length_take]
    omega

/-- `.map(|x| x.len()).unwrap_or(0)` of the returned prefix is the model's `commonPrefixTwo` -/
theorem prefixTwo_len_getD (t b : List (List Nat)) :
    ((prefixTwo t b).map (fun x => x.length)).getD 0 = Paths.commonPrefixTwo t b := by
  cases h : prefixTwo t b with
  | none => simp only [Option.map_none, Option.getD_none, ((prefixTwo_eq_none_iff t b).mp h)]
  | some p => simp only [Option.map_some, Option.getD_some, prefixTwo_length t b p h]

/-- the function is total on the sorted pair -/
theorem common_prefix_two_total (t b : List (List Nat)) :
    ∃ v, Gen.RsUtils.find_common_prefix_of_sorted_vec (Rs.rsSortByKey (fun x => x.length) [t, b]) = .ok v :=
  ⟨_, tie_common_prefix_two t b⟩

/-! ### 4. `make_relative_path` -/

/-- **`make_relative_path` as translated is the model's `makeRel`, for all byte lists.**  No hypothesis:
the checked subtraction `base_path.len() - prefix` cannot underflow because the common prefix is at most
the length of either list (`commonPrefixTwo_le_right`), and `&target_path[prefix..]` is in bounds for the
same reason (`commonPrefixTwo_le_left`). -/
theorem tie_make_relative_path (base target : List Nat) :
    Gen.RsUtils.make_relative_path base target = .ok (Paths.makeRel base target) := by
  unfold Gen.RsUtils.make_relative_path Paths.makeRel
  simp only [tie_comps, tie_common_prefix_two, prefixTwo_len_getD,
    commonPrefixTwo_le_right (Paths.comps target) (Paths.comps base).dropLast, ↓reduceIte,
    rsSlice_to_end _ _ (commonPrefixTwo_le_left (Paths.comps target) (Paths.comps base).dropLast),
    tie_join]
  split <;> rfl

/-- `make_relative_path` never panics -/
theorem make_relative_path_total (base target : List Nat) :
    ∃ r, Gen.RsUtils.make_relative_path base target = .ok r :=
  ⟨_, tie_make_relative_path base target⟩

-- "/foo/a.js" -> "/foo/bar/baz.map" gives "bar/baz.map"; "/a/b/c.js" -> "/a/x.map" gives "../x.map";
-- "/foo/a.js" -> "/foo" gives "."; back slashes and doubled separators
example : Gen.RsUtils.make_relative_path [47, 102, 111, 111, 47, 97, 46, 106, 115]
    [47, 102, 111, 111, 47, 98, 97, 114, 47, 98, 97, 122, 46, 109, 97, 112]
    = .ok [98, 97, 114, 47, 98, 97, 122, 46, 109, 97, 112] := by
  rw [tie_make_relative_path]; exact congrArg Except.ok (by decide)
example : Gen.RsUtils.make_relative_path [47, 97, 47, 98, 47, 99, 46, 106, 115] [47, 97, 47, 120, 46, 109, 97, 112]
    = .ok [46, 46, 47, 120, 46, 109, 97, 112] := by
  rw [tie_make_relative_path]; exact congrArg Except.ok (by decide)
example : Gen.RsUtils.make_relative_path [47, 102, 111, 111, 47, 97, 46, 106, 115] [47, 102, 111, 111]
    = .ok [46] := by
  rw [tie_make_relative_path]; exact congrArg Except.ok (by decide)
example : Gen.RsUtils.make_relative_path [97, 92, 92, 98, 47, 99] [97, 47, 100]
    = .ok [46, 46, 47, 100] := by
  rw [tie_make_relative_path]; exact congrArg Except.ok (by decide)

/-! ### 5. the C19 property theorems, about the generated code -/

/-- `c19_resolves` for the code as translated: the call succeeds and resolving what it returns against the
directory that contains the base file gives the target. -/
theorem tie_c19_resolves (base target : List Nat) (ht : Paths.ordinary target) :
    ∃ r, Gen.RsUtils.make_relative_path base target = .ok r ∧
      Paths.resolve (Paths.comps base).dropLast (Paths.comps r) = Paths.comps target :=
  ⟨_, tie_make_relative_path base target, C19.c19_resolves base target ht⟩

/-- `c19_dot_iff` for the code as translated: the call succeeds and returns `.` only when the target is
the base file's directory itself. -/
theorem tie_c19_dot_iff (base target : List Nat) (ht : Paths.ordinary target) :
    ∃ r, Gen.RsUtils.make_relative_path base target = .ok r ∧
      (r = [46] ↔ Paths.comps target = (Paths.comps base).dropLast) :=
  ⟨_, tie_make_relative_path base target, C19.c19_dot_iff base target ht⟩

/-- `c19_shape` for the code as translated: the returned path is one `..` per base-directory component
below the longest common prefix followed by exactly the target's components below it. -/
theorem tie_c19_shape (base target : List Nat)
    (hne : Paths.comps target ≠ (Paths.comps base).dropLast) :
    ∃ r, Gen.RsUtils.make_relative_path base target = .ok r ∧
      Paths.comps r =
        List.replicate ((Paths.comps base).dropLast.length
            - C19.lcp (Paths.comps target) (Paths.comps base).dropLast) Paths.DOTDOT
          ++ (Paths.comps target).drop (C19.lcp (Paths.comps target) (Paths.comps base).dropLast) :=
  ⟨_, tie_make_relative_path base target, C19.c19_shape base target hne⟩

/-- `c19_nonempty` for the code as translated -/
theorem tie_c19_nonempty (base target : List Nat) :
    ∃ r, Gen.RsUtils.make_relative_path base target = .ok r ∧ r ≠ [] :=
  ⟨_, tie_make_relative_path base target, C19.c19_nonempty base target⟩

/-- `c19_descend` for the code as translated -/
theorem tie_c19_descend (base target : List Nat) (rest : List (List Nat)) (hr : rest ≠ [])
    (h : Paths.comps target = (Paths.comps base).dropLast ++ rest) :
    ∃ r, Gen.RsUtils.make_relative_path base target = .ok r ∧ Paths.comps r = rest :=
  ⟨_, tie_make_relative_path base target, C19.c19_descend base target rest hr h⟩

-- non-vacuity of the hypothesis: "/foo/bar/baz.map" has ordinary components
example : Paths.ordinary [47, 102, 111, 111, 47, 98, 97, 114, 47, 98, 97, 122, 46, 109, 97, 112] := by
  simp [Paths.ordinary, Paths.comps, Paths.splitSep, Paths.isSep, Paths.DOT, Paths.DOTDOT]

end SmVerif.Tie


open SmVerif.Tie in
#print axioms tie_splitAny
open SmVerif.Tie in
#print axioms tie_join
open SmVerif.Tie in
#print axioms tie_comps
open SmVerif.Tie in
#print axioms tie_sort_two
open SmVerif.Tie in
#print axioms tie_common_prefix_two
open SmVerif.Tie in
#print axioms tie_make_relative_path
open SmVerif.Tie in
#print axioms tie_c19_resolves
open SmVerif.Tie in
#print axioms tie_c19_dot_iff
#print axioms SmVerif.Tie.tie_c19_shape
#print axioms SmVerif.Tie.tie_c19_nonempty
#print axioms SmVerif.Tie.tie_c19_descend
