import SmVerif.Rs.Prelude
/-
General lemmas about the prelude's text vocabulary (`rsUtf8Valid`, `rsFromUtf8`, `rsLines`, `rsSlice` to the
end of a list), used by `Tie/Detect.lean`.  Stand-alone (imports only the prelude); names carry the suffix `11`
where another `PreludeLemmas*` file has a lemma of the same content, so that the files can be imported together.
-/
namespace SmVerif.Tie
open SmVerif SmVerif.Rs

/-! ### `rsSlice` -/

/-- `&xs[i..]` written as `&xs[i..xs.len()]` -/
theorem rsSlice_to_end11 {α} (xs : List α) (i : Nat) (h : i ≤ xs.length) :
    rsSlice xs i xs.length = .ok (xs.drop i) := by
  have h2 : (i ≤ xs.length ∧ xs.length ≤ xs.length) := ⟨h, Nat.le_refl _⟩
  simp only [rsSlice, h2, and_self, ↓reduceIte]
  congr 1
  apply List.take_of_length_le
  simp only [List.length_drop, Nat.le_refl]

/-- `&xs[i..]` panics when `i` is beyond the end -/
theorem rsSlice_to_end_panic11 {α} (xs : List α) (i : Nat) (h : xs.length < i) :
    rsSlice xs i xs.length = .error .panic := by
  have h2 : ¬ (i ≤ xs.length ∧ xs.length ≤ xs.length) := by omega
  simp only [rsSlice, h2, ↓reduceIte]

/-! ### prefixes -/

theorem isPrefixOf_split11 {p l : List Nat} (h : p.isPrefixOf l = true) : l = p ++ l.drop p.length := by
  obtain ⟨t, ht⟩ := List.isPrefixOf_iff_prefix.mp h
  subst ht
  simp only [List.drop_left]

theorem isPrefixOf_length_le11 {p l : List Nat} (h : p.isPrefixOf l = true) : p.length ≤ l.length :=
  (List.isPrefixOf_iff_prefix.mp h).length_le

/-! ### `rsUtf8Valid` / `rsFromUtf8` -/

/-- an ASCII byte is a character on its own -/
theorem rsUtf8Valid_cons_ascii (a : Nat) (r : List Nat) (h : a < 128) :
    rsUtf8Valid (a :: r) = rsUtf8Valid r := by
  rw [rsUtf8Valid.eq_def]
  simp only [h, ↓reduceIte]

/-- **valid (p ++ s) with p ASCII ↔ valid s**: an ASCII prefix can be cut off a UTF-8 string (and put before
one) - the boundary after an ASCII byte is a character boundary. -/
theorem rsUtf8Valid_append_ascii (p s : List Nat) (hp : ∀ c ∈ p, c < 128) :
    rsUtf8Valid (p ++ s) = rsUtf8Valid s := by
  induction p with
  | nil => rfl
  | cons a p ih =>
    rw [List.cons_append, rsUtf8Valid_cons_ascii a (p ++ s) (hp a List.mem_cons_self)]
    exact ih (fun c hc => hp c (List.mem_cons_of_mem a hc))

/-- a string of ASCII bytes is valid UTF-8 -/
theorem rsUtf8Valid_ascii (p : List Nat) (hp : ∀ c ∈ p, c < 128) : rsUtf8Valid p = true := by
  have := rsUtf8Valid_append_ascii p [] hp
  rw [List.append_nil] at this
  rw [this]; rfl

/-- cutting an ASCII prefix `p` (found by `starts_with`) off a valid line leaves a valid string -/
theorem rsUtf8Valid_drop_of_prefix (p l : List Nat) (hp : ∀ c ∈ p, c < 128)
    (hpre : p.isPrefixOf l = true) (hv : rsUtf8Valid l = true) : rsUtf8Valid (l.drop p.length) = true := by
  rw [isPrefixOf_split11 hpre, rsUtf8Valid_append_ascii p _ hp] at hv
  exact hv

theorem rsFromUtf8_of_valid (s : List Nat) (h : rsUtf8Valid s = true) : rsFromUtf8 s = .ok s := by
  simp only [rsFromUtf8, h, ↓reduceIte]

theorem rsFromUtf8_of_invalid (s : List Nat) (h : rsUtf8Valid s = false) : rsFromUtf8 s = .error .io := by
  simp only [rsFromUtf8, h, Bool.false_eq_true, ↓reduceIte]

/-! ### `rsLines` -/

/-- one element of `rsLines`: the line, or the `io` error of `Lines::next` -/
def lineRes (l : List Nat) : Res (List Nat) := if rsUtf8Valid l then .ok l else .error .io

theorem rsLines_eq_map (text : List Nat) : rsLines text = (rsLinesAux [] text).map lineRes := rfl

theorem lineRes_of_valid (l : List Nat) (h : rsUtf8Valid l = true) : lineRes l = .ok l := by
  simp only [lineRes, h, ↓reduceIte]

theorem lineRes_of_invalid (l : List Nat) (h : rsUtf8Valid l = false) : lineRes l = .error .io := by
  simp only [lineRes, h, Bool.false_eq_true, ↓reduceIte]

/-- when every line is valid UTF-8, `lines()` yields no error -/
theorem map_lineRes_of_valid (ls : List (List Nat)) (hv : ∀ l ∈ ls, rsUtf8Valid l = true) :
    ls.map lineRes = ls.map .ok := by
  apply List.map_congr_left
  intro l hl
  exact lineRes_of_valid l (hv l hl)

end SmVerif.Tie
