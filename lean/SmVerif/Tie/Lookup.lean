import SmVerif.Tie.PreludeLemmas3
import SmVerif.Generated.RsUtils
import SmVerif.Generated.RsTypes
import SmVerif.Model.Lookup
import SmVerif.Proofs.IndexGlb
/-
Tie unit "Lookup": `greatest_lower_bound` (utils.rs), `SourceMap::lookup_token` and the `Token` getters
(types.rs) as translated by `tools/rs2lean` compute what the hand-written model `SmVerif/Model/Lookup.lean`
says.

* `tie_bsearch`       : the prelude's mirror of std's `binary_search_by`, at the lexicographic order of
                        `(u32, u32)`, is the model's `bsearch` - for every list (sorted or not);
* `tie_glb`           : `greatest_lower_bound ltPair ts q key` = the model's `glb` on the keys, with the element
                        attached - for every list and every key function; in particular the `slice[i]` of the
                        walk-back loop never panics;
* `tie_lookup_token`  : `lookup_token` mapped through `tokView` = the model's `lookup` (one equation: same
                        panic, same `none`, same index / token / source column), for `src_col` in the `u32`
                        range;
* `tie_lookup_token_some/_none/_error` : the same, read off case by case, with `get_src_col`;
* `tie_token_getters` : every getter returns `.ok` of the field / expression;
* `lookup_token_total`: `lookup_token` never fails, on any source map (unsorted included): the panic arm
                        (`col - dst_col` underflow) is dead, because `greatest_lower_bound` returns an element
                        at or before the query on every list (`IndexP.glb_le_any`).

`binarySearchBy` / `bsearch` carry their own fuel (`keys.length`), the same on both sides, so there is no fuel
parameter in the statements; `Rs.bsLoop_fuel` (PreludeLemmas3) shows that this fuel is enough (more fuel does
not change the result).
-/
namespace SmVerif.Tie
open SmVerif SmVerif.Rs

/-! ### `binary_search_by` -/

/-- the `Ord` of `(u32, u32)` of the prelude is the model's `posLt` -/
theorem ltPair_eq_posLt (a b : Nat × Nat) : ltPair a b = Lookup.posLt a b := by
  rw [Bool.eq_iff_iff]
  simp only [ltPair, Lookup.posLt, decide_eq_true_eq, Bool.or_eq_true, Bool.and_eq_true]

/-- Inside the slice the two loops do the same thing.  (Outside they would not: the prelude keeps `base` when the
probe is out of bounds, the model's `getD` default makes it move; the window invariant `base + size ≤ len`
excludes that.) -/
theorem bsLoop_eq_bsearchLoop (keys : List (Nat × Nat)) (q : Nat × Nat) :
    ∀ fuel size base, base + size ≤ keys.length →
      bsLoop ltPair keys q fuel size base = Lookup.bsearchLoop keys q fuel size base := by
  intro fuel
  induction fuel with
  | zero => intro size base _; rfl
  | succ fuel ih =>
    intro size base h
    rw [bsLoop_succ]
    simp only [Lookup.bsearchLoop]
    by_cases hs : size ≤ 1
    · simp only [hs, ↓reduceIte]
    · simp only [hs, ↓reduceIte]
      have hd : size / 2 < size := Nat.div_lt_self (by omega) (by omega)
      have hm : base + size / 2 < keys.length := by omega
      have h1 : keys[base + size / 2]? = some keys[base + size / 2] := List.getElem?_eq_getElem hm
      have h2 : keys.getD (base + size / 2) (0, 0) = keys[base + size / 2] := by
        simp only [List.getD_eq_getElem?_getD, h1, Option.getD_some]
      rw [h1, h2]
      simp only [ltPair_eq_posLt]
      by_cases hc : Lookup.posLt q keys[base + size / 2] = true
      · simp only [hc, ↓reduceIte]
        exact ih _ _ (by omega)
      · simp only [hc, Bool.false_eq_true, ↓reduceIte]
        exact ih _ _ (by omega)

/-- the model's loop stays inside the window (transported from the prelude's) -/
theorem bsearchLoop_lt (keys : List (Nat × Nat)) (q : Nat × Nat) (h : keys.length ≠ 0) :
    Lookup.bsearchLoop keys q keys.length keys.length 0 < keys.length := by
  rw [← bsLoop_eq_bsearchLoop keys q _ _ _ (by omega)]
  have := (bsLoop_bounds ltPair keys q keys.length keys.length 0 (by omega)).2
  omega

/-- **binary search.**  The prelude's generic mirror of std's `binary_search_by`, instantiated at the
lexicographic order of `(u32, u32)`, is the model's `bsearch`: `Ok(i)` ↔ `(true, i)`, `Err(i)` ↔ `(false, i)`.
For every list, sorted or not. -/
theorem tie_bsearch (keys : List (Nat × Nat)) (q : Nat × Nat) :
    binarySearchBy ltPair keys q =
      (match Lookup.bsearch keys q with
        | (true, i) => .ok i
        | (false, i) => .error i) := by
  unfold binarySearchBy Lookup.bsearch
  by_cases h0 : keys.length = 0
  · simp only [h0, ↓reduceIte]
  · simp only [h0, ↓reduceIte]
    rw [bsLoop_eq_bsearchLoop keys q _ _ _ (by omega)]
    have hlt := bsearchLoop_lt keys q h0
    generalize Lookup.bsearchLoop keys q keys.length keys.length 0 = b at hlt
    have h1 : keys[b]? = some keys[b] := List.getElem?_eq_getElem hlt
    have h2 : keys.getD b (0, 0) = keys[b] := by
      simp only [List.getD_eq_getElem?_getD, h1, Option.getD_some]
    rw [h1, h2]
    generalize keys[b] = k
    by_cases hk : k = q
    · subst hk
      simp only [ltPair_irrefl, Bool.not_false, Bool.and_self, ↓reduceIte]
    · have hne : ¬ ((!ltPair k q && !ltPair q k) = true) := fun h => hk ((ltPair_equal_iff k q).mp h)
      simp only [hne, hk, ↓reduceIte, ← ltPair_eq_posLt]
      by_cases hl : ltPair k q = true
      · simp only [hl, Bool.false_eq_true, ↓reduceIte]
      · simp only [hl, Bool.false_eq_true, ↓reduceIte, Nat.add_zero]

/-- a hit of the model's `bsearch` is an index of the list -/
theorem bsearch_true_lt (keys : List (Nat × Nat)) (q : Nat × Nat) (i : Nat)
    (h : Lookup.bsearch keys q = (true, i)) : i < keys.length := by
  apply binarySearchBy_ok_lt ltPair keys q i
  rw [tie_bsearch, h]

example : binarySearchBy ltPair [(0, 0), (0, 5), (0, 5), (2, 1)] (0, 5) = .ok 2 := by
  rw [tie_bsearch]; rfl
-- unsorted input: both sides still agree
example : binarySearchBy ltPair [(3, 0), (0, 5), (1, 5), (0, 1)] (1, 0) = .error 2 := by
  rw [tie_bsearch]; rfl

/-! ### `greatest_lower_bound` -/

/-- The walk-back loop `for i in (0..idx).rev() { if map(&slice[i]) == key { idx = i } else { break } }`
started with `idx = n`, inside the slice: `slice[i]` never panics and the result is the model's `walkBack`. -/
theorem glb_loop1_eq_walkBack {T : Type} [DecidableEq T] (lt : Nat × Nat → Nat × Nat → Bool)
    (ts : List T) (key : T → Nat × Nat) (q : Nat × Nat) :
    ∀ n, n ≤ ts.length →
      Gen.RsUtils.greatest_lower_bound.loop1 lt key ts q (rsRange 0 n).reverse n =
        .ok (Lookup.walkBack (ts.map key) q n) := by
  intro n
  induction n with
  | zero => intro _; rfl
  | succ n ih =>
    intro h
    have hn : n < ts.length := by omega
    have h1 : ts[n]? = some ts[n] := List.getElem?_eq_getElem hn
    have h2 : (ts.map key).getD n (0, 0) = key ts[n] := by
      simp only [List.getD_eq_getElem?_getD, List.getElem?_map, h1, Option.map_some, Option.getD_some]
    rw [rsRange_zero_succ_reverse]
    simp only [Gen.RsUtils.greatest_lower_bound.loop1, Lookup.walkBack, rsIndex, h1, h2]
    by_cases hk : key ts[n] = q
    · simp only [hk, ↓reduceIte]
      exact ih (by omega)
    · simp only [hk, ↓reduceIte]

/-- **greatest lower bound.**  For every list (sorted or not), every key function into `(u32, u32)` and every
query: the translated `greatest_lower_bound` returns the model's index together with the element there.  In
particular it never fails: `slice[i]` in the walk-back loop is always inside the slice. -/
theorem tie_glb {T : Type} [DecidableEq T] (ts : List T) (key : T → Nat × Nat) (q : Nat × Nat) :
    Gen.RsUtils.greatest_lower_bound ltPair ts q key =
      .ok ((Lookup.glb (ts.map key) q).bind (fun i => ts[i]?.map (fun t => (i, t)))) := by
  unfold Gen.RsUtils.greatest_lower_bound Lookup.glb
  rw [tie_bsearch]
  rcases hb : Lookup.bsearch (ts.map key) q with ⟨found, idx⟩
  cases found with
  | true =>
    have hlt := bsearch_true_lt _ _ _ hb
    rw [List.length_map] at hlt
    simp only [glb_loop1_eq_walkBack ltPair ts key q idx (by omega), Option.bind_some]
  | false =>
    by_cases h0 : idx = 0
    · subst h0
      have : ¬ (1 ≤ 0) := by omega
      simp only [this, ↓reduceIte, Option.bind_none]
    · have : 1 ≤ idx := by omega
      simp only [this, h0, ↓reduceIte, Option.bind_some]

/-- `greatest_lower_bound` is total -/
theorem glb_total {T : Type} [DecidableEq T] (ts : List T) (key : T → Nat × Nat) (q : Nat × Nat) :
    ∃ v, Gen.RsUtils.greatest_lower_bound ltPair ts q key = .ok v := ⟨_, tie_glb ts key q⟩

/-- the index the model's `glb` returns is inside the list (any list), so the element is there: the
`slice.get(idx)` at the end of `greatest_lower_bound` never gives `None` after a `Some` index -/
theorem glb_lt (keys : List (Nat × Nat)) (q : Nat × Nat) (i : Nat) (h : Lookup.glb keys q = some i) :
    i < keys.length := (IndexP.glb_le_any keys q i h).1

/-- so `greatest_lower_bound` is `None` exactly when the model's `glb` is -/
theorem tie_glb_none_iff {T : Type} [DecidableEq T] (ts : List T) (key : T → Nat × Nat) (q : Nat × Nat) :
    Gen.RsUtils.greatest_lower_bound ltPair ts q key = .ok none ↔ Lookup.glb (ts.map key) q = none := by
  rw [tie_glb]
  cases hg : Lookup.glb (ts.map key) q with
  | none => simp only [Option.bind_none]
  | some i =>
    have hi := glb_lt _ _ _ hg
    rw [List.length_map] at hi
    simp only [Option.bind_some, List.getElem?_eq_getElem hi, Option.map_some, Except.ok.injEq, reduceCtorEq]

example : Gen.RsUtils.greatest_lower_bound ltPair [(0, 0, 'a'), (0, 5, 'b'), (0, 5, 'c'), (2, 1, 'd')] (0, 5)
    (fun t => (t.1, t.2.1)) = .ok (some (1, (0, 5, 'b'))) := by
  rw [tie_glb]; rfl

/-! ### `Token` getters -/

open Gen.RsTypes in
/-- `RawToken` field by field -/
def toTok (r : Gen.RsTypes.RawToken) : Tok :=
  { dl := r.dst_line, dc := r.dst_col, sl := r.src_line, sc := r.src_col, src := r.src_id,
    name := r.name_id, rng := r.is_range }

/-- `saturating_add` of the model is the `min` the translator emits -/
theorem satAdd_eq_min (a b : Nat) : Lookup.satAdd a b = min (a + b) 4294967295 := by
  unfold Lookup.satAdd
  have : NONE = 4294967295 := rfl
  split <;> omega

theorem satAdd_zero (a : Nat) (h : a < 4294967296) : Lookup.satAdd a 0 = a := by
  rw [satAdd_eq_min]; omega

/-- **getters.**  Every translated getter of `Token` returns `.ok` of the field (of the expression, for
`get_src_col` = `src_col.saturating_add(offset)` and `has_source` = `src_id != !0`). -/
theorem tie_token_getters (tok : Gen.RsTypes.Token) :
    Gen.RsTypes.Token.get_dst_line tok = .ok (toTok tok.raw).dl ∧
    Gen.RsTypes.Token.get_dst_col tok = .ok (toTok tok.raw).dc ∧
    Gen.RsTypes.Token.get_src_line tok = .ok (toTok tok.raw).sl ∧
    Gen.RsTypes.Token.get_src_col tok = .ok (Lookup.satAdd (toTok tok.raw).sc tok.offset) ∧
    Gen.RsTypes.Token.get_src_id tok = .ok (toTok tok.raw).src ∧
    Gen.RsTypes.Token.get_name_id tok = .ok (toTok tok.raw).name ∧
    Gen.RsTypes.Token.is_range tok = .ok (toTok tok.raw).rng ∧
    Gen.RsTypes.Token.has_source tok = .ok (Mappings.hasSource (toTok tok.raw)) ∧
    Gen.RsTypes.Token.get_dst tok = .ok ((toTok tok.raw).dl, (toTok tok.raw).dc) ∧
    Gen.RsTypes.Token.get_src tok =
      .ok ((toTok tok.raw).sl, Lookup.satAdd (toTok tok.raw).sc tok.offset) := by
  have hsat : ∀ a b : Nat, min (a + b) 4294967295 = Lookup.satAdd a b := fun a b => (satAdd_eq_min a b).symm
  have hsrc : Gen.RsTypes.Token.get_src_col tok = .ok (Lookup.satAdd (toTok tok.raw).sc tok.offset) := by
    simp only [Gen.RsTypes.Token.get_src_col, toTok, hsat]
  refine ⟨rfl, rfl, rfl, hsrc, rfl, rfl, rfl, ?_, rfl, ?_⟩
  · rfl
  · simp only [Gen.RsTypes.Token.get_src, hsrc]
    rfl

/-- `get_src_col` of a token without offset whose `src_col` is a `u32` is `src_col` -/
theorem get_src_col_offset_zero (tok : Gen.RsTypes.Token) (h0 : tok.offset = 0)
    (h : tok.raw.src_col < 4294967296) : Gen.RsTypes.Token.get_src_col tok = .ok tok.raw.src_col := by
  rw [(tie_token_getters tok).2.2.2.1, h0]
  simp only [toTok, satAdd_zero _ h]

/-! ### `lookup_token` -/

/-- what the model reports of a `Token`: its index, its raw token, and the source column `get_src_col` gives -/
def tokView (tok : Gen.RsTypes.Token) : Nat × Tok × Nat :=
  (tok.idx, toTok tok.raw, Lookup.satAdd tok.raw.src_col tok.offset)

/-- the third component of the view is what the translated `get_src_col` returns -/
theorem tokView_src_col (tok : Gen.RsTypes.Token) :
    Gen.RsTypes.Token.get_src_col tok = .ok (tokView tok).2.2 :=
  (tie_token_getters tok).2.2.2.1

theorem tokView_idx (tok : Gen.RsTypes.Token) : (tokView tok).1 = tok.idx := rfl
theorem tokView_raw (tok : Gen.RsTypes.Token) : (tokView tok).2.1 = toTok tok.raw := rfl

/-- the key closure of `lookup_token` is the model's `Tok.pos` after the conversion -/
theorem map_pos_toTok (ts : List Gen.RsTypes.RawToken) :
    (ts.map toTok).map Lookup.Tok.pos = ts.map (fun t => (t.dst_line, t.dst_col)) := by
  rw [List.map_map]
  rfl

/-- **lookup_token**, as one equation.  For tokens whose `src_col` is a `u32` (the Rust type), for every
`line`, `col`: the translated `lookup_token`, with the returned `Token` read through `tokView`, is the model's
`lookup` on the converted tokens - the same panic (`col - dst_col` underflows on a range token of the same
line), `None` in the same cases, the same index, token and source column.  No hypothesis on `line`, `col`, or
the order of the tokens. -/
theorem tie_lookup_token (sm : Gen.RsTypes.SourceMap) (line col : Nat)
    (hsc : ∀ t ∈ sm.tokens, t.src_col < 4294967296) :
    (Gen.RsTypes.SourceMap.lookup_token sm line col).map (Option.map tokView) =
      Lookup.lookup (sm.tokens.map toTok) (line, col) := by
  unfold Gen.RsTypes.SourceMap.lookup_token Lookup.lookup
  simp only [tie_glb, map_pos_toTok]
  cases Lookup.glb (sm.tokens.map fun t => (t.dst_line, t.dst_col)) (line, col) with
  | none => rfl
  | some i =>
    simp only [Option.bind_some, List.getElem?_map]
    cases hi : sm.tokens[i]? with
    | none => rfl
    | some r =>
      have hr : r.src_col < 4294967296 := hsc r (List.mem_of_getElem? hi)
      have hsat0 : Lookup.satAdd r.src_col 0 = r.src_col := satAdd_zero _ hr
      simp only [Option.map_some, Gen.RsTypes.Token.is_range, Gen.RsTypes.Token.get_dst_line,
        Gen.RsTypes.Token.get_dst_col]
      cases hrng : r.is_range with
      | false =>
        simp only [Bool.false_eq_true, ↓reduceIte, toTok, hrng, Bool.false_and]
        simp only [Except.map, Option.map_some, tokView, toTok, hsat0, hrng]
      | true =>
        by_cases hl : r.dst_line = line
        · by_cases hc : r.dst_col ≤ col
          · have hc' : ¬ (col < r.dst_col) := by omega
            simp only [↓reduceIte, toTok, hrng, hl, hc, hc', Bool.true_and, decide_true]
            simp only [Except.map, Option.map_some, tokView, toTok, hrng, hl]
          · have hc' : col < r.dst_col := by omega
            simp only [↓reduceIte, toTok, hrng, hl, hc, hc', Bool.true_and, decide_true]
            rfl
        · simp only [↓reduceIte, toTok, hrng, hl, Bool.true_and, decide_false, Bool.false_eq_true]
          simp only [Except.map, Option.map_some, tokView, toTok, hsat0, hrng]

/-! examples: three tokens, two of them range tokens -/
def exTokA : Gen.RsTypes.RawToken :=
  { dst_line := 0, dst_col := 0, src_line := 0, src_col := 0, src_id := 0, name_id := 4294967295,
    is_range := false }
def exTokB : Gen.RsTypes.RawToken :=
  { dst_line := 0, dst_col := 4, src_line := 1, src_col := 7, src_id := 0, name_id := 4294967295,
    is_range := true }
def exTokC : Gen.RsTypes.RawToken :=
  { dst_line := 2, dst_col := 1, src_line := 3, src_col := 4294967290, src_id := 0, name_id := 0,
    is_range := true }
def exampleMap : Gen.RsTypes.SourceMap := { (default : SmVerif.Gen.RsTypes.SourceMap) with tokens := [exTokA, exTokB, exTokC], names := [] }

/-- the hypothesis of `tie_lookup_token` on a concrete map -/
example : ∀ t ∈ exampleMap.tokens, t.src_col < 4294967296 := by decide
-- a range token of the same line: the offset is added
example : (Gen.RsTypes.SourceMap.lookup_token exampleMap 0 9).map (Option.map tokView) =
    .ok (some (1, toTok exTokB, 12)) := by
  rw [tie_lookup_token exampleMap 0 9 (by decide)]; rfl
-- saturation
example : (Gen.RsTypes.SourceMap.lookup_token exampleMap 2 100).map (Option.map tokView) =
    .ok (some (2, toTok exTokC, 4294967295)) := by
  rw [tie_lookup_token exampleMap 2 100 (by decide)]; rfl
-- before the first token
example : (Gen.RsTypes.SourceMap.lookup_token { (default : SmVerif.Gen.RsTypes.SourceMap) with tokens := [exTokB, exTokC], names := [] } 0 2).map (Option.map tokView) =
    .ok none := by
  rw [tie_lookup_token _ 0 2 (by decide)]; rfl

/-! #### the same, case by case -/

/-- `Res.map` reflects the three outcomes -/
theorem map_eq_ok_some {α β} (f : α → β) (r : Res (Option α)) (b : β)
    (h : r.map (Option.map f) = .ok (some b)) : ∃ a, r = .ok (some a) ∧ f a = b := by
  match r, h with
  | .ok (some a), h =>
    simp only [Except.map, Option.map_some, Except.ok.injEq, Option.some.injEq] at h
    exact ⟨a, rfl, h⟩

theorem map_eq_ok_none {α β} (f : α → β) (r : Res (Option α))
    (h : r.map (Option.map f) = .ok none) : r = .ok none := by
  match r, h with
  | .ok none, _ => rfl

theorem map_eq_error {α β} (f : α → β) (r : Res (Option α)) (e : Err)
    (h : r.map (Option.map f) = .error e) : r = .error e := by
  match r, h with
  | .error e', h =>
    simp only [Except.map, Except.error.injEq] at h
    rw [h]

/-- when the model finds `(i, t, srcCol)`, the code returns a `Token` with that index, that raw token, and
`get_src_col` gives `srcCol` -/
theorem tie_lookup_token_some (sm : Gen.RsTypes.SourceMap) (line col : Nat)
    (hsc : ∀ t ∈ sm.tokens, t.src_col < 4294967296) (i : Nat) (t : Tok) (srcCol : Nat)
    (h : Lookup.lookup (sm.tokens.map toTok) (line, col) = .ok (some (i, t, srcCol))) :
    ∃ tok, Gen.RsTypes.SourceMap.lookup_token sm line col = .ok (some tok) ∧
      tok.idx = i ∧ toTok tok.raw = t ∧ sm.tokens[i]? = some tok.raw ∧
      Gen.RsTypes.Token.get_src_col tok = .ok srcCol := by
  rw [← tie_lookup_token sm line col hsc] at h
  obtain ⟨tok, h1, h2⟩ := map_eq_ok_some _ _ _ h
  simp only [tokView, Prod.mk.injEq] at h2
  refine ⟨tok, h1, h2.1, h2.2.1, ?_, ?_⟩
  · -- the raw token is the one at that index: read it off the generated code
    have hg := h1
    unfold Gen.RsTypes.SourceMap.lookup_token at hg
    simp only [tie_glb] at hg
    cases hglb : Lookup.glb (sm.tokens.map fun t => (t.dst_line, t.dst_col)) (line, col) with
    | none => simp only [hglb, Option.bind_none, Except.ok.injEq, reduceCtorEq] at hg
    | some j =>
      simp only [hglb, Option.bind_some] at hg
      cases hj : sm.tokens[j]? with
      | none => simp only [hj, Option.map_none, Except.ok.injEq, reduceCtorEq] at hg
      | some r =>
        simp only [hj, Option.map_some, Gen.RsTypes.Token.is_range, Gen.RsTypes.Token.get_dst_line,
          Gen.RsTypes.Token.get_dst_col] at hg
        have : tok.idx = j ∧ tok.raw = r := by
          repeat' split at hg
          all_goals first
            | (simp only [reduceCtorEq] at hg; done)
            | (simp only [Except.ok.injEq, Option.some.injEq] at hg; subst hg; exact ⟨rfl, rfl⟩)
        rw [← h2.1, this.1, hj, this.2]
  · rw [tokView_src_col, tokView]
    simp only [h2.2.2]

/-- `None` in the same cases -/
theorem tie_lookup_token_none (sm : Gen.RsTypes.SourceMap) (line col : Nat)
    (hsc : ∀ t ∈ sm.tokens, t.src_col < 4294967296) :
    Gen.RsTypes.SourceMap.lookup_token sm line col = .ok none ↔
      Lookup.lookup (sm.tokens.map toTok) (line, col) = .ok none := by
  rw [← tie_lookup_token sm line col hsc]
  constructor
  · intro h; rw [h]; rfl
  · exact map_eq_ok_none _ _

/-- the same failures (the only candidate is the panic of `col - dst_col`; by `lookup_token_total` below there is
none on either side) -/
theorem tie_lookup_token_error (sm : Gen.RsTypes.SourceMap) (line col : Nat)
    (hsc : ∀ t ∈ sm.tokens, t.src_col < 4294967296) (e : Err) :
    Gen.RsTypes.SourceMap.lookup_token sm line col = .error e ↔
      Lookup.lookup (sm.tokens.map toTok) (line, col) = .error e := by
  rw [← tie_lookup_token sm line col hsc]
  constructor
  · intro h; rw [h]; rfl
  · exact map_eq_error _ _ _

/-- **`lookup_token` never fails**, for every source map (tokens in any order, any values), every `line`,
`col`: the token `greatest_lower_bound` returns is at or before the query even on an unsorted list, so the checked
`col - dst_col` cannot underflow; the `.error .panic` arm of the model (and of the generated code) is dead. -/
theorem lookup_token_total (sm : Gen.RsTypes.SourceMap) (line col : Nat) :
    ∃ r, Gen.RsTypes.SourceMap.lookup_token sm line col = .ok r := by
  unfold Gen.RsTypes.SourceMap.lookup_token
  simp only [tie_glb]
  cases hg : Lookup.glb (sm.tokens.map fun t => (t.dst_line, t.dst_col)) (line, col) with
  | none => exact ⟨_, rfl⟩
  | some i =>
    obtain ⟨hi, hle⟩ := IndexP.glb_le_any _ _ _ hg
    rw [List.length_map] at hi
    have h1 : sm.tokens[i]? = some sm.tokens[i] := List.getElem?_eq_getElem hi
    have h2 : (sm.tokens.map fun t => (t.dst_line, t.dst_col)).getD i (0, 0) =
        (sm.tokens[i].dst_line, sm.tokens[i].dst_col) := by
      simp only [List.getD_eq_getElem?_getD, List.getElem?_map, h1, Option.map_some, Option.getD_some]
    rw [h2, Lookup.posLe_iff] at hle
    simp only [Option.bind_some, h1, Option.map_some, Gen.RsTypes.Token.is_range,
      Gen.RsTypes.Token.get_dst_line, Gen.RsTypes.Token.get_dst_col]
    generalize sm.tokens[i] = r at hle
    by_cases hr : r.is_range = true
    · by_cases hl : r.dst_line = line
      · have hc : r.dst_col ≤ col := by
          simp only [hl] at hle
          omega
        simp only [hr, hl, hc, ↓reduceIte]
        exact ⟨_, rfl⟩
      · simp only [hr, hl, ↓reduceIte]
        exact ⟨_, rfl⟩
    · simp only [hr]
      exact ⟨_, rfl⟩

/-- hence the model's `lookup` never fails either on the image of a source map (unsorted included) -/
theorem lookup_model_total (sm : Gen.RsTypes.SourceMap) (line col : Nat)
    (hsc : ∀ t ∈ sm.tokens, t.src_col < 4294967296) :
    ∃ r, Lookup.lookup (sm.tokens.map toTok) (line, col) = .ok r := by
  obtain ⟨r, hr⟩ := lookup_token_total sm line col
  rw [← tie_lookup_token sm line col hsc, hr]
  exact ⟨_, rfl⟩

/-! ### axioms -/

#print axioms tie_bsearch
#print axioms tie_glb
#print axioms tie_glb_none_iff
#print axioms tie_token_getters
#print axioms tie_lookup_token
#print axioms tie_lookup_token_some
#print axioms tie_lookup_token_none
#print axioms tie_lookup_token_error
#print axioms lookup_token_total
#print axioms lookup_model_total

end SmVerif.Tie
