import SmVerif.Tie.PreludeLemmas13
import SmVerif.Tie.Lookup
import SmVerif.Generated.RsBuilder
import SmVerif.Model.Builder
import SmVerif.Props.C13
/-
Tie unit "Builder": `SourceMapBuilder` (builder.rs) as translated by `tools/rs2lean`
(`Generated/RsBuilder.lean`) does what the hand-written model `SmVerif/Model/Builder.lean` (`Bld`) says - the model
the theorems of C13 (and C09 / C08 through the builder) are about.

Style (uniform): `toBld g` converts the generated struct to the model struct, ALL eleven fields one by one
(`file`, `name_map`, `names`, `tokens` through `toTok`, `source_map`, `source_root`, `sources`, `source_contents`,
`sources_mapping`, `ignore_list`, and `debug_id` through `dbgEnc`: the translator reads `DebugId` as an opaque `u64`,
the model keeps the id's string; `dbgEnc n` = `n` times the byte `d` is a fixed injective encoding,
`dbgEnc_injective`).  The relation `BRel g b` is `b = toBld g`; its eleven components are `BRel.file`, `BRel.nameMap`,
… (`brel_iff`), and it is one-to-one (`BRel.eq_toBld`, `BRel.unique`).  No field is left "unconstrained" any more, so
the former frame predicate `BFrame` (file / root / ignore / debugId untouched by a call) is gone: it follows from `BRel`
before and after the call.  Every method theorem has the form

    BRel g b → [size hypothesis] → ∃ g', gen_method g args = .ok (model result, g') ∧ BRel g' b'

with `b'` the model's new state (so the generated method is total where the model is), and for the two methods that
can panic a second half `model = .error e → gen = .error e`.

* `tie_add_source_with_id`, `tie_add_source` : under `sources.len() < 2^32` (`count = len() as u32`);
* `tie_add_name`                             : under `names.len() < 2^32`;
* `tie_add_with_id`, `tie_add`               : each size hypothesis only if the corresponding string is given;
* `tie_add_raw`, `tie_get_source`, `tie_get_source_contents`, `tie_has_source_contents`, `tie_take_mapping` : no
  hypothesis (`take_mapping` has no model function: the model reads the field);
* `tie_set_source`, `tie_set_source_contents` : no hypothesis, both outcomes (`assert!(src_id != !0)`, index out of
  range - the same panics on both sides);
* `add_source_with_id_truncation`            : the size hypothesis cannot be dropped - with exactly `2^32` sources the
  generated function returns id `0` for a new string where the (untruncated) model returns `2^32`;
* `tie_step`, `tie_run_along`, `tie_run`, `tie_run_error`, `tie_run_gen` : sequences of calls (`BldOp`, `stepG`,
  `runG` mirror `BOp`, `Bld.step`, `Bld.run`): same observations, related final states, same error - under the
  SmallDoc hypothesis on the final state (`tie_run` from a model run, `tie_run_gen` from a generated run), or, for
  runs that panic, on the states before each call (`SmallAlong`);
* `gen_c13_abs_add_source`, `gen_c13_abs_add_name`, `gen_c13_inv_reachable`, `gen_c13_builder_refines`,
  `gen_c13_token_resolves` : the C13 theorems restated about the generated functions (the finished map is the model's
  `intoSourcemap` of the converted final state; the generated `into_sourcemap` is tied to it in `Tie/Builder2.lean`).

The ties of the other methods (`new`, `set_*`, `get_*`, `add_to_ignore_list`, `add_token`, `strip_prefixes`,
`into_sourcemap`) are in `Tie/Builder2.lean`.
-/
namespace SmVerif.Tie
open SmVerif SmVerif.Rs SmVerif.C13Spec
open SmVerif.Gen.RsBuilder (SourceMapBuilder)

/-! ### conversion and relation -/

/-- the fixed injective encoding of the opaque debug id (`DebugId` is read as `u64` by the translator, the model keeps
a byte string): `n` times the byte `d` -/
def dbgEnc (n : Nat) : Bytes := List.replicate n 100

theorem dbgEnc_injective (a b : Nat) (h : dbgEnc a = dbgEnc b) : a = b := by
  have hl := congrArg List.length h
  simp only [dbgEnc, List.length_replicate] at hl
  exact hl

theorem dbgEnc_bytes (n : Nat) : ∀ c ∈ dbgEnc n, c < 256 := by
  intro c hc
  have := List.eq_of_mem_replicate hc
  omega

theorem map_dbgEnc_injective : ∀ a b : Option Nat, a.map dbgEnc = b.map dbgEnc → a = b
  | none, none, _ => rfl
  | none, some _, h => by simp only [Option.map_none, Option.map_some, reduceCtorEq] at h
  | some _, none, h => by simp only [Option.map_none, Option.map_some, reduceCtorEq] at h
  | some a, some b, h => by
    simp only [Option.map_some, Option.some.injEq] at h
    rw [dbgEnc_injective a b h]

/-- the generated `SourceMapBuilder` as a model builder: all eleven fields one by one (tokens through `toTok`, the
debug id through `dbgEnc`) -/
def toBld (g : SourceMapBuilder) : Bld :=
  { file := g.file, nameMap := g.name_map, names := g.names, tokens := g.tokens.map toTok, sourceMap := g.source_map,
    root := g.source_root, sources := g.sources, contents := g.source_contents, mapping := g.sources_mapping,
    ignore := g.ignore_list, debugId := g.debug_id.map dbgEnc }

/-- `g` and `b` agree on all eleven fields -/
def BRel (g : SourceMapBuilder) (b : Bld) : Prop := b = toBld g

theorem brel_toBld (g : SourceMapBuilder) : BRel g (toBld g) := rfl

/-- `BRel` determines the model builder -/
theorem BRel.eq_toBld {g : SourceMapBuilder} {b : Bld} (h : BRel g b) : b = toBld g := h

theorem BRel.file {g b} (h : BRel g b) : b.file = g.file := by rw [h.eq_toBld]; rfl
theorem BRel.nameMap {g b} (h : BRel g b) : b.nameMap = g.name_map := by rw [h.eq_toBld]; rfl
theorem BRel.names {g b} (h : BRel g b) : b.names = g.names := by rw [h.eq_toBld]; rfl
theorem BRel.tokens {g b} (h : BRel g b) : b.tokens = g.tokens.map toTok := by rw [h.eq_toBld]; rfl
theorem BRel.sourceMap {g b} (h : BRel g b) : b.sourceMap = g.source_map := by rw [h.eq_toBld]; rfl
theorem BRel.root {g b} (h : BRel g b) : b.root = g.source_root := by rw [h.eq_toBld]; rfl
theorem BRel.sources {g b} (h : BRel g b) : b.sources = g.sources := by rw [h.eq_toBld]; rfl
theorem BRel.contents {g b} (h : BRel g b) : b.contents = g.source_contents := by rw [h.eq_toBld]; rfl
theorem BRel.mapping {g b} (h : BRel g b) : b.mapping = g.sources_mapping := by rw [h.eq_toBld]; rfl
theorem BRel.ignore {g b} (h : BRel g b) : b.ignore = g.ignore_list := by rw [h.eq_toBld]; rfl
theorem BRel.debugId {g b} (h : BRel g b) : b.debugId = g.debug_id.map dbgEnc := by rw [h.eq_toBld]; rfl

/-- the relation, component by component -/
theorem brel_iff (g : SourceMapBuilder) (b : Bld) :
    BRel g b ↔ b.file = g.file ∧ b.nameMap = g.name_map ∧ b.names = g.names ∧ b.tokens = g.tokens.map toTok ∧
      b.sourceMap = g.source_map ∧ b.root = g.source_root ∧ b.sources = g.sources ∧
      b.contents = g.source_contents ∧ b.mapping = g.sources_mapping ∧ b.ignore = g.ignore_list ∧
      b.debugId = g.debug_id.map dbgEnc := by
  constructor
  · intro h
    exact ⟨h.file, h.nameMap, h.names, h.tokens, h.sourceMap, h.root, h.sources, h.contents, h.mapping, h.ignore,
      h.debugId⟩
  · rintro ⟨h1, h2, h3, h4, h5, h6, h7, h8, h9, h10, h11⟩
    cases b
    simp only at h1 h2 h3 h4 h5 h6 h7 h8 h9 h10 h11
    subst h1 h2 h3 h4 h5 h6 h7 h8 h9 h10 h11
    rfl

theorem toTok_injective : ∀ a b : Gen.RsTypes.RawToken, toTok a = toTok b → a = b := by
  intro a b h
  cases a; cases b
  simp only [toTok, Tok.mk.injEq] at h
  obtain ⟨h1, h2, h3, h4, h5, h6, h7⟩ := h
  subst h1 h2 h3 h4 h5 h6 h7
  rfl

theorem map_toTok_injective : ∀ l l' : List Gen.RsTypes.RawToken, l.map toTok = l'.map toTok → l = l'
  | [], [], _ => rfl
  | [], _ :: _, h => by simp only [List.map_nil, List.map_cons, reduceCtorEq] at h
  | _ :: _, [], h => by simp only [List.map_nil, List.map_cons, reduceCtorEq] at h
  | a :: l, a' :: l', h => by
    simp only [List.map_cons, List.cons.injEq] at h
    rw [toTok_injective a a' h.1, map_toTok_injective l l' h.2]

theorem toBld_injective (g g' : SourceMapBuilder) (h : toBld g = toBld g') : g = g' := by
  cases g; cases g'
  simp only [toBld, Bld.mk.injEq] at h
  obtain ⟨h1, h2, h3, h4, h5, h6, h7, h8, h9, h10, h11⟩ := h
  have ht := map_toTok_injective _ _ h4
  have hd := map_dbgEnc_injective _ _ h11
  subst h1 h2 h3 ht h5 h6 h7 h8 h9 h10 hd
  rfl

/-- the relation is functional from right to left as well: the model state determines the generated one -/
theorem BRel.unique {g g' : SourceMapBuilder} {b : Bld} (h : BRel g b) (h' : BRel g' b) : g = g' :=
  toBld_injective g g' (h.eq_toBld.symm.trans h'.eq_toBld)

/-- the SmallDoc hypothesis: fewer than `2^32` sources and names, so that `len() as u32` is `len()` -/
def SmallG (g : SourceMapBuilder) : Prop := g.sources.length < 4294967296 ∧ g.names.length < 4294967296
def SmallB (b : Bld) : Prop := b.sources.length < 4294967296 ∧ b.names.length < 4294967296

instance (g : SourceMapBuilder) : Decidable (SmallG g) := by unfold SmallG; infer_instance
instance (b : Bld) : Decidable (SmallB b) := by unfold SmallB; infer_instance

theorem BRel.small {g b} (h : BRel g b) : SmallG g ↔ SmallB b := by
  unfold SmallG SmallB; rw [h.sources, h.names]

/-! ### the interning tables -/

/-- the model's `lookupKey` is the first binding of the association list -/
theorem lookupKey_eq_assocGet (k : Bytes) : ∀ m : List (Bytes × Nat), Bld.lookupKey k m = assocGet k m
  | [] => rfl
  | (k', v) :: rest => by
    simp only [Bld.lookupKey, assocGet, lookupKey_eq_assocGet k rest]

/-- `*map.entry(k).or_insert(count)` against the model's lookup -/
theorem entry_eq_lookupKey (m : List (Bytes × Nat)) (k : Bytes) (count : Nat) :
    rsEntryOrInsert m k count =
      match Bld.lookupKey k m with
      | some id => (id, m)
      | none => (count, m ++ [(k, count)]) := by
  cases h : Bld.lookupKey k m with
  | none => rw [lookupKey_eq_assocGet] at h; exact rsEntryOrInsert_none m k count h
  | some id => rw [lookupKey_eq_assocGet] at h; exact rsEntryOrInsert_some m k count id h

/-! ### `add_source_with_id`, `add_source`, `add_name` -/

/-- **add_source_with_id.**  Under `sources.len() < 2^32` the generated function returns the model's id and a
state related to the model's. -/
theorem tie_add_source_with_id (g : SourceMapBuilder) (b : Bld) (h : BRel g b)
    (hs : g.sources.length < 4294967296) (src : List Nat) (old : Nat) :
    ∃ g', g.add_source_with_id src old = .ok ((b.addSourceWithId src old).2, g') ∧
      BRel g' (b.addSourceWithId src old).1 := by
  obtain rfl : b = toBld g := h
  cases g
  simp only at hs
  unfold SourceMapBuilder.add_source_with_id Bld.addSourceWithId toBld
  simp only [Nat.mod_eq_of_lt hs, entry_eq_lookupKey]
  cases hl : Bld.lookupKey src _ with
  | none =>
    simp only [↓reduceIte]
    exact ⟨_, rfl, rfl⟩
  | some id =>
    simp only
    split
    · exact ⟨_, rfl, rfl⟩
    · exact ⟨_, rfl, rfl⟩

/-- **add_source.** -/
theorem tie_add_source (g : SourceMapBuilder) (b : Bld) (h : BRel g b)
    (hs : g.sources.length < 4294967296) (src : List Nat) :
    ∃ g', g.add_source src = .ok ((b.addSource src).2, g') ∧
      BRel g' (b.addSource src).1 := by
  obtain ⟨g', he, hr⟩ := tie_add_source_with_id g b h hs src 4294967295
  refine ⟨g', ?_, hr⟩
  unfold SourceMapBuilder.add_source
  rw [he]
  rfl

/-- **add_name.**  Under `names.len() < 2^32`. -/
theorem tie_add_name (g : SourceMapBuilder) (b : Bld) (h : BRel g b)
    (hn : g.names.length < 4294967296) (name : List Nat) :
    ∃ g', g.add_name name = .ok ((b.addName name).2, g') ∧
      BRel g' (b.addName name).1 := by
  obtain rfl : b = toBld g := h
  cases g
  simp only at hn
  unfold SourceMapBuilder.add_name Bld.addName toBld
  simp only [Nat.mod_eq_of_lt hn, entry_eq_lookupKey]
  cases hl : Bld.lookupKey name _ with
  | none =>
    simp only [↓reduceIte]
    exact ⟨_, rfl, rfl⟩
  | some id =>
    simp only
    split
    · exact ⟨_, rfl, rfl⟩
    · exact ⟨_, rfl, rfl⟩

/-- **the size hypothesis is needed** (and is the only one): with exactly `2^32` sources, `count = len() as u32`
is `0` in the Rust code, so a string that is not in the table gets the id `0` from the generated function (and the
binding `(src, 0)`), where the model - which does not truncate - answers `2^32`.  Such a state needs `2^32` distinct
sources; the project's SmallDoc hypothesis excludes it. -/
theorem add_source_with_id_truncation (g : SourceMapBuilder) (hl : g.sources.length = 4294967296)
    (src : List Nat) (hnew : Bld.lookupKey src g.source_map = none) (old : Nat) :
    (∃ g', g.add_source_with_id src old = .ok (0, g')) ∧ ((toBld g).addSourceWithId src old).2 = 4294967296 := by
  constructor
  · unfold SourceMapBuilder.add_source_with_id
    simp only [hl, Nat.mod_self, entry_eq_lookupKey, hnew, ↓reduceIte]
    exact ⟨_, rfl⟩
  · have hnew' : Bld.lookupKey src (toBld g).sourceMap = none := hnew
    unfold Bld.addSourceWithId
    simp only [hnew']
    exact hl

/-! ### model-side facts that need no invariant -/

theorem addSourceWithId_frame (b : Bld) (s : Bytes) (old : Nat) :
    (b.addSourceWithId s old).1.names = b.names ∧ (b.addSourceWithId s old).1.nameMap = b.nameMap ∧
    b.sources.length ≤ (b.addSourceWithId s old).1.sources.length := by
  unfold Bld.addSourceWithId
  cases Bld.lookupKey s b.sourceMap with
  | none => exact ⟨rfl, rfl, by simp only [List.length_append]; omega⟩
  | some id =>
    simp only
    split
    · exact ⟨rfl, rfl, by simp only [List.length_append]; omega⟩
    · exact ⟨rfl, rfl, Nat.le_refl _⟩

theorem addName_frame (b : Bld) (s : Bytes) :
    (b.addName s).1.sources = b.sources ∧ (b.addName s).1.sourceMap = b.sourceMap ∧
    b.names.length ≤ (b.addName s).1.names.length := by
  unfold Bld.addName
  cases Bld.lookupKey s b.nameMap with
  | none => exact ⟨rfl, rfl, by simp only [List.length_append]; omega⟩
  | some id =>
    simp only
    split
    · exact ⟨rfl, rfl, by simp only [List.length_append]; omega⟩
    · exact ⟨rfl, rfl, Nat.le_refl _⟩

/-- the source half of `add_with_id` -/
def srcStepW (b : Bld) (sid : Nat) : Option Bytes → Bld × Nat
  | none => (b, SmVerif.NONE)
  | some s => b.addSourceWithId s sid

theorem addWithId_eq (b : Bld) (dl dc sl sc : Nat) (src : Option Bytes) (sid : Nat) (name : Option Bytes) (rng : Bool) :
    b.addWithId dl dc sl sc src sid name rng =
      ({ (C13.nameStep (srcStepW b sid src).1 name).1 with
           tokens := (C13.nameStep (srcStepW b sid src).1 name).1.tokens ++
             [{ dl := dl, dc := dc, sl := sl, sc := sc, src := (srcStepW b sid src).2,
                name := (C13.nameStep (srcStepW b sid src).1 name).2, rng := rng }] },
       { dl := dl, dc := dc, sl := sl, sc := sc, src := (srcStepW b sid src).2,
         name := (C13.nameStep (srcStepW b sid src).1 name).2, rng := rng }) := by
  cases src <;> cases name <;> rfl

theorem brel_push {g : SourceMapBuilder} {b : Bld} (h : BRel g b) (raw : Gen.RsTypes.RawToken) :
    BRel { g with tokens := g.tokens ++ [raw] } { b with tokens := b.tokens ++ [toTok raw] } := by
  obtain rfl : b = toBld g := h
  simp only [BRel, toBld, List.map_append, List.map_cons, List.map_nil]

/-! ### `add_with_id`, `add`, `add_raw` -/

/-- **add_with_id.**  The returned `RawToken` is the model's token, the states stay related.  The size hypotheses
are needed only for the table that is actually consulted. -/
theorem tie_add_with_id (g : SourceMapBuilder) (b : Bld) (h : BRel g b) (dl dc sl sc : Nat)
    (source : Option (List Nat)) (sid : Nat) (name : Option (List Nat)) (rng : Bool)
    (hs : source ≠ none → g.sources.length < 4294967296) (hn : name ≠ none → g.names.length < 4294967296) :
    ∃ raw g', g.add_with_id dl dc sl sc source sid name rng = .ok (raw, g') ∧
      toTok raw = (b.addWithId dl dc sl sc source sid name rng).2 ∧
      BRel g' (b.addWithId dl dc sl sc source sid name rng).1 := by
  rw [addWithId_eq]
  cases source with
  | none =>
    cases name with
    | none =>
      exact ⟨⟨dl, dc, sl, sc, 4294967295, 4294967295, rng⟩, _, rfl, rfl, brel_push h _⟩
    | some n =>
      obtain ⟨g2, e2, r2⟩ := tie_add_name g b h (hn (by simp only [ne_eq, reduceCtorEq, not_false_eq_true])) n
      refine ⟨⟨dl, dc, sl, sc, 4294967295, (b.addName n).2, rng⟩,
        { g2 with tokens := g2.tokens ++ [⟨dl, dc, sl, sc, 4294967295, (b.addName n).2, rng⟩] }, ?_, rfl,
        brel_push r2 _⟩
      unfold SourceMapBuilder.add_with_id
      simp only [e2]
  | some s =>
    obtain ⟨g1, e1, r1⟩ :=
      tie_add_source_with_id g b h (hs (by simp only [ne_eq, reduceCtorEq, not_false_eq_true])) s sid
    cases name with
    | none =>
      refine ⟨⟨dl, dc, sl, sc, (b.addSourceWithId s sid).2, 4294967295, rng⟩,
        { g1 with tokens := g1.tokens ++ [⟨dl, dc, sl, sc, (b.addSourceWithId s sid).2, 4294967295, rng⟩] }, ?_, rfl,
        brel_push r1 _⟩
      unfold SourceMapBuilder.add_with_id
      simp only [e1]
    | some n =>
      have hn1 : g1.names.length < 4294967296 := by
        rw [← r1.names, (addSourceWithId_frame b s sid).1, h.names]
        exact hn (by simp only [ne_eq, reduceCtorEq, not_false_eq_true])
      obtain ⟨g2, e2, r2⟩ := tie_add_name g1 _ r1 hn1 n
      refine ⟨⟨dl, dc, sl, sc, (b.addSourceWithId s sid).2, ((b.addSourceWithId s sid).1.addName n).2, rng⟩,
        { g2 with tokens := g2.tokens ++
            [⟨dl, dc, sl, sc, (b.addSourceWithId s sid).2, ((b.addSourceWithId s sid).1.addName n).2, rng⟩] },
        ?_, rfl, brel_push r2 _⟩
      unfold SourceMapBuilder.add_with_id
      simp only [e1, e2]

/-- **add.** -/
theorem tie_add (g : SourceMapBuilder) (b : Bld) (h : BRel g b) (dl dc sl sc : Nat)
    (source name : Option (List Nat)) (rng : Bool)
    (hs : source ≠ none → g.sources.length < 4294967296) (hn : name ≠ none → g.names.length < 4294967296) :
    ∃ raw g', g.add dl dc sl sc source name rng = .ok (raw, g') ∧
      toTok raw = (b.add dl dc sl sc source name rng).2 ∧
      BRel g' (b.add dl dc sl sc source name rng).1 := by
  obtain ⟨raw, g', he, ht, hr⟩ := tie_add_with_id g b h dl dc sl sc source 4294967295 name rng hs hn
  refine ⟨raw, g', ?_, ht, hr⟩
  unfold SourceMapBuilder.add
  rw [he]

/-- **add_raw.**  No hypothesis. -/
theorem tie_add_raw (g : SourceMapBuilder) (b : Bld) (h : BRel g b) (dl dc sl sc : Nat)
    (source name : Option Nat) (rng : Bool) :
    ∃ raw g', g.add_raw dl dc sl sc source name rng = .ok (raw, g') ∧
      toTok raw = (b.addRaw dl dc sl sc source name rng).2 ∧
      BRel g' (b.addRaw dl dc sl sc source name rng).1 :=
  ⟨_, _, rfl, rfl, brel_push h _⟩

/-! ### `set_source`, `set_source_contents` (with their panics), getters, `take_mapping` -/

/-- **set_source**, both outcomes: where the model succeeds so does the generated code, with related states; where
the model panics (`src_id = !0`: the `assert!`; `src_id ≥ sources.len()`: the index) so does the generated
code.  No hypothesis. -/
theorem tie_set_source (g : SourceMapBuilder) (b : Bld) (h : BRel g b) (i : Nat) (v : List Nat) :
    (∀ b', b.setSource i v = .ok b' → ∃ g', g.set_source i v = .ok g' ∧ BRel g' b') ∧
    (∀ e, b.setSource i v = .error e → g.set_source i v = .error e) := by
  have hN : SmVerif.NONE = 4294967295 := rfl
  have hl : b.sources.length = g.sources.length := by rw [h.sources]
  unfold SourceMapBuilder.set_source Bld.setSource
  rw [hN, hl]
  by_cases h1 : i = 4294967295
  · have h3 : (i = 4294967295 ∨ i ≥ g.sources.length) := Or.inl h1
    have h4 : ¬ (i ≠ 4294967295) := by omega
    simp only [h3, h4, ↓reduceIte, not_false_eq_true]
    exact ⟨fun b' hb' => by simp only [reduceCtorEq] at hb', fun e he => by cases he; rfl⟩
  · by_cases h2 : i < g.sources.length
    · have h3 : ¬ (i = 4294967295 ∨ i ≥ g.sources.length) := by omega
      have h4 : ¬ ¬ (i ≠ 4294967295) := by omega
      simp only [h3, h4, h2, ↓reduceIte]
      refine ⟨fun b' hb' => ?_, fun e he => by simp only [reduceCtorEq] at he⟩
      simp only [Except.ok.injEq] at hb'
      subst hb'
      obtain rfl : b = toBld g := h
      exact ⟨_, rfl, rfl⟩
    · have h3 : (i = 4294967295 ∨ i ≥ g.sources.length) := by omega
      have h4 : ¬ ¬ (i ≠ 4294967295) := by omega
      simp only [h3, h4, h2, ↓reduceIte]
      exact ⟨fun b' hb' => by simp only [reduceCtorEq] at hb', fun e he => by cases he; rfl⟩

/-- the model's `resizeOpt` is `Vec::resize(n, None)` -/
theorem resizeOpt_eq_rsResize (l : List (Option Bytes)) (n : Nat) : SMap.resizeOpt l n = rsResize l n none := rfl

/-- **set_source_contents**, both outcomes (panic on `src_id = !0` and on an id that is not a source).
No hypothesis. -/
theorem tie_set_source_contents (g : SourceMapBuilder) (b : Bld) (h : BRel g b) (i : Nat) (v : Option (List Nat)) :
    (∀ b', b.setSourceContents i v = .ok b' →
      ∃ g', g.set_source_contents i v = .ok g' ∧ BRel g' b') ∧
    (∀ e, b.setSourceContents i v = .error e → g.set_source_contents i v = .error e) := by
  have hN : SmVerif.NONE = 4294967295 := rfl
  have hl : b.sources.length = g.sources.length := by rw [h.sources]
  unfold SourceMapBuilder.set_source_contents Bld.setSourceContents
  rw [hN, hl, h.contents, resizeOpt_eq_rsResize]
  by_cases h1 : i = 4294967295
  · have h4 : ¬ (i ≠ 4294967295) := by omega
    rw [if_pos h1, if_pos h4]
    simp only [↓reduceIte]
    exact ⟨fun b' hb' => by simp only [reduceCtorEq] at hb', fun e he => by cases he; rfl⟩
  · have h4 : ¬ ¬ (i ≠ 4294967295) := by omega
    simp only [h1, h4, ↓reduceIte]
    by_cases h2 : g.sources.length > g.source_contents.length
    · simp only [h2, ↓reduceIte]
      by_cases h3 : i < (rsResize g.source_contents g.sources.length none).length
      · have h5 : ¬ i ≥ (rsResize g.source_contents g.sources.length none).length := by omega
        simp only [h3, h5, ↓reduceIte]
        refine ⟨fun b' hb' => ?_, fun e he => by simp only [reduceCtorEq] at he⟩
        simp only [Except.ok.injEq] at hb'
        subst hb'
        obtain rfl : b = toBld g := h
        exact ⟨_, rfl, rfl⟩
      · have h5 : i ≥ (rsResize g.source_contents g.sources.length none).length := by omega
        simp only [h3, h5, ↓reduceIte]
        exact ⟨fun b' hb' => by simp only [reduceCtorEq] at hb', fun e he => by cases he; rfl⟩
    · simp only [h2, ↓reduceIte]
      by_cases h3 : i < g.source_contents.length
      · have h5 : ¬ i ≥ g.source_contents.length := by omega
        simp only [h3, h5, ↓reduceIte]
        refine ⟨fun b' hb' => ?_, fun e he => by simp only [reduceCtorEq] at he⟩
        simp only [Except.ok.injEq] at hb'
        subst hb'
        obtain rfl : b = toBld g := h
        exact ⟨_, rfl, rfl⟩
      · have h5 : i ≥ g.source_contents.length := by omega
        simp only [h3, h5, ↓reduceIte]
        exact ⟨fun b' hb' => by simp only [reduceCtorEq] at hb', fun e he => by cases he; rfl⟩

/-- **get_source.** -/
theorem tie_get_source (g : SourceMapBuilder) (b : Bld) (h : BRel g b) (i : Nat) :
    g.get_source i = .ok (b.getSource i) := by
  unfold SourceMapBuilder.get_source Bld.getSource
  rw [h.sources]
  cases g.sources[i]? <;> rfl

/-- **get_source_contents.** -/
theorem tie_get_source_contents (g : SourceMapBuilder) (b : Bld) (h : BRel g b) (i : Nat) :
    g.get_source_contents i = .ok (b.getSourceContents i) := by
  unfold SourceMapBuilder.get_source_contents Bld.getSourceContents
  rw [h.contents]
  cases g.source_contents[i]? with
  | none => rfl
  | some x => cases x <;> rfl

/-- **has_source_contents.** -/
theorem tie_has_source_contents (g : SourceMapBuilder) (b : Bld) (h : BRel g b) (i : Nat) :
    g.has_source_contents i = .ok (b.hasSourceContents i) := by
  unfold SourceMapBuilder.has_source_contents Bld.hasSourceContents
  rw [tie_get_source_contents g b h i]

/-- **take_mapping** (`mem::take(&mut self.sources_mapping)`; the model reads the field `mapping` where the Rust
code calls it, in `rewrite_with_mapping`): returns the model's `mapping` and leaves it empty. -/
theorem tie_take_mapping (g : SourceMapBuilder) (b : Bld) (h : BRel g b) :
    ∃ g', g.take_mapping = .ok (b.mapping, g') ∧ BRel g' { b with mapping := [] } := by
  obtain rfl : b = toBld g := h
  exact ⟨_, rfl, rfl⟩

/-! ### `new`, the accessors of `file`, `source_root`, `debug_id`, and `add_to_ignore_list` -/

/-- `BTreeSet::insert` of the prelude is the model's `insertSorted` - on every list, sorted or not, with or without
duplicates (both are the same recursion) -/
theorem rsSetInsert_eq_insertSorted (x : Nat) : ∀ l : List Nat, rsSetInsert l x = SMap.insertSorted x l
  | [] => rfl
  | y :: ys => by simp only [rsSetInsert, SMap.insertSorted, rsSetInsert_eq_insertSorted x ys]

/-- **new.** -/
theorem tie_new (file : Option (List Nat)) : ∃ g, SourceMapBuilder.new file = .ok g ∧ BRel g (Bld.new file) :=
  ⟨_, rfl, rfl⟩

/-- **set_debug_id** (the opaque id through `dbgEnc`). -/
theorem tie_set_debug_id (g : SourceMapBuilder) (b : Bld) (h : BRel g b) (d : Option Nat) :
    ∃ g', g.set_debug_id d = .ok g' ∧ BRel g' (b.setDebugId (d.map dbgEnc)) := by
  obtain rfl : b = toBld g := h
  exact ⟨_, rfl, rfl⟩

/-- **set_file.** -/
theorem tie_set_file (g : SourceMapBuilder) (b : Bld) (h : BRel g b) (f : Option (List Nat)) :
    ∃ g', g.set_file f = .ok g' ∧ BRel g' (b.setFile f) := by
  obtain rfl : b = toBld g := h
  exact ⟨_, rfl, rfl⟩

/-- **get_file** (the model reads the field). -/
theorem tie_get_file (g : SourceMapBuilder) (b : Bld) (h : BRel g b) : g.get_file = .ok b.file := by
  rw [h.file]; rfl

/-- **set_source_root.** -/
theorem tie_set_source_root (g : SourceMapBuilder) (b : Bld) (h : BRel g b) (r : Option (List Nat)) :
    ∃ g', g.set_source_root r = .ok g' ∧ BRel g' (b.setSourceRoot r) := by
  obtain rfl : b = toBld g := h
  exact ⟨_, rfl, rfl⟩

/-- **get_source_root** (the model reads the field). -/
theorem tie_get_source_root (g : SourceMapBuilder) (b : Bld) (h : BRel g b) : g.get_source_root = .ok b.root := by
  rw [h.root]; rfl

/-- **add_to_ignore_list.**  No hypothesis: the two inserts agree on every list. -/
theorem tie_add_to_ignore_list (g : SourceMapBuilder) (b : Bld) (h : BRel g b) (i : Nat) :
    ∃ g', g.add_to_ignore_list i = .ok g' ∧ BRel g' (b.addToIgnoreList i) := by
  obtain rfl : b = toBld g := h
  refine ⟨_, rfl, ?_⟩
  simp only [BRel, toBld, Bld.addToIgnoreList, rsSetInsert_eq_insertSorted]

/-! ### sequences of calls -/

/-- the builder calls (all of the model's `BOp`; `setDebugId` takes the translator's opaque id) -/
inductive BldOp where
  | addSource (s : List Nat)
  | addName (s : List Nat)
  | add (dl dc sl sc : Nat) (src name : Option (List Nat)) (rng : Bool)
  | addRaw (dl dc sl sc : Nat) (src name : Option Nat) (rng : Bool)
  | setSourceContents (i : Nat) (v : Option (List Nat))
  | addToIgnoreList (i : Nat)
  | setSourceRoot (r : Option (List Nat))
  | setFile (f : Option (List Nat))
  | setDebugId (d : Option Nat)
  | getSource (i : Nat)
  deriving Repr, DecidableEq

/-- the same call in the vocabulary of the model (`Bld.step`, `Bld.run`, the C13 theorems) -/
def BldOp.toBOp : BldOp → BOp
  | .addSource s => .addSource s
  | .addName s => .addName s
  | .add dl dc sl sc src name rng => .add dl dc sl sc src name rng
  | .addRaw dl dc sl sc src name rng => .addRaw dl dc sl sc src name rng
  | .setSourceContents i v => .setSourceContents i v
  | .addToIgnoreList i => .addToIgnoreList i
  | .setSourceRoot r => .setSourceRoot r
  | .setFile f => .setFile f
  | .setDebugId d => .setDebugId (d.map dbgEnc)
  | .getSource i => .getSource i

/-- one call on the generated builder, with the observation `Bld.step` records -/
def stepG (g : SourceMapBuilder) : BldOp → Res (SourceMapBuilder × BOut)
  | .addSource s =>
    match g.add_source s with
    | .ok (i, g') => .ok (g', .id i)
    | .error e => .error e
  | .addName s =>
    match g.add_name s with
    | .ok (i, g') => .ok (g', .id i)
    | .error e => .error e
  | .add dl dc sl sc src name rng =>
    match g.add dl dc sl sc src name rng with
    | .ok (raw, g') => .ok (g', .tok raw.src_id raw.name_id)
    | .error e => .error e
  | .addRaw dl dc sl sc src name rng =>
    match g.add_raw dl dc sl sc src name rng with
    | .ok (raw, g') => .ok (g', .tok raw.src_id raw.name_id)
    | .error e => .error e
  | .setSourceContents i v =>
    match g.set_source_contents i v with
    | .ok g' => .ok (g', .unit)
    | .error e => .error e
  | .addToIgnoreList i =>
    match g.add_to_ignore_list i with
    | .ok g' => .ok (g', .unit)
    | .error e => .error e
  | .setSourceRoot r =>
    match g.set_source_root r with
    | .ok g' => .ok (g', .unit)
    | .error e => .error e
  | .setFile f =>
    match g.set_file f with
    | .ok g' => .ok (g', .unit)
    | .error e => .error e
  | .setDebugId d =>
    match g.set_debug_id d with
    | .ok g' => .ok (g', .unit)
    | .error e => .error e
  | .getSource i =>
    match g.get_source i with
    | .ok r => .ok (g, .str r)
    | .error e => .error e

/-- a sequence of calls on the generated builder (the shape of `Bld.run`) -/
def runG (g : SourceMapBuilder) : List BldOp → Res (SourceMapBuilder × List BOut)
  | [] => .ok (g, [])
  | op :: ops =>
    match stepG g op with
    | .error e => .error e
    | .ok (g', o) =>
      match runG g' ops with
      | .error e => .error e
      | .ok (g'', os) => .ok (g'', o :: os)

/-- `SourceMapBuilder::new(None)` -/
def emptyG : SourceMapBuilder :=
  { file := none, name_map := [], names := [], tokens := [], source_map := [], source_root := none, sources := [],
    source_contents := [], sources_mapping := [], ignore_list := [], debug_id := none }

/-- `emptyG` is what the generated `SourceMapBuilder::new(None)` returns -/
theorem new_none_eq_emptyG : SourceMapBuilder.new none = .ok emptyG := rfl
theorem toBld_emptyG : toBld emptyG = Bld.new none := rfl
theorem brel_emptyG : BRel emptyG (Bld.new none) := rfl

/-- **one call.**  From related states, with fewer than `2^32` sources and names *before* the call, the generated
call and the model call have the same outcome: both succeed with the same observation and related states, or both
fail with the same error (the panic of `set_source_contents`). -/
theorem tie_step (g : SourceMapBuilder) (b : Bld) (h : BRel g b) (hs : SmallB b) (op : BldOp) :
    (∀ b' o, b.step op.toBOp = .ok (b', o) → ∃ g', stepG g op = .ok (g', o) ∧ BRel g' b') ∧
    (∀ e, b.step op.toBOp = .error e → stepG g op = .error e) := by
  have hg := (h.small).2 hs
  cases op with
  | addSource s =>
    refine ⟨fun b' o hb' => ?_, fun e he => by simp only [BldOp.toBOp, Bld.step, reduceCtorEq] at he⟩
    simp only [BldOp.toBOp, Bld.step, Except.ok.injEq, Prod.mk.injEq] at hb'
    obtain ⟨rfl, rfl⟩ := hb'
    obtain ⟨g', e, r⟩ := tie_add_source g b h hg.1 s
    exact ⟨g', by simp only [stepG, e], r⟩
  | addName s =>
    refine ⟨fun b' o hb' => ?_, fun e he => by simp only [BldOp.toBOp, Bld.step, reduceCtorEq] at he⟩
    simp only [BldOp.toBOp, Bld.step, Except.ok.injEq, Prod.mk.injEq] at hb'
    obtain ⟨rfl, rfl⟩ := hb'
    obtain ⟨g', e, r⟩ := tie_add_name g b h hg.2 s
    exact ⟨g', by simp only [stepG, e], r⟩
  | add dl dc sl sc src name rng =>
    refine ⟨fun b' o hb' => ?_, fun e he => by simp only [BldOp.toBOp, Bld.step, reduceCtorEq] at he⟩
    simp only [BldOp.toBOp, Bld.step, Except.ok.injEq, Prod.mk.injEq] at hb'
    obtain ⟨rfl, rfl⟩ := hb'
    obtain ⟨raw, g', e, ht, r⟩ := tie_add g b h dl dc sl sc src name rng (fun _ => hg.1) (fun _ => hg.2)
    refine ⟨g', ?_, r⟩
    simp only [stepG, e, ← ht, toTok]
  | addRaw dl dc sl sc src name rng =>
    refine ⟨fun b' o hb' => ?_, fun e he => by simp only [BldOp.toBOp, Bld.step, reduceCtorEq] at he⟩
    simp only [BldOp.toBOp, Bld.step, Except.ok.injEq, Prod.mk.injEq] at hb'
    obtain ⟨rfl, rfl⟩ := hb'
    obtain ⟨raw, g', e, ht, r⟩ := tie_add_raw g b h dl dc sl sc src name rng
    refine ⟨g', ?_, r⟩
    simp only [stepG, e, ← ht, toTok]
  | setSourceContents i v =>
    obtain ⟨hok, herr⟩ := tie_set_source_contents g b h i v
    simp only [BldOp.toBOp, Bld.step, stepG]
    cases hm : b.setSourceContents i v with
    | ok b1 =>
      obtain ⟨g', e, r⟩ := hok b1 hm
      simp only [e, Except.ok.injEq, Prod.mk.injEq, reduceCtorEq, false_implies, implies_true, and_true]
      rintro b' o ⟨rfl, rfl⟩
      exact ⟨g', ⟨rfl, rfl⟩, r⟩
    | error e0 =>
      simp only [herr e0 hm, reduceCtorEq, false_implies, implies_true, true_and]
      intro e he; cases he; rfl
  | addToIgnoreList i =>
    refine ⟨fun b' o hb' => ?_, fun e he => by simp only [BldOp.toBOp, Bld.step, reduceCtorEq] at he⟩
    simp only [BldOp.toBOp, Bld.step, Except.ok.injEq, Prod.mk.injEq] at hb'
    obtain ⟨rfl, rfl⟩ := hb'
    obtain ⟨g', e, r⟩ := tie_add_to_ignore_list g b h i
    exact ⟨g', by simp only [stepG, e], r⟩
  | setSourceRoot v =>
    refine ⟨fun b' o hb' => ?_, fun e he => by simp only [BldOp.toBOp, Bld.step, reduceCtorEq] at he⟩
    simp only [BldOp.toBOp, Bld.step, Except.ok.injEq, Prod.mk.injEq] at hb'
    obtain ⟨rfl, rfl⟩ := hb'
    obtain ⟨g', e, r⟩ := tie_set_source_root g b h v
    exact ⟨g', by simp only [stepG, e], r⟩
  | setFile v =>
    refine ⟨fun b' o hb' => ?_, fun e he => by simp only [BldOp.toBOp, Bld.step, reduceCtorEq] at he⟩
    simp only [BldOp.toBOp, Bld.step, Except.ok.injEq, Prod.mk.injEq] at hb'
    obtain ⟨rfl, rfl⟩ := hb'
    obtain ⟨g', e, r⟩ := tie_set_file g b h v
    exact ⟨g', by simp only [stepG, e], r⟩
  | setDebugId v =>
    refine ⟨fun b' o hb' => ?_, fun e he => by simp only [BldOp.toBOp, Bld.step, reduceCtorEq] at he⟩
    simp only [BldOp.toBOp, Bld.step, Except.ok.injEq, Prod.mk.injEq] at hb'
    obtain ⟨rfl, rfl⟩ := hb'
    obtain ⟨g', e, r⟩ := tie_set_debug_id g b h v
    exact ⟨g', by simp only [stepG, e], r⟩
  | getSource i =>
    refine ⟨fun b' o hb' => ?_, fun e he => by simp only [BldOp.toBOp, Bld.step, reduceCtorEq] at he⟩
    simp only [BldOp.toBOp, Bld.step, Except.ok.injEq, Prod.mk.injEq] at hb'
    obtain ⟨rfl, rfl⟩ := hb'
    exact ⟨g, by simp only [stepG, tie_get_source g b h i], h⟩

/-! #### the tables only grow -/

theorem addWithId_mono (b : Bld) (dl dc sl sc : Nat) (src : Option Bytes) (sid : Nat) (name : Option Bytes) (rng : Bool) :
    b.sources.length ≤ (b.addWithId dl dc sl sc src sid name rng).1.sources.length ∧
    b.names.length ≤ (b.addWithId dl dc sl sc src sid name rng).1.names.length := by
  rw [addWithId_eq]
  cases src with
  | none =>
    cases name with
    | none => exact ⟨Nat.le_refl _, Nat.le_refl _⟩
    | some n =>
      obtain ⟨h1, _, h3⟩ := addName_frame b n
      exact ⟨by show _ ≤ (b.addName n).1.sources.length; rw [h1]; exact Nat.le_refl _, h3⟩
  | some s =>
    obtain ⟨k1, _, k3⟩ := addSourceWithId_frame b s sid
    cases name with
    | none => exact ⟨k3, by show _ ≤ (b.addSourceWithId s sid).1.names.length; rw [k1]; exact Nat.le_refl _⟩
    | some n =>
      obtain ⟨h1, _, h3⟩ := addName_frame (b.addSourceWithId s sid).1 n
      refine ⟨?_, ?_⟩
      · show _ ≤ ((b.addSourceWithId s sid).1.addName n).1.sources.length
        rw [h1]; exact k3
      · show _ ≤ ((b.addSourceWithId s sid).1.addName n).1.names.length
        rw [k1] at h3; exact h3

theorem setSourceContents_frame (b b' : Bld) (i : Nat) (v : Option Bytes) (h : b.setSourceContents i v = .ok b') :
    b'.sources = b.sources ∧ b'.names = b.names := by
  unfold Bld.setSourceContents at h
  split at h
  · simp only [reduceCtorEq] at h
  · split at h <;> dsimp only at h <;> split at h <;>
      first
        | (simp only [reduceCtorEq] at h; done)
        | (simp only [Except.ok.injEq] at h; subst h; exact ⟨rfl, rfl⟩)

theorem step_mono (b : Bld) (op : BldOp) (b' : Bld) (o : BOut) (h : b.step op.toBOp = .ok (b', o)) :
    b.sources.length ≤ b'.sources.length ∧ b.names.length ≤ b'.names.length := by
  cases op with
  | addSource s =>
    simp only [BldOp.toBOp, Bld.step, Except.ok.injEq, Prod.mk.injEq] at h
    obtain ⟨rfl, _⟩ := h
    obtain ⟨k1, _, k3⟩ := addSourceWithId_frame b s SmVerif.NONE
    exact ⟨k3, by show _ ≤ (b.addSourceWithId s SmVerif.NONE).1.names.length; rw [k1]; exact Nat.le_refl _⟩
  | addName s =>
    simp only [BldOp.toBOp, Bld.step, Except.ok.injEq, Prod.mk.injEq] at h
    obtain ⟨rfl, _⟩ := h
    obtain ⟨k1, _, k3⟩ := addName_frame b s
    exact ⟨by rw [k1]; exact Nat.le_refl _, k3⟩
  | add dl dc sl sc src name rng =>
    simp only [BldOp.toBOp, Bld.step, Except.ok.injEq, Prod.mk.injEq] at h
    obtain ⟨rfl, _⟩ := h
    exact addWithId_mono b dl dc sl sc src SmVerif.NONE name rng
  | addRaw dl dc sl sc src name rng =>
    simp only [BldOp.toBOp, Bld.step, Except.ok.injEq, Prod.mk.injEq] at h
    obtain ⟨rfl, _⟩ := h
    exact ⟨Nat.le_refl _, Nat.le_refl _⟩
  | setSourceContents i v =>
    simp only [BldOp.toBOp, Bld.step] at h
    cases hm : b.setSourceContents i v with
    | error e => simp only [hm, reduceCtorEq] at h
    | ok b1 =>
      simp only [hm, Except.ok.injEq, Prod.mk.injEq] at h
      obtain ⟨rfl, _⟩ := h
      obtain ⟨k1, k2⟩ := setSourceContents_frame b b1 i v hm
      exact ⟨by rw [k1]; exact Nat.le_refl _, by rw [k2]; exact Nat.le_refl _⟩
  | addToIgnoreList _ | setSourceRoot _ | setFile _ | setDebugId _ | getSource _ =>
    simp only [BldOp.toBOp, Bld.step, Except.ok.injEq, Prod.mk.injEq] at h
    obtain ⟨rfl, _⟩ := h
    exact ⟨Nat.le_refl _, Nat.le_refl _⟩

theorem run_cons_ok {b : Bld} {op : BOp} {ops : List BOp} {b' : Bld} {outs : List BOut}
    (h : b.run (op :: ops) = .ok (b', outs)) :
    ∃ b1 o os, b.step op = .ok (b1, o) ∧ b1.run ops = .ok (b', os) ∧ outs = o :: os := by
  simp only [Bld.run] at h
  cases hs : b.step op with
  | error e => simp only [hs, reduceCtorEq] at h
  | ok r =>
    obtain ⟨b1, o⟩ := r
    simp only [hs] at h
    cases hr : b1.run ops with
    | error e => simp only [hr, reduceCtorEq] at h
    | ok r2 =>
      obtain ⟨b2, os⟩ := r2
      simp only [hr, Except.ok.injEq, Prod.mk.injEq] at h
      exact ⟨b1, o, os, rfl, by rw [← h.1]; exact hr, h.2.symm⟩

theorem runG_cons_ok {g : SourceMapBuilder} {op : BldOp} {ops : List BldOp} {g' : SourceMapBuilder} {outs : List BOut}
    (h : runG g (op :: ops) = .ok (g', outs)) :
    ∃ g1 o os, stepG g op = .ok (g1, o) ∧ runG g1 ops = .ok (g', os) ∧ outs = o :: os := by
  simp only [runG] at h
  cases hs : stepG g op with
  | error e => simp only [hs, reduceCtorEq] at h
  | ok r =>
    obtain ⟨g1, o⟩ := r
    simp only [hs] at h
    cases hr : runG g1 ops with
    | error e => simp only [hr, reduceCtorEq] at h
    | ok r2 =>
      obtain ⟨g2, os⟩ := r2
      simp only [hr, Except.ok.injEq, Prod.mk.injEq] at h
      exact ⟨g1, o, os, rfl, by rw [← h.1]; exact hr, h.2.symm⟩

theorem run_mono : ∀ (ops : List BldOp) (b b' : Bld) (outs : List BOut),
    b.run (ops.map BldOp.toBOp) = .ok (b', outs) →
    b.sources.length ≤ b'.sources.length ∧ b.names.length ≤ b'.names.length
  | [], b, b', outs, h => by
    simp only [List.map_nil, Bld.run, Except.ok.injEq, Prod.mk.injEq] at h
    obtain ⟨rfl, _⟩ := h
    exact ⟨Nat.le_refl _, Nat.le_refl _⟩
  | op :: ops, b, b', outs, h => by
    obtain ⟨b1, o, os, h1, h2, _⟩ := run_cons_ok h
    obtain ⟨m1, m2⟩ := step_mono b op b1 o h1
    obtain ⟨n1, n2⟩ := run_mono ops b1 b' os h2
    exact ⟨Nat.le_trans m1 n1, Nat.le_trans m2 n2⟩

/-- the SmallDoc hypothesis along a run of the model: fewer than `2^32` sources and names before each call that
is reached -/
def SmallAlong : Bld → List BOp → Prop
  | _, [] => True
  | b, op :: ops => SmallB b ∧ ∀ b1 o, b.step op = .ok (b1, o) → SmallAlong b1 ops

/-- a small final state makes the whole run small (the tables only grow) -/
theorem smallAlong_of_final : ∀ (ops : List BldOp) (b b' : Bld) (outs : List BOut),
    b.run (ops.map BldOp.toBOp) = .ok (b', outs) → SmallB b' → SmallAlong b (ops.map BldOp.toBOp)
  | [], _, _, _, _, _ => trivial
  | op :: ops, b, b', outs, h, hs => by
    obtain ⟨b1, o, os, h1, h2, _⟩ := run_cons_ok h
    obtain ⟨n1, n2⟩ := run_mono ops b1 b' os h2
    obtain ⟨m1, m2⟩ := step_mono b op b1 o h1
    refine ⟨⟨by have := hs.1; omega, by have := hs.2; omega⟩, fun b1' o' h' => ?_⟩
    rw [h1] at h'
    simp only [Except.ok.injEq, Prod.mk.injEq] at h'
    obtain ⟨rfl, _⟩ := h'
    exact smallAlong_of_final ops b1 b' os h2 hs

/-- **any sequence of calls, both outcomes.**  From related states, if the SmallDoc hypothesis holds before each
call the model reaches, the generated builder and the model go through the sequence alike: both complete it with
the same observations and related final states, or both stop with the same error. -/
theorem tie_run_along : ∀ (ops : List BldOp) (g : SourceMapBuilder) (b : Bld), BRel g b →
    SmallAlong b (ops.map BldOp.toBOp) →
    (∀ b' outs, b.run (ops.map BldOp.toBOp) = .ok (b', outs) →
      ∃ g', runG g ops = .ok (g', outs) ∧ BRel g' b') ∧
    (∀ e, b.run (ops.map BldOp.toBOp) = .error e → runG g ops = .error e)
  | [], g, b, h, _ => by
    refine ⟨fun b' outs hb' => ?_, fun e he => by simp only [List.map_nil, Bld.run, reduceCtorEq] at he⟩
    simp only [List.map_nil, Bld.run, Except.ok.injEq, Prod.mk.injEq] at hb'
    obtain ⟨rfl, rfl⟩ := hb'
    exact ⟨g, rfl, h⟩
  | op :: ops, g, b, h, hsm => by
    obtain ⟨hsb, hnext⟩ := hsm
    obtain ⟨sok, serr⟩ := tie_step g b h hsb op
    constructor
    · intro b' outs hb'
      obtain ⟨b1, o, os, h1, h2, h3⟩ := run_cons_ok hb'
      obtain ⟨g1, e1, r1⟩ := sok b1 o h1
      obtain ⟨g', e2, r2⟩ := (tie_run_along ops g1 b1 r1 (hnext b1 o h1)).1 b' os h2
      exact ⟨g', by simp only [runG, e1, e2, h3], r2⟩
    · intro e he
      simp only [List.map_cons, Bld.run] at he
      cases hs : b.step op.toBOp with
      | error e0 =>
        simp only [hs, Except.error.injEq] at he
        subst he
        simp only [runG, serr e0 hs]
      | ok r =>
        obtain ⟨b1, o⟩ := r
        simp only [hs] at he
        obtain ⟨g1, e1, r1⟩ := sok b1 o hs
        cases hr : b1.run (ops.map BldOp.toBOp) with
        | ok r2 => simp only [hr, reduceCtorEq] at he
        | error e0 =>
          simp only [hr, Except.error.injEq] at he
          subst he
          have e2 := (tie_run_along ops g1 b1 r1 (hnext b1 o hs)).2 e0 hr
          simp only [runG, e1, e2]

/-- **any sequence of calls.**  If the model completes the sequence and the final state has fewer than `2^32`
sources and names, the generated builder completes it with the same observations, and the final states are
related. -/
theorem tie_run (ops : List BldOp) (g : SourceMapBuilder) (b : Bld) (h : BRel g b) (b' : Bld) (outs : List BOut)
    (hr : b.run (ops.map BldOp.toBOp) = .ok (b', outs)) (hs : SmallB b') :
    ∃ g', runG g ops = .ok (g', outs) ∧ BRel g' b' :=
  (tie_run_along ops g b h (smallAlong_of_final ops b b' outs hr hs)).1 b' outs hr

/-- the panic case of a sequence: the SmallDoc hypothesis is about the states before the failing call -/
theorem tie_run_error (ops : List BldOp) (g : SourceMapBuilder) (b : Bld) (h : BRel g b)
    (hsm : SmallAlong b (ops.map BldOp.toBOp)) (e : Err) (hr : b.run (ops.map BldOp.toBOp) = .error e) :
    runG g ops = .error e :=
  (tie_run_along ops g b h hsm).2 e hr

/-! #### the same on the generated side: the calls are total but for the documented panic, the tables only grow
(no size hypothesis: with `2^32` or more sources the truncated `count` makes the functions differ from the model,
but they still only append) -/

theorem gen_add_source_with_id_total (g : SourceMapBuilder) (s : List Nat) (old : Nat) :
    ∃ i g', g.add_source_with_id s old = .ok (i, g') ∧ g.sources.length ≤ g'.sources.length ∧
      g'.names = g.names := by
  unfold SourceMapBuilder.add_source_with_id
  dsimp only
  split
  · exact ⟨_, _, rfl, by simp only [List.length_append]; omega, rfl⟩
  · exact ⟨_, _, rfl, Nat.le_refl _, rfl⟩

theorem gen_add_name_total (g : SourceMapBuilder) (s : List Nat) :
    ∃ i g', g.add_name s = .ok (i, g') ∧ g.names.length ≤ g'.names.length ∧ g'.sources = g.sources := by
  unfold SourceMapBuilder.add_name
  dsimp only
  split
  · exact ⟨_, _, rfl, by simp only [List.length_append]; omega, rfl⟩
  · exact ⟨_, _, rfl, Nat.le_refl _, rfl⟩

theorem gen_add_with_id_total (g : SourceMapBuilder) (dl dc sl sc : Nat) (source : Option (List Nat)) (sid : Nat)
    (name : Option (List Nat)) (rng : Bool) :
    ∃ raw g', g.add_with_id dl dc sl sc source sid name rng = .ok (raw, g') ∧
      g.sources.length ≤ g'.sources.length ∧ g.names.length ≤ g'.names.length := by
  cases source with
  | none =>
    cases name with
    | none => exact ⟨_, _, rfl, Nat.le_refl _, Nat.le_refl _⟩
    | some n =>
      obtain ⟨i2, g2, e2, m2, k2⟩ := gen_add_name_total g n
      unfold SourceMapBuilder.add_with_id
      simp only [e2]
      exact ⟨_, _, rfl, by rw [k2]; exact Nat.le_refl _, m2⟩
  | some s =>
    obtain ⟨i1, g1, e1, m1, k1⟩ := gen_add_source_with_id_total g s sid
    cases name with
    | none =>
      unfold SourceMapBuilder.add_with_id
      simp only [e1]
      exact ⟨_, _, rfl, m1, by rw [k1]; exact Nat.le_refl _⟩
    | some n =>
      obtain ⟨i2, g2, e2, m2, k2⟩ := gen_add_name_total g1 n
      unfold SourceMapBuilder.add_with_id
      simp only [e1, e2]
      exact ⟨_, _, rfl, by rw [k2]; exact m1, by rw [k1] at m2; exact m2⟩

theorem gen_set_source_contents_frame (g g' : SourceMapBuilder) (i : Nat) (v : Option (List Nat))
    (h : g.set_source_contents i v = .ok g') : g'.sources = g.sources ∧ g'.names = g.names := by
  unfold SourceMapBuilder.set_source_contents at h
  dsimp only at h
  split at h
  · simp only [↓reduceIte, reduceCtorEq] at h
  · split at h <;> split at h <;>
      first
        | (simp only [reduceCtorEq] at h; done)
        | (simp only [Except.ok.injEq] at h; subst h; exact ⟨rfl, rfl⟩)

theorem stepG_mono (g : SourceMapBuilder) (op : BldOp) (g' : SourceMapBuilder) (o : BOut)
    (h : stepG g op = .ok (g', o)) :
    g.sources.length ≤ g'.sources.length ∧ g.names.length ≤ g'.names.length := by
  cases op with
  | addSource s =>
    obtain ⟨i1, g1, e1, m1, k1⟩ := gen_add_source_with_id_total g s 4294967295
    simp only [stepG, SourceMapBuilder.add_source, e1, Except.ok.injEq, Prod.mk.injEq] at h
    obtain ⟨rfl, _⟩ := h
    exact ⟨m1, by rw [k1]; exact Nat.le_refl _⟩
  | addName s =>
    obtain ⟨i1, g1, e1, m1, k1⟩ := gen_add_name_total g s
    simp only [stepG, e1, Except.ok.injEq, Prod.mk.injEq] at h
    obtain ⟨rfl, _⟩ := h
    exact ⟨by rw [k1]; exact Nat.le_refl _, m1⟩
  | add dl dc sl sc src name rng =>
    obtain ⟨raw, g1, e1, m1, m2⟩ := gen_add_with_id_total g dl dc sl sc src 4294967295 name rng
    simp only [stepG, SourceMapBuilder.add, e1, Except.ok.injEq, Prod.mk.injEq] at h
    obtain ⟨rfl, _⟩ := h
    exact ⟨m1, m2⟩
  | addRaw dl dc sl sc src name rng =>
    simp only [stepG, SourceMapBuilder.add_raw, Except.ok.injEq, Prod.mk.injEq] at h
    obtain ⟨rfl, _⟩ := h
    exact ⟨Nat.le_refl _, Nat.le_refl _⟩
  | setSourceContents i v =>
    simp only [stepG] at h
    cases hm : g.set_source_contents i v with
    | error e => simp only [hm, reduceCtorEq] at h
    | ok g1 =>
      simp only [hm, Except.ok.injEq, Prod.mk.injEq] at h
      obtain ⟨rfl, _⟩ := h
      obtain ⟨k1, k2⟩ := gen_set_source_contents_frame g g1 i v hm
      exact ⟨by rw [k1]; exact Nat.le_refl _, by rw [k2]; exact Nat.le_refl _⟩
  | addToIgnoreList _ | setSourceRoot _ | setFile _ | setDebugId _ | getSource _ =>
    simp only [stepG, SourceMapBuilder.get_source, SourceMapBuilder.add_to_ignore_list,
      SourceMapBuilder.set_source_root, SourceMapBuilder.set_file, SourceMapBuilder.set_debug_id, Except.ok.injEq,
      Prod.mk.injEq] at h
    obtain ⟨rfl, _⟩ := h
    exact ⟨Nat.le_refl _, Nat.le_refl _⟩

theorem runG_mono : ∀ (ops : List BldOp) (g g' : SourceMapBuilder) (outs : List BOut),
    runG g ops = .ok (g', outs) → g.sources.length ≤ g'.sources.length ∧ g.names.length ≤ g'.names.length
  | [], g, g', outs, h => by
    simp only [runG, Except.ok.injEq, Prod.mk.injEq] at h
    obtain ⟨rfl, _⟩ := h
    exact ⟨Nat.le_refl _, Nat.le_refl _⟩
  | op :: ops, g, g', outs, h => by
    obtain ⟨g1, o, os, h1, h2, _⟩ := runG_cons_ok h
    obtain ⟨m1, m2⟩ := stepG_mono g op g1 o h1
    obtain ⟨n1, n2⟩ := runG_mono ops g1 g' os h2
    exact ⟨Nat.le_trans m1 n1, Nat.le_trans m2 n2⟩

/-- **any sequence of calls, from the generated side.**  If the generated builder completes the sequence and its
final state has fewer than `2^32` sources and names, the model completes it with the same observations, and the
final states are related. -/
theorem tie_run_gen : ∀ (ops : List BldOp) (g : SourceMapBuilder) (b : Bld), BRel g b →
    ∀ (g' : SourceMapBuilder) (outs : List BOut), runG g ops = .ok (g', outs) → SmallG g' →
    ∃ b', b.run (ops.map BldOp.toBOp) = .ok (b', outs) ∧ BRel g' b'
  | [], g, b, h, g', outs, hr, _ => by
    simp only [runG, Except.ok.injEq, Prod.mk.injEq] at hr
    obtain ⟨rfl, rfl⟩ := hr
    exact ⟨b, rfl, h⟩
  | op :: ops, g, b, h, g', outs, hr, hs => by
    obtain ⟨g1, o, os, h1, h2, h3⟩ := runG_cons_ok hr
    obtain ⟨m1, m2⟩ := stepG_mono g op g1 o h1
    obtain ⟨n1, n2⟩ := runG_mono ops g1 g' os h2
    have hsg : SmallG g := ⟨by have := hs.1; omega, by have := hs.2; omega⟩
    obtain ⟨sok, serr⟩ := tie_step g b h (h.small.1 hsg) op
    cases hm : b.step op.toBOp with
    | error e =>
      rw [serr e hm] at h1
      simp only [reduceCtorEq] at h1
    | ok r =>
      obtain ⟨b1, o'⟩ := r
      obtain ⟨g1', e1, r1⟩ := sok b1 o' hm
      rw [e1] at h1
      simp only [Except.ok.injEq, Prod.mk.injEq] at h1
      obtain ⟨rfl, rfl⟩ := h1
      obtain ⟨b', e2, r2⟩ := tie_run_gen ops g1' b1 r1 g' os h2 hs
      exact ⟨b', by simp only [List.map_cons, Bld.run, hm, e2, h3], r2⟩

/-! ### C13 about the generated functions -/

open SmVerif.C13 in
/-- **`c13_abs_add_source` on the generated `add_source`**: from a state satisfying the builder invariant, with
fewer than `2^32` sources, the generated function returns the index of the first occurrence of the string (the next
unused id for a new one), the sources are updated by append-if-new, the names are untouched, the invariant is
kept. -/
theorem gen_c13_abs_add_source (g : SourceMapBuilder) (h : Inv (toBld g)) (hs : g.sources.length < 4294967296)
    (s : List Nat) :
    ∃ g', g.add_source s = .ok (internId g.sources s, g') ∧ g'.sources = intern g.sources s ∧
      g'.names = g.names ∧ Inv (toBld g') := by
  obtain ⟨g', e, r⟩ := tie_add_source g (toBld g) (brel_toBld g) hs s
  obtain ⟨h1, h2, h3, h4⟩ := c13_abs_add_source (toBld g) h s
  have hb := r.eq_toBld
  rw [h1] at e
  rw [hb] at h2 h3 h4
  exact ⟨g', e, h2, h3, h4⟩

open SmVerif.C13 in
/-- **`c13_abs_add_name` on the generated `add_name`.** -/
theorem gen_c13_abs_add_name (g : SourceMapBuilder) (h : Inv (toBld g)) (hn : g.names.length < 4294967296)
    (s : List Nat) :
    ∃ g', g.add_name s = .ok (internId g.names s, g') ∧ g'.names = intern g.names s ∧
      g'.sources = g.sources ∧ Inv (toBld g') := by
  obtain ⟨g', e, r⟩ := tie_add_name g (toBld g) (brel_toBld g) hn s
  obtain ⟨h1, h2, h3, h4⟩ := c13_abs_add_name (toBld g) h s
  have hb := r.eq_toBld
  rw [h1] at e
  rw [hb] at h2 h3 h4
  exact ⟨g', e, h2, h3, h4⟩

/-- a completed run of the generated builder from `new()` is a run of the model from `Bld.new none`, ending in
the converted state -/
theorem runG_model (ops : List BldOp) (g : SourceMapBuilder) (outs : List BOut)
    (h : runG emptyG ops = .ok (g, outs)) (hs : SmallG g) :
    (Bld.new none).run (ops.map BldOp.toBOp) = .ok (toBld g, outs) := by
  obtain ⟨b', hrun, r⟩ := tie_run_gen ops emptyG (Bld.new none) brel_emptyG g outs h hs
  have hb : b' = toBld g := r.eq_toBld
  rw [hb] at hrun
  exact hrun

open SmVerif.C13 in
/-- **`c13_inv_reachable` on the generated builder**: every state the generated functions reach from `new()`
(with fewer than `2^32` sources and names) satisfies the builder invariant. -/
theorem gen_c13_inv_reachable (ops : List BldOp) (g : SourceMapBuilder) (outs : List BOut)
    (h : runG emptyG ops = .ok (g, outs)) (hs : SmallG g) : Inv (toBld g) :=
  c13_inv_reachable none _ _ _ (runG_model ops g outs h hs)

open SmVerif.C13 in
/-- **`c13_builder_refines` on the generated builder**: a completed sequence of generated calls is a run of the
abstract interning model with the same results, and the map `into_sourcemap` (model) makes of the final state shows
what the abstract model's `finish` says. -/
theorem gen_c13_builder_refines (ops : List BldOp) (g : SourceMapBuilder) (outs : List BOut)
    (h : runG emptyG ops = .ok (g, outs)) (hs : SmallG g) :
    ∃ a, ({ file := none } : ABld).run (ops.map BldOp.toBOp) = some (a, outs) ∧
      (toBld g).intoSourcemap.view = a.finish :=
  c13_builder_refines none _ _ _ (runG_model ops g outs h hs) (Nat.le_of_lt_succ hs.1) (Nat.le_of_lt_succ hs.2)

open SmVerif.C13 in
/-- **`c13_token_resolves` on the generated builder**: for every sequence of generated calls from `new()` and every
`add` among them, the final state holds a `RawToken` with the given coordinates whose ids are the ones `add`
returned, and in the finished map (`into_sourcemap` of the model, on the converted state) that token's source reads as
the string it was added with, joined with the final `source_root` by the documented rule, and its name as the string
it was added with. -/
theorem gen_c13_token_resolves (ops : List BldOp) (g : SourceMapBuilder) (outs : List BOut)
    (h : runG emptyG ops = .ok (g, outs))
    (hs : g.sources.length < 4294967296) (hn : g.names.length < 4294967296)
    (k dl dc sl sc : Nat) (src name : Option (List Nat)) (rng : Bool)
    (hk : ops[k]? = some (.add dl dc sl sc src name rng)) :
    ∃ raw ∈ g.tokens, raw.dst_line = dl ∧ raw.dst_col = dc ∧ raw.src_line = sl ∧ raw.src_col = sc ∧
      raw.is_range = rng ∧ outs[k]? = some (.tok raw.src_id raw.name_id) ∧
      toTok raw ∈ (toBld g).intoSourcemap.tokens ∧
      (toBld g).intoSourcemap.tokSource (toTok raw) = src.map (join g.source_root) ∧
      (toBld g).intoSourcemap.tokName (toTok raw) = name := by
  have hrun := runG_model ops g outs h ⟨hs, hn⟩
  have hk' : (ops.map BldOp.toBOp)[k]? = some (.add dl dc sl sc src name rng) := by
    rw [List.getElem?_map, hk]; rfl
  obtain ⟨t, ht, h1, h2, h3, h4, h5, h6, h7, h8⟩ :=
    c13_token_resolves none _ _ _ hrun (Nat.le_of_lt_succ hs) (Nat.le_of_lt_succ hn) k dl dc sl sc src name rng hk'
  have hI := c13_inv_reachable none _ _ _ hrun
  have ht' := ht
  rw [(c13_into_sourcemap_fields (toBld g) hI).2.2.2.2.2.2.2.2.1] at ht'
  unfold Lookup.sortToks at ht'
  have hm : t ∈ g.tokens.map toTok := (List.mergeSort_perm _ _).mem_iff.1 ht'
  obtain ⟨raw, hraw, rfl⟩ := List.mem_map.1 hm
  exact ⟨raw, hraw, h1, h2, h3, h4, h5, h6, ht, h7, h8⟩

/-! ### non-vacuity: concrete values meeting the hypotheses -/

/-- "a", "b", "a" again, a token on ("/abs", name "n"), contents for source 1, a raw token, a read -/
def exOpsG : List BldOp :=
  [.addSource [97], .addSource [98], .addSource [97], .add 0 3 1 2 (some [47, 97, 98, 115]) (some [110]) false,
   .setSourceContents 1 (some [120]), .addRaw 1 0 0 0 (some 1) none true, .getSource 0]

/-- the state the generated functions reach on `exOpsG` -/
def exG : SourceMapBuilder :=
  { (default : SourceMapBuilder) with
    name_map := [([110], 0)], names := [[110]],
    tokens := [⟨0, 3, 1, 2, 2, 0, false⟩, ⟨1, 0, 0, 0, 1, 4294967295, true⟩],
    source_map := [([97], 0), ([98], 1), ([47, 97, 98, 115], 2)], sources := [[97], [98], [47, 97, 98, 115]],
    source_contents := [none, some [120], none], sources_mapping := [4294967295, 4294967295, 4294967295] }

example : runG emptyG exOpsG = .ok (exG, [.id 0, .id 1, .id 0, .tok 2 0, .unit, .tok 1 4294967295, .str (some [97])]) :=
  rfl
example : (Bld.new none).run (exOpsG.map BldOp.toBOp) =
    .ok (toBld exG, [.id 0, .id 1, .id 0, .tok 2 0, .unit, .tok 1 4294967295, .str (some [97])]) := rfl
example : SmallG exG := by decide
example : SmallB (toBld exG) := by decide
example : BRel exG (toBld exG) := rfl
example : BRel { exG with file := some [102], source_root := some [114], ignore_list := [1], debug_id := some 3 }
    { toBld exG with file := some [102], root := some [114], ignore := [1], debugId := some [100, 100, 100] } := rfl
example : C13.Inv (toBld exG) := gen_c13_inv_reachable exOpsG exG _ rfl (by decide)
-- the hypotheses of `tie_add_with_id` / `tie_add`
example : ((some [97] : Option (List Nat)) ≠ none → exG.sources.length < 4294967296) ∧
    ((none : Option (List Nat)) ≠ none → exG.names.length < 4294967296) := ⟨fun _ => by decide, fun h => absurd rfl h⟩
-- the documented panics, on both sides
example : runG emptyG [.addSource [97], .setSourceContents 1 none] = .error .panic := rfl
example : (Bld.new none).run ([BldOp.addSource [97], .setSourceContents 1 none].map BldOp.toBOp) = .error .panic := rfl
example : SmallAlong (Bld.new none) ([BldOp.addSource [97], .setSourceContents 1 none].map BldOp.toBOp) :=
  ⟨by decide, fun b1 o h => by
    have hb : b1 = ((Bld.new none).addSource [97]).1 := by
      simp only [BldOp.toBOp, Bld.step, Except.ok.injEq, Prod.mk.injEq] at h
      exact h.1.symm
    subst hb
    refine ⟨by decide, fun b2 o2 h2 => ?_⟩
    have e : (((Bld.new none).addSource [97]).1).setSourceContents 1 none = .error .panic := rfl
    simp only [BldOp.toBOp, Bld.step, e, reduceCtorEq] at h2⟩
example : exG.set_source 4294967295 [120] = .error .panic ∧ (toBld exG).setSource 4294967295 [120] = .error .panic ∧
    exG.set_source 3 [120] = .error .panic ∧ (toBld exG).setSource 3 [120] = .error .panic ∧
    exG.set_source_contents 4294967295 none = .error .panic ∧
    (toBld exG).setSourceContents 4294967295 none = .error .panic ∧
    exG.set_source_contents 3 none = .error .panic ∧ (toBld exG).setSourceContents 3 none = .error .panic :=
  ⟨rfl, rfl, rfl, rfl, rfl, rfl, rfl, rfl⟩
example : ∃ g', exG.set_source 1 [120] = .ok g' ∧ BRel g' { toBld exG with sources := [[97], [120], [47, 97, 98, 115]] } :=
  ⟨_, rfl, rfl⟩

-- the run theorems and the C13 corollaries at the example
example : ∃ g', runG emptyG exOpsG = .ok (g', [.id 0, .id 1, .id 0, .tok 2 0, .unit, .tok 1 4294967295, .str (some [97])]) ∧
    BRel g' (toBld exG) :=
  have ⟨g', h, r⟩ := tie_run exOpsG emptyG (Bld.new none) brel_emptyG (toBld exG) _ rfl (by decide)
  ⟨g', h, r⟩
example : ∃ raw ∈ exG.tokens, raw.dst_line = 0 ∧ raw.dst_col = 3 ∧ raw.src_line = 1 ∧ raw.src_col = 2 ∧
    raw.is_range = false ∧
    [BOut.id 0, .id 1, .id 0, .tok 2 0, .unit, .tok 1 4294967295, .str (some [97])][3]? =
      some (.tok raw.src_id raw.name_id) ∧
    toTok raw ∈ (toBld exG).intoSourcemap.tokens ∧
    (toBld exG).intoSourcemap.tokSource (toTok raw) = some [47, 97, 98, 115] ∧
    (toBld exG).intoSourcemap.tokName (toTok raw) = some [110] :=
  gen_c13_token_resolves exOpsG exG _ rfl (by decide) (by decide) 3 0 3 1 2 _ _ _ rfl
example : ∃ g', exG.add_source [98] = .ok (1, g') ∧ g'.sources = exG.sources :=
  have ⟨g', h1, h2, _, _⟩ := gen_c13_abs_add_source exG (gen_c13_inv_reachable exOpsG exG _ rfl (by decide))
    (by decide) [98]
  ⟨g', h1, h2⟩

-- the calls on `file`, `source_root`, `ignore_list`, `debug_id`: a run with all of them, on both sides
def exOpsG2 : List BldOp :=
  [.setFile (some [102]), .addSource [97], .add 0 0 0 0 (some [98]) none false, .addToIgnoreList 1, .addToIgnoreList 0,
   .addToIgnoreList 1, .setSourceRoot (some [114, 47]), .setDebugId (some 2)]

def exG2 : SourceMapBuilder :=
  { (default : SourceMapBuilder) with
    file := some [102], tokens := [⟨0, 0, 0, 0, 1, 4294967295, false⟩], source_map := [([97], 0), ([98], 1)],
    sources := [[97], [98]], sources_mapping := [4294967295, 4294967295], source_root := some [114, 47],
    ignore_list := [0, 1], debug_id := some 2 }

example : runG emptyG exOpsG2 = .ok (exG2, [.unit, .id 0, .tok 1 4294967295, .unit, .unit, .unit, .unit, .unit]) := rfl
example : (Bld.new none).run (exOpsG2.map BldOp.toBOp) =
    .ok (toBld exG2, [.unit, .id 0, .tok 1 4294967295, .unit, .unit, .unit, .unit, .unit]) := rfl
example : (toBld exG2).debugId = some [100, 100] ∧ (toBld exG2).ignore = [0, 1] ∧ (toBld exG2).root = some [114, 47] :=
  ⟨rfl, rfl, rfl⟩
-- the source of the token reads through the final root ("r/" + "b")
example : ∃ raw ∈ exG2.tokens, (toBld exG2).intoSourcemap.tokSource (toTok raw) = some [114, 47, 98] :=
  have ⟨raw, hm, _, _, _, _, _, _, _, h7, _⟩ :=
    gen_c13_token_resolves exOpsG2 exG2 _ rfl (by decide) (by decide) 2 0 0 0 0 (some [98]) none false rfl
  ⟨raw, hm, h7⟩
-- the two set inserts agree on a list that is neither sorted nor duplicate-free
example : rsSetInsert [5, 3, 5, 9] 6 = [5, 3, 5, 6, 9] ∧ SMap.insertSorted 6 [5, 3, 5, 9] = [5, 3, 5, 6, 9] := ⟨rfl, rfl⟩
example : ∃ g', exG2.add_to_ignore_list 0 = .ok g' ∧ g'.ignore_list = [0, 1] := ⟨_, rfl, rfl⟩
example : exG2.get_file = .ok (some [102]) ∧ exG2.get_source_root = .ok (some [114, 47]) := ⟨rfl, rfl⟩

#print axioms tie_new
#print axioms tie_set_debug_id
#print axioms tie_set_file
#print axioms tie_get_file
#print axioms tie_set_source_root
#print axioms tie_get_source_root
#print axioms tie_add_to_ignore_list
#print axioms rsSetInsert_eq_insertSorted
#print axioms tie_add_source_with_id
#print axioms tie_add_source
#print axioms tie_add_name
#print axioms tie_add_with_id
#print axioms tie_add
#print axioms tie_add_raw
#print axioms tie_set_source
#print axioms tie_set_source_contents
#print axioms tie_get_source
#print axioms tie_get_source_contents
#print axioms tie_has_source_contents
#print axioms tie_take_mapping
#print axioms add_source_with_id_truncation
#print axioms tie_step
#print axioms tie_run_along
#print axioms tie_run
#print axioms tie_run_error
#print axioms tie_run_gen
#print axioms gen_c13_abs_add_source
#print axioms gen_c13_abs_add_name
#print axioms gen_c13_inv_reachable
#print axioms gen_c13_builder_refines
#print axioms gen_c13_token_resolves
#print axioms brel_iff
#print axioms dbgEnc_injective
#print axioms BRel.unique

end SmVerif.Tie
