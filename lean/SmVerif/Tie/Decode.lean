import SmVerif.Generated.RsDecodeTokens
import SmVerif.Model.Mappings
import SmVerif.Proofs.HermesVlq
import SmVerif.Proofs.Decode
import SmVerif.Tie.Vlq
import SmVerif.Tie.PreludeLemmas4
/-
Tie unit "Decode": `decode_rmi` and the token loop of `decode_regular` (src/decoder.rs, generated as
`SmVerif/Generated/RsDecodeTokens.lean`) compute the same as the hand-written model
`SmVerif/Model/Mappings.lean` (`decodeRmi`, `decodeSeg`, `decodeSegs`, `decodeLines`, `decodeMappings`).
-/
set_option linter.unusedSimpArgs false
namespace SmVerif.Tie.Decode
open SmVerif SmVerif.Rs SmVerif.Vlq SmVerif.Mappings
open SmVerif.Gen.RsDecodeTokens SmVerif.Gen.RsTypes

/-! ### `str::split` -/

theorem tie_splitOn (c : Nat) (s : List Nat) : Rs.rsSplitOn c s = Mappings.splitOn c s := by
  induction s with
  | nil => rfl
  | cons x xs ih =>
    simp only [rsSplitOn, splitOn, ih]
    by_cases h : x = c
    · simp only [h, ↓reduceIte]
    · simp only [h, ↓reduceIte]
      cases splitOn c xs <;> rfl

/-! ### `decode_rmi` -/

/-- one round of the `for (idx, &byte) in rmi_str.as_bytes().iter().enumerate()` loop: the five arms of the
`match byte` are the model's `rmiVal`; the `usize` products cannot overflow when `6 * (idx + 1)` fits -/
theorem rmi_loop1_cons (idx b : Nat) (rest : List (Nat × Nat)) (val : List Bool)
    (hidx : 6 * (idx + 1) ≤ 18446744073709551615) :
    decode_rmi.loop1 ((idx, b) :: rest) val =
      (match rmiVal b with
       | none => .error .b64
       | some v =>
         match rsStoreLe val (6 * idx) (6 * (idx + 1)) v with
         | .error e => .error e
         | .ok val => decode_rmi.loop1 rest val) := by
  have h1 : 6 * idx ≤ 18446744073709551615 := by omega
  have h2 : idx + 1 ≤ 18446744073709551615 := by omega
  by_cases hA : 65 ≤ b ∧ b ≤ 90
  · have hA' : 65 ≤ b := hA.1
    simp only [decode_rmi.loop1, rmiVal, hA, hA', h1, h2, hidx, and_self, ↓reduceIte]
    generalize rsStoreLe _ _ _ _ = r; cases r <;> rfl
  · by_cases hB : 97 ≤ b ∧ b ≤ 122
    · have hB' : 97 ≤ b := hB.1
      have hB'' : b - 97 + 26 ≤ 255 := by omega
      simp only [decode_rmi.loop1, rmiVal, hA, hB, hB', hB'', h1, h2, hidx, and_self, ↓reduceIte]
      generalize rsStoreLe _ _ _ _ = r; cases r <;> rfl
    · by_cases hC : 48 ≤ b ∧ b ≤ 57
      · have hC' : 48 ≤ b := hC.1
        have hC'' : b - 48 + 52 ≤ 255 := by omega
        simp only [decode_rmi.loop1, rmiVal, hA, hB, hC, hC', hC'', h1, h2, hidx, and_self, ↓reduceIte]
        generalize rsStoreLe _ _ _ _ = r; cases r <;> rfl
      · by_cases hD : b = 43
        · simp only [decode_rmi.loop1, rmiVal, hA, hB, hC, eq_true hD, h1, h2, hidx, and_self, ↓reduceIte]
          generalize rsStoreLe _ _ _ _ = r; cases r <;> rfl
        · by_cases hE : b = 47
          · simp only [decode_rmi.loop1, rmiVal, hA, hB, hC, hD, eq_true hE, h1, h2, hidx, and_self, ↓reduceIte]
            generalize rsStoreLe _ _ _ _ = r; cases r <;> rfl
          · simp only [decode_rmi.loop1, rmiVal, hA, hB, hC, hD, hE, ↓reduceIte]

theorem bits6_eq (v : Nat) : (List.range 6).map (fun i => v.testBit i) = bits6 v := range6_testBit v

/-- the loop of `decode_rmi` over the bytes from position `n` on: the `n` groups already written (`pre`) are
kept, whatever the rest of the buffer holds (only its length matters) is overwritten group by group -/
theorem rmi_loop1_eq : ∀ (s : List Nat) (n : Nat) (pre rest : List Bool),
    pre.length = 6 * n → rest.length = 6 * s.length → 6 * (n + s.length) ≤ 18446744073709551615 →
    decode_rmi.loop1 (enumFrom n s) (pre ++ rest) =
      (match decodeRmi s with
       | some bits => .ok (pre ++ bits)
       | none => .error .b64) := by
  intro s
  induction s with
  | nil =>
    intro n pre rest _ hrest _
    have : rest = [] := List.eq_nil_of_length_eq_zero (by simpa using hrest)
    subst this
    simp only [enumFrom, decode_rmi.loop1, decodeRmi]
  | cons b bs ih =>
    intro n pre rest hpre hrest hn
    simp only [List.length_cons] at hrest hn
    have hstep : enumFrom n (b :: bs) = (n, b) :: enumFrom (n + 1) bs := rfl
    rw [hstep, rmi_loop1_cons n b _ _ (by omega), decodeRmi]
    cases hv : rmiVal b with
    | none => rfl
    | some v =>
      simp only
      rw [rsStoreLe_group6 pre rest n v hpre (by omega)]
      simp only
      rw [ih (n + 1) (pre ++ (List.range 6).map (fun i => v.testBit i)) (rest.drop 6)
        (by simp only [List.length_append, List.length_map, List.length_range]; omega)
        (by simp only [List.length_drop]; omega) (by omega)]
      cases decodeRmi bs with
      | none => rfl
      | some bits =>
        simp only [Option.map_some, bits6_eq, List.append_assoc]

/-- **`decode_rmi` is the model's `decodeRmi`**, whatever the reused buffer held before.  The one hypothesis
beyond the Rust types is that `6 * len` fits a `usize` (the code computes `rmi_str.len() * 6`); the bytes need
not even be bytes. -/
theorem tie_decode_rmi' (s : List Nat) (old : List Bool) (hlen : s.length * 6 ≤ 18446744073709551615) :
    Gen.RsDecodeTokens.decode_rmi s old =
      (match Mappings.decodeRmi s with
       | some bits => .ok bits
       | none => .error .b64) := by
  simp only [decode_rmi, hlen, ↓reduceIte, rsResize_nil, rsEnumerate]
  have h := rmi_loop1_eq s 0 [] (List.replicate (s.length * 6) false) rfl
    (by simp only [List.length_replicate]; omega) (by omega)
  rw [List.nil_append] at h
  rw [h]
  cases decodeRmi s <;> rfl

theorem tie_decode_rmi (s : List Nat) (old : List Bool) (_hs : ∀ c ∈ s, c < 256)
    (hlen : s.length * 6 ≤ 18446744073709551615) :
    Gen.RsDecodeTokens.decode_rmi s old =
      (match Mappings.decodeRmi s with
       | some bits => .ok bits
       | none => .error .b64) :=
  tie_decode_rmi' s old hlen

/-- the size hypothesis is needed: the generated code panics on the multiplication, the model does not -/
theorem tie_decode_rmi_panics (s : List Nat) (old : List Bool) (hlen : ¬ s.length * 6 ≤ 18446744073709551615) :
    Gen.RsDecodeTokens.decode_rmi s old = .error .panic := by
  simp only [decode_rmi, hlen, ↓reduceIte]

-- "lB/" with a dirty buffer
example : ∀ c ∈ [108, 66, 47], c < 256 := by decide
example : [108, 66, 47].length * 6 ≤ 18446744073709551615 := by decide
example : Gen.RsDecodeTokens.decode_rmi [108, 66, 47] [true, true, true] =
    .ok [true, false, true, false, false, true, true, false, false, false, false, false,
         true, true, true, true, true, true] := by
  rw [tie_decode_rmi _ _ (by decide) (by decide)]; rfl
example : Gen.RsDecodeTokens.decode_rmi [65, 33] [] = .error .b64 := by
  rw [tie_decode_rmi _ _ (by decide) (by decide)]; rfl

/-! ### the token loop: one segment -/

/-- field by field -/
def toTok (t : RawToken) : Tok :=
  { dl := t.dst_line, dc := t.dst_col, sl := t.src_line, sc := t.src_col, src := t.src_id, name := t.name_id,
    rng := t.is_range }

def ofTok (t : Tok) : RawToken :=
  { dst_line := t.dl, dst_col := t.dc, src_line := t.sl, src_col := t.sc, src_id := t.src, name_id := t.name,
    is_range := t.rng }

theorem toTok_ofTok (t : Tok) : toTok (ofTok t) = t := rfl
theorem ofTok_toTok (t : RawToken) : ofTok (toTok t) = t := rfl

theorem parse_into_nil (seg : List Nat) (hb : ∀ c ∈ seg, c < 256) :
    Gen.RsVlq.parse_vlq_segment_into seg [] = parseVlq seg := by
  rw [Tie.Vlq.tie_parse_vlq_segment_into seg hb []]; rfl

/-- `i64::from(x) + v` for a `u32` `x` and a parsed VLQ value `v` (magnitude ≤ 2^62) stays inside `i64` -/
theorem add_in_i64 (a : Nat) (v : Int) (ha : a < 4294967296) (hv : Hermes.Bnd v) :
    -9223372036854775808 ≤ (a : Int) + v ∧ (a : Int) + v ≤ 9223372036854775807 := by
  unfold Hermes.Bnd at hv
  omega

/-- an index that passed the `< 0 || >= len` test is unchanged by `as u32` when `len ≤ 2^32` -/
theorem wrapU32_idx (a n : Nat) (v : Int) (h : ¬ ((a : Int) + v < 0 ∨ (a : Int) + v ≥ (n : Int)))
    (hn : n ≤ 4294967296) : wrapU32 ((a : Int) + v) = ((a : Int) + v).toNat :=
  wrapU32_of_lt (by omega) (by omega)

/-- … and is not the `!0` sentinel when `len < 2^32` -/
theorem idx_ne_none (a n : Nat) (v : Int) (h : ¬ ((a : Int) + v < 0 ∨ (a : Int) + v ≥ (n : Int)))
    (hn : n < 4294967296) : ¬ (((a : Int) + v).toNat = 4294967295) := by
  omega

theorem loop2_cons_ne (sources names : List Unit) (rmi : List Bool) (dl i : Nat) (seg : List Nat)
    (rest : List (Nat × List Nat)) (nums : List Int) (dc src sl sc nm : Nat) (tokens : List RawToken)
    (hseg : seg ≠ []) (hb : ∀ c ∈ seg, c < 256)
    (hsrcs : sources.length < 4294967296) (hnames : names.length ≤ 4294967296)
    (hdc : dc < 4294967296) (hsrc : src < 4294967296) (hsl : sl < 4294967296) (hsc : sc < 4294967296)
    (hnm : nm < 4294967296) :
    decode_regular_tokens.loop2 sources names rmi dl ((i, seg) :: rest) nums dc src sl sc nm tokens =
      (match parseVlq seg with
       | .error e => .error e
       | .ok nums' =>
         match decodeSeg sources.length names.length (dl % 4294967296) rmi i dc ⟨src, sl, sc, nm⟩ nums' with
         | .error e => .error e
         | .ok (t, dc', st') =>
           decode_regular_tokens.loop2 sources names rmi dl rest nums' dc' st'.src st'.sl st'.sc st'.name
             (tokens ++ [ofTok t])) := by
  simp only [decode_regular_tokens.loop2, hseg, ↓reduceIte, parse_into_nil seg hb]
  cases hp : parseVlq seg with
  | error e => rfl
  | ok nums' =>
    obtain ⟨hne, hbnd⟩ := Hermes.parseVlq_ok_bnd hp
    simp only
    have hws : wrapS 64 ((sources.length : Nat) : Int) = (sources.length : Int) :=
      wrapS64_natCast _ (by have : (2 : Nat) ^ 63 = 9223372036854775808 := rfl; omega)
    have hwn : wrapS 64 ((names.length : Nat) : Int) = (names.length : Int) :=
      wrapS64_natCast _ (by have : (2 : Nat) ^ 63 = 9223372036854775808 := rfl; omega)
    rcases nums' with _ | ⟨n0, _ | ⟨n1, _ | ⟨n2, _ | ⟨n3, _ | ⟨n4, _ | ⟨n5, r⟩⟩⟩⟩⟩⟩
    · exact absurd rfl hne
    · -- one field
      have h0 := hbnd n0 (by simp)
      have hr0 := add_in_i64 dc n0 hdc h0
      have hlen : ([n0] : List Int).length = 1 := rfl
      simp only [rsIndex, List.getElem?_cons_zero, hr0, and_self, ↓reduceIte, hlen, gt_iff_lt, Nat.lt_irrefl,
        Decode.decodeSeg_one, toU32_eq_wrapU32, getElem?_map_id_getD]
      rfl
    · -- two fields
      have h0 := hbnd n0 (by simp)
      have hr0 := add_in_i64 dc n0 hdc h0
      have hlen : ([n0, n1] : List Int).length = 2 := rfl
      have c1 : 2 > 1 := by decide
      have c2 : 2 ≠ 4 ∧ 2 ≠ 5 := by decide
      simp only [rsIndex, List.getElem?_cons_zero, hr0, and_self, ↓reduceIte, hlen, c1, eq_true c2,
        Decode.decodeSeg_two]
    · -- three fields
      have h0 := hbnd n0 (by simp)
      have hr0 := add_in_i64 dc n0 hdc h0
      have hlen : ([n0, n1, n2] : List Int).length = 3 := rfl
      have c1 : 3 > 1 := by decide
      have c2 : 3 ≠ 4 ∧ 3 ≠ 5 := by decide
      simp only [rsIndex, List.getElem?_cons_zero, hr0, and_self, ↓reduceIte, hlen, c1, eq_true c2,
        Decode.decodeSeg_three]
    · -- four fields
      have h0 := hbnd n0 (by simp)
      have h1 := hbnd n1 (by simp)
      have h2 := hbnd n2 (by simp)
      have h3 := hbnd n3 (by simp)
      have hr0 := add_in_i64 dc n0 hdc h0
      have hr1 := add_in_i64 src n1 hsrc h1
      have hr2 := add_in_i64 sl n2 hsl h2
      have hr3 := add_in_i64 sc n3 hsc h3
      have hlen : ([n0, n1, n2, n3] : List Int).length = 4 := rfl
      have c1 : 4 > 1 := by decide
      have c2 : ¬ (4 ≠ 4 ∧ 4 ≠ 5) := by decide
      have c3 : ¬ (4 > 4) := by decide
      simp only [rsIndex, List.getElem?_cons_zero, List.getElem?_cons_succ, hr0, hr1, hr2, hr3, and_self,
        ↓reduceIte, hlen, c1, eq_false c2, eq_false c3, hws]
      by_cases hs : (src : Int) + n1 < 0 ∨ (src : Int) + n1 ≥ (sources.length : Int)
      · simp only [hs, ↓reduceIte, Decode.decodeSeg_four_bad _ _ _ _ _ _ ⟨src, sl, sc, nm⟩ _ _ _ _ hs]
      · have hv : wrapU32 ((src : Int) + n1) = ((src : Int) + n1).toNat := wrapU32_idx _ _ _ hs (Nat.le_of_lt hsrcs)
        have hnn := idx_ne_none _ _ _ hs hsrcs
        simp only [hs, ↓reduceIte, Decode.decodeSeg_four _ _ _ _ _ _ ⟨src, sl, sc, nm⟩ _ _ _ _ hs,
          toU32_eq_wrapU32, hv, hnn, getElem?_map_id_getD]
        rfl
    · -- five fields
      have h0 := hbnd n0 (by simp)
      have h1 := hbnd n1 (by simp)
      have h2 := hbnd n2 (by simp)
      have h3 := hbnd n3 (by simp)
      have h4 := hbnd n4 (by simp)
      have hr0 := add_in_i64 dc n0 hdc h0
      have hr1 := add_in_i64 src n1 hsrc h1
      have hr2 := add_in_i64 sl n2 hsl h2
      have hr3 := add_in_i64 sc n3 hsc h3
      have hr4 := add_in_i64 nm n4 hnm h4
      have hlen : ([n0, n1, n2, n3, n4] : List Int).length = 5 := rfl
      have c1 : 5 > 1 := by decide
      have c2 : ¬ (5 ≠ 4 ∧ 5 ≠ 5) := by decide
      have c3 : 5 > 4 := by decide
      simp only [rsIndex, List.getElem?_cons_zero, List.getElem?_cons_succ, hr0, hr1, hr2, hr3, hr4, and_self,
        ↓reduceIte, hlen, c1, eq_false c2, eq_true c3, hws, hwn]
      by_cases hs : (src : Int) + n1 < 0 ∨ (src : Int) + n1 ≥ (sources.length : Int)
      · simp only [hs, ↓reduceIte, Decode.decodeSeg_five_bad_src _ _ _ _ _ _ ⟨src, sl, sc, nm⟩ _ _ _ _ _ hs]
      · by_cases hn : (nm : Int) + n4 < 0 ∨ (nm : Int) + n4 ≥ (names.length : Int)
        · simp only [hs, hn, ↓reduceIte,
            Decode.decodeSeg_five_bad_name _ _ _ _ _ _ ⟨src, sl, sc, nm⟩ _ _ _ _ _ hs hn]
        · have hv : wrapU32 ((src : Int) + n1) = ((src : Int) + n1).toNat := wrapU32_idx _ _ _ hs (Nat.le_of_lt hsrcs)
          have hnn := idx_ne_none _ _ _ hs hsrcs
          have hvn : wrapU32 ((nm : Int) + n4) = ((nm : Int) + n4).toNat := wrapU32_idx _ _ _ hn hnames
          simp only [hs, hn, ↓reduceIte, Decode.decodeSeg_five _ _ _ _ _ _ ⟨src, sl, sc, nm⟩ _ _ _ _ _ hs hn,
            toU32_eq_wrapU32, hv, hvn, hnn, getElem?_map_id_getD]
          rfl
    · -- six fields or more
      have h0 := hbnd n0 (by simp)
      have hr0 := add_in_i64 dc n0 hdc h0
      have c1 : (n0 :: n1 :: n2 :: n3 :: n4 :: n5 :: r).length > 1 := by
        simp only [List.length_cons]; omega
      have c2 : (n0 :: n1 :: n2 :: n3 :: n4 :: n5 :: r).length ≠ 4 ∧
          (n0 :: n1 :: n2 :: n3 :: n4 :: n5 :: r).length ≠ 5 := by
        simp only [List.length_cons]; omega
      simp only [rsIndex, List.getElem?_cons_zero, hr0, and_self, ↓reduceIte, c1, eq_true c2,
        Decode.decodeSeg_six]
/-- an empty segment (`,,`) is skipped; it still counts for the range-bit index -/
theorem loop2_cons_nil (sources names : List Unit) (rmi : List Bool) (dl i : Nat)
    (rest : List (Nat × List Nat)) (nums : List Int) (dc src sl sc nm : Nat) (tokens : List RawToken) :
    decode_regular_tokens.loop2 sources names rmi dl ((i, []) :: rest) nums dc src sl sc nm tokens =
      decode_regular_tokens.loop2 sources names rmi dl rest nums dc src sl sc nm tokens := by
  simp only [decode_regular_tokens.loop2, ↓reduceIte]

/-! ### the token loop: the segments of one line -/

/-- the running state stays `u32` -/
def StOk (st : DState) : Prop :=
  st.src < 4294967296 ∧ st.sl < 4294967296 ∧ st.sc < 4294967296 ∧ st.name < 4294967296

theorem decodeSeg_ok_bounds {nsrc nn dl : Nat} {bits : List Bool} {i dc : Nat} {st : DState}
    {nums : List Int} {t : Tok} {dc' : Nat} {st' : DState}
    (hns : nsrc ≤ 4294967296) (hnn : nn ≤ 4294967296) (hst : StOk st)
    (h : decodeSeg nsrc nn dl bits i dc st nums = .ok (t, dc', st')) : dc' < 4294967296 ∧ StOk st' := by
  obtain ⟨hs1, hs2, hs3, hs4⟩ := hst
  rcases nums with _ | ⟨n0, _ | ⟨n1, _ | ⟨n2, _ | ⟨n3, _ | ⟨n4, _ | ⟨n5, r⟩⟩⟩⟩⟩⟩
  · cases h
  · rw [Decode.decodeSeg_one] at h
    simp only [Except.ok.injEq, Prod.mk.injEq] at h
    obtain ⟨_, rfl, rfl⟩ := h
    exact ⟨wrapU32_lt_two_pow _, hs1, hs2, hs3, hs4⟩
  · cases h
  · cases h
  · by_cases hs : (st.src : Int) + n1 < 0 ∨ (st.src : Int) + n1 ≥ (nsrc : Int)
    · rw [Decode.decodeSeg_four_bad _ _ _ _ _ _ _ _ _ _ _ hs] at h; cases h
    · rw [Decode.decodeSeg_four _ _ _ _ _ _ _ _ _ _ _ hs] at h
      simp only [Except.ok.injEq, Prod.mk.injEq] at h
      obtain ⟨_, rfl, rfl⟩ := h
      refine ⟨wrapU32_lt_two_pow _, ?_, wrapU32_lt_two_pow _, wrapU32_lt_two_pow _, hs4⟩
      show ((st.src : Int) + n1).toNat < 4294967296
      omega
  · by_cases hs : (st.src : Int) + n1 < 0 ∨ (st.src : Int) + n1 ≥ (nsrc : Int)
    · rw [Decode.decodeSeg_five_bad_src _ _ _ _ _ _ _ _ _ _ _ _ hs] at h; cases h
    · by_cases hn : (st.name : Int) + n4 < 0 ∨ (st.name : Int) + n4 ≥ (nn : Int)
      · rw [Decode.decodeSeg_five_bad_name _ _ _ _ _ _ _ _ _ _ _ _ hs hn] at h; cases h
      · rw [Decode.decodeSeg_five _ _ _ _ _ _ _ _ _ _ _ _ hs hn] at h
        simp only [Except.ok.injEq, Prod.mk.injEq] at h
        obtain ⟨_, rfl, rfl⟩ := h
        refine ⟨wrapU32_lt_two_pow _, ?_, wrapU32_lt_two_pow _, wrapU32_lt_two_pow _, ?_⟩
        · show ((st.src : Int) + n1).toNat < 4294967296
          omega
        · show ((st.name : Int) + n4).toNat < 4294967296
          omega
  · cases h

/-- result of the generated segment loop against result of the model's: same error, or same running state
(which is again `u32`) and the same tokens (the model conses, the code pushes) -/
def Sim2 (g : Res (List Int × Nat × Nat × Nat × Nat × Nat × List RawToken)) (m : Res (DState × List Tok)) : Prop :=
  (∀ e, g = .error e → m = .error e) ∧
  (∀ nums dc src sl sc nm toks, g = .ok (nums, dc, src, sl, sc, nm, toks) →
    m = .ok (⟨src, sl, sc, nm⟩, (toks.map toTok).reverse) ∧ StOk ⟨src, sl, sc, nm⟩)

theorem sim2_error (e : Err) : Sim2 (.error e) (.error e) := by
  constructor
  · intro e' h; cases h; rfl
  · intro _ _ _ _ _ _ _ h; cases h

theorem loop2_sim (sources names : List Unit) (rmi : List Bool) (dl : Nat)
    (hsrcs : sources.length < 4294967296) (hnames : names.length ≤ 4294967296) :
    ∀ (segs : List (List Nat)) (i : Nat) (nums : List Int) (dc src sl sc nm : Nat) (tokens : List RawToken),
    (∀ seg ∈ segs, ∀ c ∈ seg, c < 256) → dc < 4294967296 → StOk ⟨src, sl, sc, nm⟩ →
    Sim2 (decode_regular_tokens.loop2 sources names rmi dl (enumFrom i segs) nums dc src sl sc nm tokens)
      (decodeSegs sources.length names.length (dl % 4294967296) rmi segs i dc ⟨src, sl, sc, nm⟩
        (tokens.map toTok).reverse) := by
  intro segs
  induction segs with
  | nil =>
    intro i nums dc src sl sc nm tokens _ _ hst
    simp only [enumFrom, decode_regular_tokens.loop2, decodeSegs]
    constructor
    · intro e h; cases h
    · intro _ _ _ _ _ _ _ h
      simp only [Except.ok.injEq, Prod.mk.injEq] at h
      obtain ⟨_, _, rfl, rfl, rfl, rfl, rfl⟩ := h
      exact ⟨rfl, hst⟩
  | cons seg segs ih =>
    intro i nums dc src sl sc nm tokens hb hdc hst
    have hb' : ∀ seg' ∈ segs, ∀ c ∈ seg', c < 256 := fun s' hs' => hb s' (List.mem_cons_of_mem _ hs')
    have hstep : enumFrom i (seg :: segs) = (i, seg) :: enumFrom (i + 1) segs := rfl
    rw [hstep, decodeSegs]
    by_cases hseg : seg = []
    · subst hseg
      rw [loop2_cons_nil]
      simp only [↓reduceIte]
      exact ih (i + 1) nums dc src sl sc nm tokens hb' hdc hst
    · obtain ⟨h1, h2, h3, h4⟩ := hst
      rw [loop2_cons_ne sources names rmi dl i seg _ nums dc src sl sc nm tokens hseg
        (hb seg List.mem_cons_self) hsrcs hnames hdc h1 h2 h3 h4]
      simp only [hseg, ↓reduceIte]
      cases parseVlq seg with
      | error e => exact sim2_error e
      | ok nums' =>
        simp only
        cases hd : decodeSeg sources.length names.length (dl % 4294967296) rmi i dc ⟨src, sl, sc, nm⟩ nums' with
        | error e => exact sim2_error e
        | ok x =>
          obtain ⟨t, dc', st'⟩ := x
          obtain ⟨hdc', hst'⟩ := decodeSeg_ok_bounds (Nat.le_of_lt hsrcs) hnames ⟨h1, h2, h3, h4⟩ hd
          simp only
          have hacc : ((tokens ++ [ofTok t]).map toTok).reverse = t :: (tokens.map toTok).reverse := by
            simp only [List.map_append, List.map_cons, List.map_nil, toTok_ofTok, List.reverse_append,
              List.reverse_cons, List.reverse_nil, List.nil_append, List.cons_append]
          have := ih (i + 1) nums' dc' st'.src st'.sl st'.sc st'.name (tokens ++ [ofTok t]) hb' hdc' hst'
          rw [hacc] at this
          exact this

/-! ### the token loop: the lines -/

/-- the bytes of a piece of `split` are bytes of the string -/
theorem mem_of_mem_splitOn (sep : Nat) : ∀ (s p : List Nat), p ∈ splitOn sep s → ∀ c ∈ p, c ∈ s := by
  intro s
  induction s with
  | nil =>
    intro p hp c hc
    simp only [splitOn, List.mem_singleton] at hp
    subst hp
    cases hc
  | cons x xs ih =>
    intro p hp c hc
    rw [splitOn] at hp
    by_cases hx : x = sep
    · simp only [hx, ↓reduceIte, List.mem_cons] at hp
      rcases hp with rfl | hp
      · cases hc
      · exact List.mem_cons_of_mem _ (ih p hp c hc)
    · simp only [hx, ↓reduceIte] at hp
      cases hq : splitOn sep xs with
      | nil =>
        rw [hq] at hp
        simp only [List.mem_singleton] at hp
        subst hp
        simp only [List.mem_singleton] at hc
        subst hc
        exact List.mem_cons_self
      | cons q qs =>
        rw [hq] at hp ih
        simp only [List.mem_cons] at hp
        rcases hp with rfl | hp
        · rcases List.mem_cons.mp hc with rfl | hc
          · exact List.mem_cons_self
          · exact List.mem_cons_of_mem _ (ih q List.mem_cons_self c hc)
        · exact List.mem_cons_of_mem _ (ih p (List.mem_cons_of_mem _ hp) c hc)

/-- the tokens of the final state of the line loop -/
def toks1 (r : Nat × List Bool × List Int × Nat × Nat × Nat × Nat × List RawToken) : List Tok :=
  r.2.2.2.2.2.2.2.map toTok

theorem loop1_eq (sources names : List Unit)
    (hsrcs : sources.length < 4294967296) (hnames : names.length ≤ 4294967296) :
    ∀ (lines rl : List (List Nat)) (dl dc : Nat) (rmi : List Bool) (nums : List Int) (src sl sc nm : Nat)
      (tokens : List RawToken),
    (∀ line ∈ lines, ∀ c ∈ line, c < 256) → dl + lines.length ≤ 4294967296 →
    (∀ p ∈ rl, p.length * 6 ≤ 18446744073709551615) → StOk ⟨src, sl, sc, nm⟩ →
    (decode_regular_tokens.loop1 sources names (enumFrom dl (rsZipPad lines rl [])) dc rmi nums src sl sc nm
        tokens).map toks1
      = decodeLines sources.length names.length lines rl dl ⟨src, sl, sc, nm⟩ (tokens.map toTok).reverse := by
  intro lines
  induction lines with
  | nil =>
    intro rl dl dc rmi nums src sl sc nm tokens _ _ _ _
    simp only [rsZipPad, enumFrom, decode_regular_tokens.loop1, decodeLines, map_ok, toks1,
      List.reverse_reverse]
  | cons line lines ih =>
    intro rl dl dc rmi nums src sl sc nm tokens hb hdl hrl hst
    have hb' : ∀ l ∈ lines, ∀ c ∈ l, c < 256 := fun l hl => hb l (List.mem_cons_of_mem _ hl)
    have hrl' : ∀ p ∈ rl.tail, p.length * 6 ≤ 18446744073709551615 :=
      fun p hp => hrl p (List.mem_of_mem_tail hp)
    simp only [List.length_cons] at hdl
    have hstep : enumFrom dl (rsZipPad (line :: lines) rl [])
        = (dl, (line, rl.headD [])) :: enumFrom (dl + 1) (rsZipPad lines rl.tail []) := by
      rw [rsZipPad_cons]; rfl
    rw [hstep, decodeLines]
    by_cases hline : line = []
    · subst hline
      simp only [decode_regular_tokens.loop1, ↓reduceIte]
      exact ih rl.tail (dl + 1) dc rmi nums src sl sc nm tokens hb' (by omega) hrl' hst
    · have hhead : (rl.headD []).length * 6 ≤ 18446744073709551615 := by
        cases rl with
        | nil => simp
        | cons p ps => exact hrl p List.mem_cons_self
      simp only [decode_regular_tokens.loop1, hline, ↓reduceIte, tie_decode_rmi' _ rmi hhead, rsEnumerate,
        tie_splitOn, COMMA]
      cases decodeRmi (rl.headD []) with
      | none => rfl
      | some bits =>
        simp only
        have hsegs : ∀ seg ∈ splitOn 44 line, ∀ c ∈ seg, c < 256 :=
          fun seg hseg c hc => hb line List.mem_cons_self c (mem_of_mem_splitOn 44 line seg hseg c hc)
        obtain ⟨herr, hok⟩ := loop2_sim sources names bits dl hsrcs hnames (splitOn 44 line) 0 nums 0
          src sl sc nm tokens hsegs (by omega) hst
        rw [Nat.mod_eq_of_lt (show dl < 4294967296 by omega)] at herr hok
        cases hl : decode_regular_tokens.loop2 sources names bits dl (enumFrom 0 (splitOn 44 line)) nums 0 src sl
            sc nm tokens with
        | error e =>
          rw [herr e hl]
          rfl
        | ok r =>
          obtain ⟨nums', dc', src', sl', sc', nm', toks'⟩ := r
          obtain ⟨hm, hst'⟩ := hok _ _ _ _ _ _ _ hl
          rw [hm]
          simp only
          exact ih rl.tail (dl + 1) dc' bits nums' src' sl' sc' nm' toks' hb' (by omega) hrl' hst'

/-! ### `decode_regular`: the token loop -/

/-- **The token loop of `decode_regular` is the model's `decodeMappings`.**  Hypotheses beyond "bytes are
bytes" (needed for `mappings` only: its bytes index the 256-entry `B64` table; `decode_rmi` has its own
`match`), all implied by "the document is below 4 GiB":
* at most `2^32` lines (`dst_line as u32`: the model's line counter is an unbounded `Nat`);
* fewer than `2^32` sources (`new_src_id as u32`, and source `2^32 - 1` would be taken for the `!0` sentinel
  by the `src == !0` test) and at most `2^32` names (`new_name_id as u32`);
* `6 * len` of every `;`-piece of `rangeMappings` fits a `usize` (`rmi_str.len() * 6` is a checked
  multiplication; the model has no such panic). -/
theorem tie_decode_regular_tokens (mappings rmi : List Nat) (names sources : List Unit)
    (hbytes : ∀ c ∈ mappings, c < 256)
    (hlines : (Mappings.splitOn 59 mappings).length ≤ 4294967296)
    (hsrcs : sources.length < 4294967296) (hnames : names.length ≤ 4294967296)
    (hrmi : ∀ p ∈ Mappings.splitOn 59 rmi, p.length * 6 ≤ 18446744073709551615) :
    (Gen.RsDecodeTokens.decode_regular_tokens names sources rmi mappings).map (·.map toTok)
      = Mappings.decodeMappings mappings rmi sources.length names.length := by
  have h := loop1_eq sources names hsrcs hnames (splitOn 59 mappings) (splitOn 59 rmi) 0 default [] [] 0 0 0 0 []
    (fun line hl c hc => hbytes c (mem_of_mem_splitOn 59 mappings line hl c hc)) (by omega) hrmi
    ⟨by decide, by decide, by decide, by decide⟩
  simp only [List.map_nil, List.reverse_nil] at h
  simp only [decode_regular_tokens, rsEnumerate, tie_splitOn, decodeMappings, SEMI]
  rw [← h]
  cases decode_regular_tokens.loop1 sources names (enumFrom 0 (rsZipPad (splitOn 59 mappings) (splitOn 59 rmi) []))
      default [] [] 0 0 0 0 [] with
  | error e => rfl
  | ok r =>
    obtain ⟨_, _, _, _, _, _, _, toks⟩ := r
    rfl

-- a concrete document: "AAAA,CAAC;;EAAEA,,G" with rangeMappings "C;;F", one name, two sources
example : ∀ c ∈ [65, 65, 65, 65, 44, 67, 65, 65, 67, 59, 59, 69, 65, 65, 69, 65, 44, 44, 71], c < 256 := by decide
example : (Mappings.splitOn 59 [65, 65, 65, 65, 44, 67, 65, 65, 67, 59, 59, 69, 65, 65, 69, 65, 44, 44, 71]).length
    ≤ 4294967296 := by decide
example : [(), ()].length < 4294967296 ∧ [()].length ≤ 4294967296 := by decide
example : ∀ p ∈ Mappings.splitOn 59 [67, 59, 59, 70], p.length * 6 ≤ 18446744073709551615 := by decide
example :
    (Gen.RsDecodeTokens.decode_regular_tokens [()] [(), ()] [67, 59, 59, 70]
      [65, 65, 65, 65, 44, 67, 65, 65, 67, 59, 59, 69, 65, 65, 69, 65, 44, 44, 71]).map (·.map toTok)
    = .ok [⟨0, 0, 0, 0, 0, NONE, false⟩, ⟨0, 1, 0, 1, 0, NONE, true⟩, ⟨2, 2, 0, 3, 0, 0, true⟩,
           ⟨2, 5, 0, 0, NONE, NONE, true⟩] := by
  rw [tie_decode_regular_tokens _ _ _ _ (by decide) (by decide) (by decide) (by decide) (by decide)]
  rfl

/-- the byte hypothesis on `mappings` is needed (it is what the type `&[u8]` says): a "byte" `≥ 256` is an
index panic in the translated `B64[c as usize]`, and `InvalidBase64` in the model -/
example : Gen.RsDecodeTokens.decode_regular_tokens [] [] [] [300] = .error .panic := by rfl
example : Mappings.decodeMappings [300] [] 0 0 = .error .b64 := by rfl

/-! ### the same under "the document is below 4 GiB" -/

theorem splitOn_length_le (sep : Nat) : ∀ s : List Nat, (splitOn sep s).length ≤ s.length + 1 := by
  intro s
  induction s with
  | nil => simp only [splitOn, List.length_cons, List.length_nil]; omega
  | cons x xs ih =>
    rw [splitOn]
    by_cases hx : x = sep
    · simp only [hx, ↓reduceIte, List.length_cons]; omega
    · simp only [hx, ↓reduceIte]
      cases hq : splitOn sep xs with
      | nil => simp only [List.length_cons, List.length_nil]; omega
      | cons q qs =>
        rw [hq] at ih
        simp only [List.length_cons] at ih ⊢
        omega

theorem length_le_of_mem_splitOn (sep : Nat) : ∀ (s p : List Nat), p ∈ splitOn sep s → p.length ≤ s.length := by
  intro s
  induction s with
  | nil =>
    intro p hp
    simp only [splitOn, List.mem_singleton] at hp
    subst hp
    exact Nat.le_refl _
  | cons x xs ih =>
    intro p hp
    rw [splitOn] at hp
    by_cases hx : x = sep
    · simp only [hx, ↓reduceIte, List.mem_cons] at hp
      rcases hp with rfl | hp
      · exact Nat.zero_le _
      · exact Nat.le_succ_of_le (ih p hp)
    · simp only [hx, ↓reduceIte] at hp
      cases hq : splitOn sep xs with
      | nil =>
        rw [hq] at hp
        simp only [List.mem_singleton] at hp
        subst hp
        simp only [List.length_cons, List.length_nil]; omega
      | cons q qs =>
        rw [hq] at hp ih
        simp only [List.mem_cons] at hp
        rcases hp with rfl | hp
        · have := ih q List.mem_cons_self
          simp only [List.length_cons]; omega
        · exact Nat.le_succ_of_le (ih p (List.mem_cons_of_mem _ hp))

/-- the tie under the project's usual size hypothesis: both strings and both arrays come from a document
shorter than 4 GiB -/
theorem tie_decode_regular_tokens_4GiB (mappings rmi : List Nat) (names sources : List Unit)
    (hbytes : ∀ c ∈ mappings, c < 256)
    (hmlen : mappings.length < 4294967296) (hrlen : rmi.length < 4294967296)
    (hsrcs : sources.length < 4294967296) (hnames : names.length < 4294967296) :
    (Gen.RsDecodeTokens.decode_regular_tokens names sources rmi mappings).map (·.map toTok)
      = Mappings.decodeMappings mappings rmi sources.length names.length := by
  refine tie_decode_regular_tokens mappings rmi names sources hbytes ?_ hsrcs (Nat.le_of_lt hnames) ?_
  · have := splitOn_length_le 59 mappings
    omega
  · intro p hp
    have := length_le_of_mem_splitOn 59 rmi p hp
    omega

example : ([65, 65, 65, 65, 44, 67, 65, 65, 67, 59, 59, 69] : List Nat).length < 4294967296 := by decide
-- "AAAA;;;CAAC" with an error: the second segment refers to source 1 of 1
example : (Gen.RsDecodeTokens.decode_regular_tokens [] [()] [] [65, 65, 65, 65, 59, 59, 59, 67, 67, 65, 67]).map
    (·.map toTok) = .error .srcref := by
  rw [tie_decode_regular_tokens_4GiB _ _ _ _ (by decide) (by decide) (by decide) (by decide) (by decide)]
  rfl

/-! ### the line-count hypothesis is needed: `dst_line as u32` wraps, the model's counter does not -/

theorem rsSplitOn_replicate (sep k : Nat) (b : List Nat) :
    rsSplitOn sep (List.replicate k sep ++ b) = List.replicate k [] ++ rsSplitOn sep b := by
  induction k with
  | zero => rfl
  | succ k ih =>
    simp only [List.replicate_succ, List.cons_append, rsSplitOn, ↓reduceIte, ih]

/-- empty lines are skipped by the generated line loop; they consume line numbers and `rangeMappings` pieces -/
theorem loop1_skip (sources names : List Unit) : ∀ (k : Nat) (lines rl : List (List Nat)) (dl dc : Nat)
    (rmi : List Bool) (nums : List Int) (src sl sc nm : Nat) (tokens : List RawToken),
    decode_regular_tokens.loop1 sources names (enumFrom dl (rsZipPad (List.replicate k [] ++ lines) rl [])) dc rmi
        nums src sl sc nm tokens
      = decode_regular_tokens.loop1 sources names (enumFrom (dl + k) (rsZipPad lines (rl.drop k) [])) dc rmi
        nums src sl sc nm tokens := by
  intro k
  induction k with
  | zero => intro lines rl dl dc rmi nums src sl sc nm tokens; rfl
  | succ k ih =>
    intro lines rl dl dc rmi nums src sl sc nm tokens
    have hstep : enumFrom dl (rsZipPad (List.replicate (k + 1) [] ++ lines) rl [])
        = (dl, (([] : List Nat), rl.headD [])) :: enumFrom (dl + 1) (rsZipPad (List.replicate k [] ++ lines) rl.tail []) := by
      rw [List.replicate_succ, List.cons_append, rsZipPad_cons]; rfl
    rw [hstep]
    simp only [decode_regular_tokens.loop1, ↓reduceIte]
    rw [ih]
    have h1 : dl + 1 + k = dl + (k + 1) := by omega
    have h2 : rl.tail.drop k = rl.drop (k + 1) := by cases rl <;> simp
    rw [h1, h2]

theorem decodeLines_skip (nsrc nn : Nat) : ∀ (k : Nat) (lines rl : List (List Nat)) (dl : Nat) (st : DState)
    (acc : List Tok),
    decodeLines nsrc nn (List.replicate k [] ++ lines) rl dl st acc
      = decodeLines nsrc nn lines (rl.drop k) (dl + k) st acc := by
  intro k
  induction k with
  | zero => intro lines rl dl st acc; rfl
  | succ k ih =>
    intro lines rl dl st acc
    rw [List.replicate_succ, List.cons_append, decodeLines]
    simp only [↓reduceIte]
    rw [ih]
    have h1 : dl + 1 + k = dl + (k + 1) := by omega
    have h2 : rl.tail.drop k = rl.drop (k + 1) := by cases rl <;> simp
    rw [h1, h2]

/-- what the translated code does with `n` semicolons followed by `A`: one token, on line `n mod 2^32` -/
theorem gen_semis_A (n : Nat) :
    Gen.RsDecodeTokens.decode_regular_tokens [] [] [] (List.replicate n 59 ++ [65])
      = .ok [{ dst_line := n % 4294967296, dst_col := 0, src_line := 0, src_col := 0, src_id := 4294967295,
               name_id := 4294967295, is_range := false }] := by
  have hA : rsSplitOn 59 [65] = [[65]] := by decide
  have hE : rsSplitOn 59 [] = [[]] := rfl
  have hC : rsSplitOn 44 [65] = [[65]] := by decide
  have hpad : (List.drop n [([] : List Nat)]).headD [] = [] := by cases n <;> simp
  have hne : ([65] : List Nat) ≠ [] := by decide
  have hrmi : decode_rmi [] [] = .ok [] := by rfl
  have hp : parseVlq [65] = .ok [0] := by rfl
  simp only [decode_regular_tokens, rsEnumerate, rsSplitOn_replicate, hA, hE, loop1_skip, Nat.zero_add]
  have hstep : enumFrom n (rsZipPad [[65]] (List.drop n [([] : List Nat)]) [])
      = [(n, (([65] : List Nat), ([] : List Nat)))] := by
    rw [rsZipPad_cons, hpad]; rfl
  rw [hstep]
  simp only [decode_regular_tokens.loop1, hne, ↓reduceIte, hrmi, hC]
  have hen : rsEnumerate [([65] : List Nat)] = [(0, [65])] := rfl
  rw [hen, loop2_cons_ne [] [] [] n 0 [65] [] [] 0 0 0 0 0 [] hne (by decide) (by decide) (by decide)
    (by decide) (by decide) (by decide) (by decide) (by decide), hp]
  simp only [Decode.decodeSeg_one, decode_regular_tokens.loop2]
  rfl

/-- … and the model: one token on line `n` (this is `C05.c05_decoded_wf_needs_size`) -/
theorem model_semis_A (n : Nat) :
    Mappings.decodeMappings (List.replicate n 59 ++ [65]) [] 0 0 = .ok [⟨n, 0, 0, 0, NONE, NONE, false⟩] := by
  have hA : splitOn 59 [65] = [[65]] := by decide
  have hE : splitOn 59 [] = [[]] := rfl
  have hC : splitOn 44 [65] = [[65]] := by decide
  have hpad : (List.drop n [([] : List Nat)]).headD [] = [] := by cases n <;> simp
  have hne : ([65] : List Nat) ≠ [] := by decide
  have hp : parseVlq [65] = .ok [0] := by rfl
  have hs : splitOn 59 (List.replicate n 59 ++ [65]) = List.replicate n [] ++ [[65]] := by
    rw [← tie_splitOn, rsSplitOn_replicate, tie_splitOn, hA]
  simp only [decodeMappings, SEMI, hs, hE, decodeLines_skip, Nat.zero_add]
  simp only [decodeLines, hne, ↓reduceIte, hpad, decodeRmi, COMMA, hC, decodeSegs, hp, Decode.decodeSeg_one]
  rfl

/-- **Witness for the line-count hypothesis of `tie_decode_regular_tokens`**: on `2^32` semicolons followed by
`A` (a 4 GiB `mappings` string, all bytes, no sources, no names, no `rangeMappings`) the translated code puts the
token on line 0, the model on line `2^32`.  So with more than `2^32` lines code and model differ; all other
hypotheses of the theorem hold for this input. -/
theorem lines_hypothesis_needed :
    (Gen.RsDecodeTokens.decode_regular_tokens [] [] [] (List.replicate 4294967296 59 ++ [65])).map (·.map toTok)
      = .ok [⟨0, 0, 0, 0, NONE, NONE, false⟩] ∧
    Mappings.decodeMappings (List.replicate 4294967296 59 ++ [65]) [] 0 0
      = .ok [⟨4294967296, 0, 0, 0, NONE, NONE, false⟩] := by
  constructor
  · rw [gen_semis_A]; rfl
  · exact model_semis_A _

/-! ### axioms -/
#print axioms tie_splitOn
#print axioms tie_decode_rmi'
#print axioms tie_decode_rmi
#print axioms tie_decode_rmi_panics
#print axioms loop2_cons_ne
#print axioms loop2_sim
#print axioms loop1_eq
#print axioms tie_decode_regular_tokens
#print axioms tie_decode_regular_tokens_4GiB
#print axioms lines_hypothesis_needed

end SmVerif.Tie.Decode
