import SmVerif.Generated.RsGetLine
import SmVerif.Model.SourceViewConc
import SmVerif.Props.C15
import SmVerif.Tie.PreludeLemmas19
/-
Tie proofs for `SourceView::get_line` (src/sourceview.rs), generated unit
`SmVerif/Generated/RsGetLine.lean` (`get_line_seq`, fuel loop `get_line_seq.loop1`) under the documented
sequential reading (`Mutex<Vec<&str>>` = `&mut` list `lines`, `AtomicUsize processed_until` = `&mut` number,
`self.source` = byte list): the generated function computes `SV.getLine` of the hand-written model
`SmVerif/Model/SourceView.lean` - the function the C15 theorems (`SmVerif/Props/C15.lean`) are about - from
EVERY state `(lines, processed_until)` (no invariant needed), every text and every index.

  A. `tie_scan_step`       one iteration of the generated loop = `SV.scan (source.drop processed_until)`
  B. `tie_loop1`, `tie_loop1_above`, `tie_loop1_diverge`, `tie_loop1_same_fuel`, `loop1_enough`
                           generated loop = `SV.indexLoop`
  C. `tie_get_line_seq`, `tie_get_line_seq_fuel`
                           `get_line_seq` = `SV.getLine`; fuel above `fuelFor` is irrelevant
  D. `gen_c15_inv`, `gen_c15_get_line`, `gen_c15_run`, `gen_c15_no_panic`
                           the C15 theorems restated for the generated function;
     `gen_c16_loop_step`, `gen_c16_loop_panic`
                           the `.loop` phase of the concurrent model's `tstep` (C16) = one generated iteration

The only hypothesis beyond the Rust types is `source.length + 1 < 2^64` (any `&str` has
`len ≤ isize::MAX < 2^63`): it keeps the `usize` additions `rest.len() + 1`, `idx + 1` and the `fetch_add`
(`processed_until + …`, at most `len + 1`) below `2^64`.

FINDING (fuel off by one, harmless at `fuelFor`): the generated `while !done` loop tests `done` at the top of
the NEXT iteration, the model returns at once; so when the loop ends through `done` the generated loop needs one
more unit of fuel than `SV.indexLoop` (`loop1_fuel_witness`: text `""`, index 5, fuel 1: generated `diverge`,
model `ok none`).  "Same fuel" therefore holds in the form: whenever the generated loop does not run out of fuel
it equals the model with the same fuel (`tie_loop1_same_fuel`), and the model with fuel `f` equals the generated
loop with any fuel `> f` (`tie_loop1_above`).  `SV.fuelFor source = len + 2` is exactly enough for the generated
loop from `processed_until = 0` (`len` iterations that find a terminator, one that finds none, one that sees
`done`), so `tie_get_line_seq` holds with the model's own fuel.
-/

namespace SmVerif.Tie.GetLine
open SmVerif SmVerif.Rs SmVerif.SV SmVerif.Tie
open SmVerif.Gen.RsGetLine

/-- the generated closure `|x| x == b'\n' || x == b'\r'` is the model's `isNl` -/
theorem isNl_fun : (fun x : Nat => (decide (x = 10) || decide (x = 13))) = isNl := rfl

/-- the result type of the generated loop -/
abbrev LoopRes := Res (Exit (Option (List Nat) × List (List Nat) × Nat) (Nat × Nat × Bool × List (List Nat)))

/-- what one iteration of the generated loop does once the scan said `s = (line, adv, done)`: push `line`, add
`adv` to `processed_until`, answer from the cache if the line asked for is there now, otherwise go round again
with the new `done` flag -/
def afterScan (source : List Nat) (fuel idx p : Nat) (lines : List (List Nat)) (s : List Nat × Nat × Bool) :
    LoopRes :=
  match (lines ++ [s.1])[idx]? with
  | some l => .ok (.ret (some l, lines ++ [s.1], p + s.2.1))
  | none => get_line_seq.loop1 source fuel idx (p + s.2.1) s.2.2 (lines ++ [s.1])

/-- **A. One iteration.**  With `done = false` and `processed_until ≤ len`, one iteration of the generated loop
performs exactly `SV.scan (source.drop processed_until)`: it pushes `scan.1`, adds `scan.2.1` to
`processed_until` and sets `done := scan.2.2` (none of the four checked `usize` additions overflows, neither
`rest[..idx]` nor `rest[idx]` panics). -/
theorem tie_scan_step (source : List Nat) (fuel idx p : Nat) (lines : List (List Nat))
    (hp : p ≤ source.length) (hlen : source.length + 1 < 18446744073709551616) :
    get_line_seq.loop1 source (fuel + 1) idx p false lines
      = afterScan source fuel idx p lines (scan (source.drop p)) := by
  rw [get_line_seq.loop1]
  simp only [Bool.false_eq_true, not_false_eq_true, ↓reduceIte, rsSlice_to_end19 source p hp]
  have hrl : (source.drop p).length + p = source.length := by
    simp only [List.length_drop]; omega
  generalize source.drop p = rest at hrl
  have hb : ∀ n, n ≤ source.length + 1 → (n ≤ 18446744073709551615) = True := by
    intro n h; simp only [eq_iff_iff, iff_true]; omega
  unfold afterScan scan
  rw [isNl_fun]
  cases hf : List.findIdx? isNl rest with
  | none =>
    simp only
    simp (disch := omega) only [hb, ↓reduceIte]
    cases (lines ++ [rest])[idx]? <;> rfl
  | some i =>
    have hi : i < rest.length := findIdx?_lt19 isNl rest i hf
    simp only [rsSlice_zero19 rest i (Nat.le_of_lt hi), rsIndex_of_lt19 rest i hi, getD_of_lt19 rest i 0 hi]
    by_cases h13 : rest[i] = 13
    · by_cases h10 : rest[i + 1]? = some 10
      · have hi2 : i + 1 < rest.length := lt_of_getElem?_some19 rest (i + 1) 10 h10
        simp (disch := omega) only [hb, h13, h10, and_self, ↓reduceIte]
        cases (lines ++ [List.take i rest])[idx]? <;> rfl
      · simp (disch := omega) only [hb, h13, h10, and_false, ↓reduceIte]
        cases (lines ++ [List.take i rest])[idx]? <;> rfl
    · simp (disch := omega) only [hb, h13, false_and, ↓reduceIte]
      cases (lines ++ [List.take i rest])[idx]? <;> rfl

/-- the text `ab\r\ncd\re\n` (a `\r\n`, a lone `\r`, a trailing newline): pieces `ab`, `cd`, `e`, `` -/
def exText : List Nat := [97, 98, 13, 10, 99, 100, 13, 101, 10]

example : splitLines exText = [[97, 98], [99, 100], [101], []] := by decide
example : exText.length + 1 < 18446744073709551616 := by decide
/-- `tie_scan_step` from offset 4 (`cd\re\n`), one line cached, asking for line 1 / for line 3 -/
example : (4 : Nat) ≤ exText.length ∧ scan (exText.drop 4) = ([99, 100], 3, false) := by decide
example : get_line_seq.loop1 exText 1 1 4 false [[97, 98]]
    = .ok (.ret (some [99, 100], [[97, 98], [99, 100]], 7)) := rfl
example : get_line_seq.loop1 exText 1 1 4 false [[97, 98]]
    = afterScan exText 0 1 4 [[97, 98]] (scan (exText.drop 4)) :=
  tie_scan_step exText 0 1 4 [[97, 98]] (by decide) (by decide)
/-- the `\r\n` step and the final step (no terminator left: `done`) -/
example : scan exText = ([97, 98], 4, false) ∧ scan (exText.drop 9) = ([], 1, true) := by decide

/-- an iteration entered with `done = true` leaves the loop -/
theorem loop1_done (source : List Nat) (fuel idx p : Nat) (lines : List (List Nat)) :
    get_line_seq.loop1 source (fuel + 1) idx p true lines = .ok (.done (idx, p, true, lines)) := by
  rw [get_line_seq.loop1]
  simp only [not_true_eq_false, ↓reduceIte]

/-- an iteration entered with `processed_until > len` panics at `&source[processed_until..]` -/
theorem loop1_panic (source : List Nat) (fuel idx p : Nat) (lines : List (List Nat))
    (hp : source.length < p) :
    get_line_seq.loop1 source (fuel + 1) idx p false lines = .error .panic := by
  rw [get_line_seq.loop1]
  simp only [Bool.false_eq_true, not_false_eq_true, ↓reduceIte, rsSlice_to_end_panic19 source p hp]

/-- no fuel -/
theorem loop1_zero (source : List Nat) (idx p : Nat) (d : Bool) (lines : List (List Nat)) :
    get_line_seq.loop1 source 0 idx p d lines = .error .diverge := by
  rw [get_line_seq.loop1]

/-- outcome of the generated loop in the model's vocabulary -/
def loopToModel : LoopRes → Res (Option (List Nat) × St)
  | .error e => .error e
  | .ok (.ret (r, ls, p)) => .ok (r, ⟨p, ls⟩)
  | .ok (.done (_, p, _, ls)) => .ok (none, ⟨p, ls⟩)

/-- one iteration of the model loop, in the same shape as `tie_scan_step` -/
theorem indexLoop_succ (source : List Nat) (idx fuel p : Nat) (lines : List (List Nat)) (hp : p ≤ source.length) :
    indexLoop source idx (fuel + 1) ⟨p, lines⟩ =
      (match (lines ++ [(scan (source.drop p)).1])[idx]? with
       | some l => .ok (some l, ⟨p + (scan (source.drop p)).2.1, lines ++ [(scan (source.drop p)).1]⟩)
       | none =>
         if (scan (source.drop p)).2.2 then
           .ok (none, ⟨p + (scan (source.drop p)).2.1, lines ++ [(scan (source.drop p)).1]⟩)
         else indexLoop source idx fuel ⟨p + (scan (source.drop p)).2.1, lines ++ [(scan (source.drop p)).1]⟩) := by
  rw [indexLoop]
  have : ¬ (p > source.length) := by omega
  simp only [this, ↓reduceIte]
  cases (lines ++ [(scan (source.drop p)).1])[idx]? <;> rfl

theorem indexLoop_panic (source : List Nat) (idx fuel p : Nat) (lines : List (List Nat)) (hp : source.length < p) :
    indexLoop source idx (fuel + 1) ⟨p, lines⟩ = .error .panic := by
  rw [indexLoop]
  have : (p > source.length) := hp
  simp only [this, ↓reduceIte]

/-- **B. The loop, model first.**  Whenever the model loop with fuel `fuel` comes to an end (a line, `none` at
the end of the text, or the panic of `&source[processed_until..]` with `processed_until > len`), the generated
loop with ANY larger fuel has the same outcome: `.ok (.ret (r, lines', p'))` ↔ `.ok (r, ⟨p', lines'⟩)`,
`.ok (.done …)` ↔ the model's `.ok (none, st')`, `rsSlice` panic ↔ `.error .panic`.  (One unit more: the
generated loop sees `done` at the top of the next iteration.) -/
theorem tie_loop1_above (source : List Nat) (idx : Nat) (hlen : source.length + 1 < 18446744073709551616) :
    ∀ (fuel fuel' p : Nat) (lines : List (List Nat)), fuel < fuel' →
      indexLoop source idx fuel ⟨p, lines⟩ ≠ .error .diverge →
      loopToModel (get_line_seq.loop1 source fuel' idx p false lines) = indexLoop source idx fuel ⟨p, lines⟩ := by
  intro fuel
  induction fuel with
  | zero => intro fuel' p lines _ h; exact absurd rfl h
  | succ fuel ih =>
    intro fuel' p lines hf h
    obtain ⟨g, rfl⟩ : ∃ g, fuel' = g + 2 := ⟨fuel' - 2, by omega⟩
    by_cases hp : p ≤ source.length
    · rw [tie_scan_step source (g + 1) idx p lines hp hlen]
      rw [indexLoop_succ source idx fuel p lines hp] at h ⊢
      unfold afterScan
      generalize scan (source.drop p) = s at h ⊢
      cases hl : (lines ++ [s.1])[idx]? with
      | some l => simp only [loopToModel]
      | none =>
        simp only [hl] at h ⊢
        cases hd : s.2.2 with
        | true => simp only [loop1_done, loopToModel, ↓reduceIte]
        | false =>
          simp only [hd, Bool.false_eq_true, ↓reduceIte] at h ⊢
          exact ih (g + 1) _ _ (by omega) h
    · have hp' : source.length < p := by omega
      rw [loop1_panic source (g + 1) idx p lines hp', indexLoop_panic source idx fuel p lines hp']
      rfl

/-- **B.** the special case `fuel + 1` -/
theorem tie_loop1 (source : List Nat) (idx : Nat) (hlen : source.length + 1 < 18446744073709551616)
    (fuel p : Nat) (lines : List (List Nat)) (h : indexLoop source idx fuel ⟨p, lines⟩ ≠ .error .diverge) :
    loopToModel (get_line_seq.loop1 source (fuel + 1) idx p false lines) = indexLoop source idx fuel ⟨p, lines⟩ :=
  tie_loop1_above source idx hlen fuel (fuel + 1) p lines (Nat.lt_succ_self _) h

/-- **B. `diverge`.**  When the model loop runs out of fuel, so does the generated loop with the same fuel. -/
theorem tie_loop1_diverge (source : List Nat) (idx : Nat) (hlen : source.length + 1 < 18446744073709551616) :
    ∀ (fuel p : Nat) (lines : List (List Nat)),
      indexLoop source idx fuel ⟨p, lines⟩ = .error .diverge →
      get_line_seq.loop1 source fuel idx p false lines = .error .diverge := by
  intro fuel
  induction fuel with
  | zero => intro p lines _; exact loop1_zero source idx p false lines
  | succ fuel ih =>
    intro p lines h
    by_cases hp : p ≤ source.length
    · rw [tie_scan_step source fuel idx p lines hp hlen]
      rw [indexLoop_succ source idx fuel p lines hp] at h
      unfold afterScan
      generalize scan (source.drop p) = s at h ⊢
      cases hl : (lines ++ [s.1])[idx]? with
      | some l => simp only [hl] at h; cases h
      | none =>
        simp only [hl] at h ⊢
        cases hd : s.2.2 with
        | true => simp only [hd, ↓reduceIte] at h; cases h
        | false =>
          simp only [hd, Bool.false_eq_true, ↓reduceIte] at h
          exact ih _ _ h
    · have hp' : source.length < p := by omega
      rw [indexLoop_panic source idx fuel p lines hp'] at h
      cases h

/-- **B. Same fuel, generated first.**  Whenever the generated loop does not run out of fuel, the model loop with
the SAME fuel has the same outcome. -/
theorem tie_loop1_same_fuel (source : List Nat) (idx : Nat) (hlen : source.length + 1 < 18446744073709551616) :
    ∀ (fuel p : Nat) (lines : List (List Nat)),
      get_line_seq.loop1 source fuel idx p false lines ≠ .error .diverge →
      loopToModel (get_line_seq.loop1 source fuel idx p false lines) = indexLoop source idx fuel ⟨p, lines⟩ := by
  intro fuel
  induction fuel with
  | zero => intro p lines h; exact absurd (loop1_zero source idx p false lines) h
  | succ fuel ih =>
    intro p lines h
    by_cases hp : p ≤ source.length
    · rw [tie_scan_step source fuel idx p lines hp hlen] at h ⊢
      rw [indexLoop_succ source idx fuel p lines hp]
      unfold afterScan at h ⊢
      generalize scan (source.drop p) = s at h ⊢
      cases hl : (lines ++ [s.1])[idx]? with
      | some l => simp only [loopToModel]
      | none =>
        simp only [hl] at h ⊢
        cases hd : s.2.2 with
        | true =>
          rw [hd] at h
          cases fuel with
          | zero => exact absurd (loop1_zero source idx _ true _) h
          | succ k => simp only [loop1_done, loopToModel, ↓reduceIte]
        | false =>
          simp only [hd, Bool.false_eq_true, ↓reduceIte] at h ⊢
          exact ih _ _ h
    · have hp' : source.length < p := by omega
      rw [loop1_panic source fuel idx p lines hp', indexLoop_panic source idx fuel p lines hp']
      rfl

/-- the model does not diverge on the example (fuel 4 from offset 4 asking for line 9: three more pieces, then
the end), so the generated loop with fuel 5 agrees -/
example : indexLoop exText 9 4 ⟨4, [[97, 98]]⟩ ≠ .error .diverge := by
  have h : indexLoop exText 9 4 ⟨4, [[97, 98]]⟩ = .ok (none, ⟨10, [[97, 98], [99, 100], [101], []]⟩) := rfl
  rw [h]; intro h'; cases h'
example : loopToModel (get_line_seq.loop1 exText 5 9 4 false [[97, 98]])
    = .ok (none, ⟨10, [[97, 98], [99, 100], [101], []]⟩) := rfl
/-- out of fuel on both sides (fuel 2, three iterations needed) -/
example : indexLoop exText 9 2 ⟨4, [[97, 98]]⟩ = .error .diverge ∧
    get_line_seq.loop1 exText 2 9 4 false [[97, 98]] = .error .diverge := ⟨rfl, rfl⟩
/-- the generated loop does not run out of fuel: same fuel on the model side -/
example : get_line_seq.loop1 exText 2 2 4 false [[97, 98]] ≠ .error .diverge := by
  have h : get_line_seq.loop1 exText 2 2 4 false [[97, 98]]
      = .ok (.ret (some [101], [[97, 98], [99, 100], [101]], 9)) := rfl
  rw [h]; intro h'; cases h'
/-- the panic site: `processed_until > len` (a state only the un-repaired concurrent code reaches) -/
example : loopToModel (get_line_seq.loop1 exText 3 0 11 false []) = .error .panic ∧
    indexLoop exText 0 3 ⟨11, []⟩ = .error .panic := ⟨rfl, rfl⟩

/-- **Fuel off by one** (why `tie_loop1_above` needs `fuel < fuel'`, and `tie_loop1_same_fuel` its hypothesis):
the empty text, index 5, fuel 1 - the model's single iteration finds no terminator and returns `none`; the
generated loop has set `done` but has no fuel left to test it. -/
theorem loop1_fuel_witness :
    get_line_seq.loop1 [] 1 5 0 false [] = .error .diverge ∧
    indexLoop [] 5 1 ⟨0, []⟩ = .ok (none, ⟨1, [[]]⟩) ∧
    loopToModel (get_line_seq.loop1 [] 2 5 0 false []) = .ok (none, ⟨1, [[]]⟩) := ⟨rfl, rfl, rfl⟩

/-- with `len - p + 2` units of fuel the generated loop, and with `len - p + 1` units the model loop, have
both come to their end: from there on the fuel is irrelevant on both sides -/
theorem loop1_enough (source : List Nat) (idx : Nat) (hlen : source.length + 1 < 18446744073709551616) :
    ∀ (n fuelG fuelM p : Nat) (lines : List (List Nat)),
      p ≤ source.length → source.length - p ≤ n → n + 2 ≤ fuelG → n + 1 ≤ fuelM →
      loopToModel (get_line_seq.loop1 source fuelG idx p false lines) = indexLoop source idx fuelM ⟨p, lines⟩ := by
  intro n
  induction n with
  | zero =>
    intro fuelG fuelM p lines hp hn hG hM
    obtain ⟨g, rfl⟩ : ∃ g, fuelG = g + 2 := ⟨fuelG - 2, by omega⟩
    obtain ⟨m, rfl⟩ : ∃ m, fuelM = m + 1 := ⟨fuelM - 1, by omega⟩
    rw [tie_scan_step source (g + 1) idx p lines hp hlen, indexLoop_succ source idx m p lines hp]
    unfold afterScan
    have hadv := scan_adv (source.drop p)
    have hrl : (source.drop p).length = 0 := by simp only [List.length_drop]; omega
    generalize scan (source.drop p) = s at hadv ⊢
    cases hl : (lines ++ [s.1])[idx]? with
    | some l => simp only [loopToModel]
    | none =>
      simp only
      cases hd : s.2.2 with
      | true => simp only [loop1_done, loopToModel, ↓reduceIte]
      | false => have := hadv.2.1 hd; omega
  | succ n ih =>
    intro fuelG fuelM p lines hp hn hG hM
    obtain ⟨g, rfl⟩ : ∃ g, fuelG = g + 2 := ⟨fuelG - 2, by omega⟩
    obtain ⟨m, rfl⟩ : ∃ m, fuelM = m + 1 := ⟨fuelM - 1, by omega⟩
    rw [tie_scan_step source (g + 1) idx p lines hp hlen, indexLoop_succ source idx m p lines hp]
    unfold afterScan
    have hadv := scan_adv (source.drop p)
    have hrl : (source.drop p).length = source.length - p := by simp only [List.length_drop]
    generalize scan (source.drop p) = s at hadv ⊢
    cases hl : (lines ++ [s.1])[idx]? with
    | some l => simp only [loopToModel]
    | none =>
      simp only
      cases hd : s.2.2 with
      | true => simp only [loop1_done, loopToModel, ↓reduceIte]
      | false =>
        have h1 := hadv.1
        have h2 := hadv.2.1 hd
        simp only [Bool.false_eq_true, ↓reduceIte]
        exact ih (g + 1) m (p + s.2.1) (lines ++ [s.1]) (by omega) (by omega) (by omega) (by omega)

/-- result triple of the generated function as the model's pair -/
def toModel : Res (Option (List Nat) × List (List Nat) × Nat) → Res (Option (List Nat) × St)
  | .error e => .error e
  | .ok (r, ls, p) => .ok (r, ⟨p, ls⟩)

/-- **C, general fuel.**  `get_line_seq` = `SV.getLine` from every state, for every fuel from
`len - processed_until + 2` on (truncated subtraction: any fuel ≥ 2 when `processed_until > len`). -/
theorem get_line_seq_eq (source : List Nat) (hlen : source.length + 1 < 18446744073709551616)
    (lines : List (List Nat)) (p idx fuel : Nat) (hf : source.length - p + 2 ≤ fuel) :
    toModel (get_line_seq fuel source lines p idx) = getLine source ⟨p, lines⟩ idx := by
  unfold get_line_seq getLine
  by_cases hi : idx < lines.length
  · simp only [hi, ↓reduceIte, rsIndex_of_lt19 lines idx hi, List.getElem?_eq_getElem hi, toModel]
  · have hn : lines[idx]? = none := List.getElem?_eq_none (by omega)
    simp only [hi, ↓reduceIte, hn]
    by_cases hp : p > source.length
    · simp only [hp, ↓reduceIte, toModel]
    · simp only [hp, ↓reduceIte, decide_false]
      have hp' : p ≤ source.length := by omega
      rw [← loop1_enough source idx hlen (source.length - p) fuel (fuelFor source) p lines hp'
        (Nat.le_refl _) hf (by unfold fuelFor; omega)]
      generalize get_line_seq.loop1 source fuel idx p false lines = r
      match r with
      | .error e => rfl
      | .ok (.ret (r, ls, q)) => rfl
      | .ok (.done (_, q, _, ls)) => rfl


theorem toModel_ok_inv {x : Res (Option (List Nat) × List (List Nat) × Nat)} {r : Option (List Nat)} {st : St}
    (h : toModel x = .ok (r, st)) : x = .ok (r, st.lines, st.processed) := by
  match x, h with
  | .ok (r', ls, q), h =>
    simp only [toModel, Except.ok.injEq, Prod.mk.injEq] at h
    obtain ⟨rfl, rfl⟩ := h
    rfl

theorem toModel_inj {x y : Res (Option (List Nat) × List (List Nat) × Nat)} (h : toModel x = toModel y) : x = y := by
  match x, y, h with
  | .error e, .error e', h => simp only [toModel, Except.error.injEq] at h; rw [h]
  | .error e, .ok (r', ls', q'), h => simp only [toModel, reduceCtorEq] at h
  | .ok (r, ls, q), .error e, h => simp only [toModel, reduceCtorEq] at h
  | .ok (r, ls, q), .ok (r', ls', q'), h =>
    simp only [toModel, Except.ok.injEq, Prod.mk.injEq, St.mk.injEq] at h
    obtain ⟨rfl, rfl, rfl⟩ := h
    rfl

/-- **C. `get_line`.**  For every text (below the allocation limit), every cache `lines`, every `processed_until`
and every index - no invariant on the state - the generated function with the model's fuel is the model's
`getLine` (result triple `(line, lines, processed_until)` ↔ `(line, ⟨processed, lines⟩)`). -/
theorem tie_get_line_seq (source : List Nat) (hlen : source.length + 1 < 18446744073709551616)
    (lines : List (List Nat)) (p idx : Nat) :
    toModel (get_line_seq (fuelFor source) source lines p idx) = getLine source ⟨p, lines⟩ idx :=
  get_line_seq_eq source hlen lines p idx (fuelFor source) (by unfold fuelFor; omega)

/-- **C. Fuel irrelevance** above `fuelFor source = len + 2`. -/
theorem tie_get_line_seq_fuel (source : List Nat) (hlen : source.length + 1 < 18446744073709551616)
    (lines : List (List Nat)) (p idx fuel : Nat) (hf : fuelFor source ≤ fuel) :
    get_line_seq fuel source lines p idx = get_line_seq (fuelFor source) source lines p idx := by
  apply toModel_inj
  rw [tie_get_line_seq source hlen]
  exact get_line_seq_eq source hlen lines p idx fuel (by unfold fuelFor at hf; omega)

/-- states that satisfy no invariant: a junk cache with `processed_until` in the middle of the text, and with
`processed_until > len` (finished check) -/
example : toModel (get_line_seq (fuelFor exText) exText [[1], [2]] 7 5) = getLine exText ⟨7, [[1], [2]]⟩ 5 :=
  tie_get_line_seq exText (by decide) [[1], [2]] 7 5
example : get_line_seq (fuelFor exText) exText [[1], [2]] 7 5 = .ok (none, [[1], [2], [101], []], 10) := rfl
example : get_line_seq (fuelFor exText) exText [[1], [2]] 20 5 = .ok (none, [[1], [2]], 20) ∧
    getLine exText ⟨20, [[1], [2]]⟩ 5 = .ok (none, ⟨20, [[1], [2]]⟩) := ⟨rfl, rfl⟩
example : get_line_seq (fuelFor exText) exText [] 0 2 = .ok (some [101], [[97, 98], [99, 100], [101]], 9) ∧
    getLine exText {} 2 = .ok (some [101], ⟨9, [[97, 98], [99, 100], [101]]⟩) := ⟨rfl, rfl⟩
example : fuelFor exText ≤ 1000 := by decide

/-! ### D. the C15 theorems on the generated function -/

/-- a sequence of `get_line` calls on one view, the cache and `processed_until` threaded through:
`(answers, lines afterwards, processed_until afterwards)` -/
def genRun (source : List Nat) : List (List Nat) → Nat → List Nat →
    Res (List (Option (List Nat)) × List (List Nat) × Nat)
  | lines, p, [] => .ok ([], lines, p)
  | lines, p, i :: is =>
    match get_line_seq (fuelFor source) source lines p i with
    | .error e => .error e
    | .ok (r, lines', p') =>
      match genRun source lines' p' is with
      | .error e => .error e
      | .ok (rs, l, q) => .ok (r :: rs, l, q)

/-- outcome of `genRun` in the vocabulary of `runReqs` -/
def runToModel : Res (List (Option (List Nat)) × List (List Nat) × Nat) → Res (List Ans × St)
  | .error e => .error e
  | .ok (rs, ls, q) => .ok (rs.map Ans.line, ⟨q, ls⟩)

/-- the generated function run on a request list is the model's `runReqs` on the `get` requests -/
theorem genRun_eq_runReqs (source : List Nat) (hlen : source.length + 1 < 18446744073709551616) :
    ∀ (idxs : List Nat) (lines : List (List Nat)) (p : Nat),
      runToModel (genRun source lines p idxs) = runReqs source ⟨p, lines⟩ (idxs.map Req.get) := by
  intro idxs
  induction idxs with
  | nil => intro lines p; rfl
  | cons i is ih =>
    intro lines p
    simp only [genRun, List.map_cons, runReqs, step]
    rw [← tie_get_line_seq source hlen lines p i]
    match get_line_seq (fuelFor source) source lines p i with
    | .error e => rfl
    | .ok (r, lines', p') =>
      simp only [toModel]
      rw [← ih lines' p']
      match genRun source lines' p' is with
      | .error e => rfl
      | .ok (rs, l, q) => rfl


theorem runToModel_ok {x : Res (List (Option (List Nat)) × List (List Nat) × Nat)}
    {rs : List (Option (List Nat))} {lines : List (List Nat)} {p : Nat} (h : x = .ok (rs, lines, p)) :
    runToModel x = .ok (rs.map Ans.line, ⟨p, lines⟩) := by
  rw [h]; rfl

theorem runToModel_ok_inv {x : Res (List (Option (List Nat)) × List (List Nat) × Nat)} {as : List Ans} {st : St}
    (h : runToModel x = .ok (as, st)) : ∃ rs, x = .ok (rs, st.lines, st.processed) := by
  match x, h with
  | .ok (rs, ls, q), h =>
    simp only [runToModel, Except.ok.injEq, Prod.mk.injEq] at h
    obtain ⟨_, rfl⟩ := h
    exact ⟨rs, rfl⟩

theorem get_not_all (idxs : List Nat) : Req.all ∉ idxs.map Req.get := by
  intro h
  obtain ⟨i, _, hi⟩ := List.mem_map.1 h
  cases hi

/-- **C15 invariant on the generated code.**  After any sequence of generated `get_line` calls from the fresh
view the cache holds the first `k` pieces of the text and `processed_until` is the byte offset at which piece
`k` begins, or `len + 1` once everything is cached (`c15_inv`). -/
theorem gen_c15_inv (source : List Nat) (hlen : source.length + 1 < 18446744073709551616)
    (idxs : List Nat) (rs : List (Option (List Nat))) (lines : List (List Nat)) (p : Nat)
    (h : genRun source [] 0 idxs = .ok (rs, lines, p)) :
    lines.length ≤ (splitLines source).length ∧
    lines = (splitLines source).take lines.length ∧
    p = (if lines.length < (splitLines source).length
         then (lineStarts source).getD lines.length 0 else source.length + 1) := by
  have hr := runToModel_ok h
  rw [genRun_eq_runReqs source hlen idxs [] 0] at hr
  exact C15.c15_inv source (idxs.map Req.get) (rs.map Ans.line) ⟨p, lines⟩ hr

/-- **C15 `get_line` on the generated code.**  Whatever was requested before (any sequence of generated calls
from the fresh view `lines = []`, `processed_until = 0`, state threaded through), the generated `get_line(idx)`
returns the `idx`-th piece of the text (`none` past the end), with any fuel from `fuelFor` on - no panic, no
`diverge` (`c15_get_line`). -/
theorem gen_c15_get_line (source : List Nat) (hlen : source.length + 1 < 18446744073709551616)
    (idxs : List Nat) (rs : List (Option (List Nat))) (lines : List (List Nat)) (p : Nat)
    (h : genRun source [] 0 idxs = .ok (rs, lines, p)) (idx fuel : Nat) (hf : fuelFor source ≤ fuel) :
    ∃ lines' p', get_line_seq fuel source lines p idx = .ok ((splitLines source)[idx]?, lines', p') := by
  have hr := runToModel_ok h
  rw [genRun_eq_runReqs source hlen idxs [] 0] at hr
  obtain ⟨st', hg⟩ := C15.c15_get_line source (idxs.map Req.get) (rs.map Ans.line) ⟨p, lines⟩ hr idx
  rw [← tie_get_line_seq source hlen lines p idx] at hg
  rw [tie_get_line_seq_fuel source hlen lines p idx fuel hf]
  exact ⟨st'.lines, st'.processed, toModel_ok_inv hg⟩

/-- **C15 no panic, no hang on the generated code.**  Every sequence of generated `get_line` calls on every text
runs to completion (`c15_no_panic`). -/
theorem gen_c15_no_panic (source : List Nat) (hlen : source.length + 1 < 18446744073709551616)
    (idxs : List Nat) :
    ∃ rs lines p, genRun source [] 0 idxs = .ok (rs, lines, p) := by
  obtain ⟨as, st, hr⟩ := C15.c15_no_panic source (idxs.map Req.get) (Or.inr (get_not_all idxs))
  rw [← genRun_eq_runReqs source hlen idxs [] 0] at hr
  obtain ⟨rs, hx⟩ := runToModel_ok_inv hr
  exact ⟨rs, st.lines, st.processed, hx⟩

/-- from any state satisfying the model invariant the generated calls give the specification's answers -/
theorem genRun_spec (source : List Nat) (hlen : source.length + 1 < 18446744073709551616) :
    ∀ (idxs : List Nat) (lines : List (List Nat)) (p : Nat), Inv source ⟨p, lines⟩ →
      ∃ lines' p', genRun source lines p idxs = .ok (idxs.map (fun i => (splitLines source)[i]?), lines', p') ∧
        Inv source ⟨p', lines'⟩ := by
  intro idxs
  induction idxs with
  | nil => intro lines p hI; exact ⟨lines, p, rfl, hI⟩
  | cons i is ih =>
    intro lines p hI
    obtain ⟨st', hg, _, _, hI'⟩ := getLine_spec source i ⟨p, lines⟩ hI
    rw [← tie_get_line_seq source hlen lines p i] at hg
    have hg' := toModel_ok_inv hg
    obtain ⟨l2, p2, h2, hI2⟩ := ih st'.lines st'.processed hI'
    refine ⟨l2, p2, ?_, hI2⟩
    simp only [genRun, hg', h2, List.map_cons]

/-- **C15 all calls, any order, on the generated code.**  Every sequence of generated `get_line` calls from the
fresh view returns exactly the pieces of the text asked for. -/
theorem gen_c15_run (source : List Nat) (hlen : source.length + 1 < 18446744073709551616) (idxs : List Nat) :
    ∃ lines p, genRun source [] 0 idxs = .ok (idxs.map (fun i => (splitLines source)[i]?), lines, p) := by
  obtain ⟨l, p, h, _⟩ := genRun_spec source hlen idxs [] 0 (inv_init source)
  exact ⟨l, p, h⟩

/-- late line first, a missing line, early lines (served from the cache) -/
example : genRun exText [] 0 [3, 0, 7, 1]
    = .ok ([some [], some [97, 98], none, some [99, 100]], [[97, 98], [99, 100], [101], []], 10) := rfl
example : [3, 0, 7, 1].map (fun i => (splitLines exText)[i]?) = [some [], some [97, 98], none, some [99, 100]] := by
  decide
/-- a partly indexed view: after `get_line(1)` the cache has two pieces and `processed_until = 7` -/
example : genRun exText [] 0 [1] = .ok ([some [99, 100]], [[97, 98], [99, 100]], 7) := rfl
example : ∃ lines' p', get_line_seq 1000 exText [[97, 98], [99, 100]] 7 3 = .ok ((splitLines exText)[3]?, lines', p') :=
  gen_c15_get_line exText (by decide) [1] [some [99, 100]] [[97, 98], [99, 100]] 7 rfl 3 1000 (by decide)

/-! ### the loop phase of the concurrent model (C16) -/

open SmVerif.SVC in
/-- **C16 loop phase = one generated iteration.**  Thread `me` of the concurrent model
(`Model/SourceViewConc.lean`) is in phase `.loop` of `get_line(idx)`, holds the lock, and
`processed ≤ len`.  Then `tstep` moves, and with `s = SV.scan (src.drop sh.processed)`:
* the new shared `processed`, `lines` are `processed + s.2.1`, `lines ++ [s.1]`, the new value is appended to
  the history, `poisoned` is unchanged;
* one iteration of the generated loop from `(sh.processed, sh.lines)` ends in exactly this state: it returns
  `some l` with `(sh'.lines, sh'.processed)` when the line asked for is cached now, otherwise it goes round
  again from `(sh'.processed, sh'.lines)` with `done = s.2.2` (for every fuel);
* the thread keeps the lock (stays in the loop) exactly when the generated loop goes round again with
  `done = false`; otherwise it unlocks and returns `some l` / `none` to its caller, as the generated function
  does (`loop1_done`: the next iteration with `done = true` ends the loop, `get_line_seq` answers `none`). -/
theorem gen_c16_loop_step (fixed : Bool) (src : List Nat) (hlen : src.length + 1 < 18446744073709551616)
    (sh : Sh) (me : Nat) (th : Th) (v : Nat) (ctx : Ctx) (idx : Nat)
    (hpc : th.pc = .gl ctx idx .loop) (hlock : sh.lock = some me) (hp : sh.processed ≤ src.length) :
    ∃ sh' th', tstep fixed src sh me th v = some (sh', th') ∧
      sh'.processed = sh.processed + (scan (src.drop sh.processed)).2.1 ∧
      sh'.lines = sh.lines ++ [(scan (src.drop sh.processed)).1] ∧
      sh'.history = sh.history ++ [sh'.processed] ∧ sh'.poisoned = sh.poisoned ∧
      (∀ fuel, get_line_seq.loop1 src (fuel + 1) idx sh.processed false sh.lines =
        match sh'.lines[idx]? with
        | some l => .ok (.ret (some l, sh'.lines, sh'.processed))
        | none => get_line_seq.loop1 src fuel idx sh'.processed (scan (src.drop sh.processed)).2.2 sh'.lines) ∧
      (sh'.lock = if sh'.lines[idx]? = none ∧ (scan (src.drop sh.processed)).2.2 = false then some me else none) ∧
      (th' = match sh'.lines[idx]? with
             | some l => th.ret ctx idx (some l)
             | none => if (scan (src.drop sh.processed)).2.2 then th.ret ctx idx none else th) := by
  unfold tstep
  have hnp : ¬ (sh.processed > src.length) := by omega
  simp only [hpc, hlock, ne_eq, not_true_eq_false, ↓reduceIte, hnp]
  have hstep := fun fuel => tie_scan_step src fuel idx sh.processed sh.lines hp hlen
  unfold afterScan at hstep
  generalize scan (src.drop sh.processed) = s at hstep ⊢
  cases hl : (sh.lines ++ [s.1])[idx]? with
  | some l =>
    simp only [hl] at hstep
    refine ⟨_, _, rfl, rfl, rfl, rfl, rfl, ?_, ?_, ?_⟩
    · simp only [hl]; exact hstep
    · simp only [hl, reduceCtorEq, false_and, ↓reduceIte]
    · simp only [hl]
  | none =>
    simp only [hl] at hstep
    cases hd : s.2.2 with
    | true =>
      simp only [hd] at hstep
      refine ⟨_, _, rfl, rfl, rfl, rfl, rfl, ?_, ?_, ?_⟩
      · simp only [hl]; exact hstep
      · simp only [hl, Bool.true_eq_false, and_false, ↓reduceIte]
      · simp only [hl, ↓reduceIte]
    | false =>
      simp only [hd] at hstep
      refine ⟨_, _, rfl, rfl, rfl, rfl, rfl, ?_, ?_, ?_⟩
      · simp only [hl]; exact hstep
      · simp only [hl, and_self, ↓reduceIte]
      · simp only [hl, Bool.false_eq_true, ↓reduceIte]

open SmVerif.SVC in
/-- the other branch of the `.loop` phase: with `processed > len` the model thread crashes holding the lock
(poisoning the mutex), and the generated iteration panics at `&source[processed_until..]` -/
theorem gen_c16_loop_panic (fixed : Bool) (src : List Nat)
    (sh : Sh) (me : Nat) (th : Th) (v : Nat) (ctx : Ctx) (idx : Nat)
    (hpc : th.pc = .gl ctx idx .loop) (hlock : sh.lock = some me) (hp : src.length < sh.processed) (fuel : Nat) :
    tstep fixed src sh me th v = some ({ sh with lock := none, poisoned := true }, th.crash) ∧
    get_line_seq.loop1 src (fuel + 1) idx sh.processed false sh.lines = .error .panic := by
  refine ⟨?_, loop1_panic src fuel idx sh.processed sh.lines hp⟩
  unfold tstep
  have hnp : (sh.processed > src.length) := hp
  simp only [hpc, hlock, ne_eq, not_true_eq_false, ↓reduceIte, hnp]

open SmVerif.SVC in
/-- `gen_c16_loop_step` on the example: thread 1 holds the lock at offset 4 with one line cached and asks for
line 2: the iteration caches `cd`, moves to 7 and stays in the loop -/
example : tstep true exText { processed := 4, history := [0, 4], lines := [[97, 98]], lock := some 1 } 1
      { prog := [.g 2], pc := .gl .plain 2 .loop } 0
    = some ({ processed := 7, history := [0, 4, 7], lines := [[97, 98], [99, 100]], lock := some 1 },
            { prog := [.g 2], pc := .gl .plain 2 .loop }) := by decide
example : get_line_seq.loop1 exText 3 2 4 false [[97, 98]]
    = get_line_seq.loop1 exText 2 2 7 false [[97, 98], [99, 100]] := rfl

end SmVerif.Tie.GetLine

#print axioms SmVerif.Tie.GetLine.tie_scan_step
#print axioms SmVerif.Tie.GetLine.loop1_done
#print axioms SmVerif.Tie.GetLine.loop1_panic
#print axioms SmVerif.Tie.GetLine.tie_loop1_above
#print axioms SmVerif.Tie.GetLine.tie_loop1
#print axioms SmVerif.Tie.GetLine.tie_loop1_diverge
#print axioms SmVerif.Tie.GetLine.tie_loop1_same_fuel
#print axioms SmVerif.Tie.GetLine.loop1_fuel_witness
#print axioms SmVerif.Tie.GetLine.loop1_enough
#print axioms SmVerif.Tie.GetLine.get_line_seq_eq
#print axioms SmVerif.Tie.GetLine.tie_get_line_seq
#print axioms SmVerif.Tie.GetLine.tie_get_line_seq_fuel
#print axioms SmVerif.Tie.GetLine.genRun_eq_runReqs
#print axioms SmVerif.Tie.GetLine.gen_c15_inv
#print axioms SmVerif.Tie.GetLine.gen_c15_get_line
#print axioms SmVerif.Tie.GetLine.gen_c15_no_panic
#print axioms SmVerif.Tie.GetLine.gen_c15_run
#print axioms SmVerif.Tie.GetLine.gen_c16_loop_step
#print axioms SmVerif.Tie.GetLine.gen_c16_loop_panic
