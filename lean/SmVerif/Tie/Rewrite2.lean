import SmVerif.Tie.Rewrite
import SmVerif.Tie.Builder2
import SmVerif.Props.C09
/-
Tie unit "Rewrite2": the WHOLE of `SourceMap::rewrite_with_mapping` / `SourceMap::rewrite` (types.rs), closing the gap
between the per-piece ties (`Tie/Builder.lean`: `new`, `set_debug_id`; `Tie/Rewrite.lean`: the token loop;
`Tie/Builder2.lean`: `strip_prefixes`, `into_sourcemap`) and the model function the C09 theorems are about
(`SMap.rewriteWithMapping`, `SMap.rewrite`, `Model/Builder.lean`).

* `genRewriteWithMapping`, `genRewrite` : the straight-line glue of `rewrite_with_mapping` (and of `rewrite`, its
  first component), WRITTEN BY HAND; each step is a generated function (`get_file`, `SourceMapBuilder.new`,
  `set_debug_id`, `rewrite_token` iterated by `rewriteG` over `rsTokens this`, `strip_prefixes`, `take_mapping`,
  `into_sourcemap`).  `prefixes` is the list `rewrite_with_mapping` computes from `options.strip_prefixes` (the `"~"`
  entry / `find_common_prefix` and `load_local_source_contents` are out of scope, as in the model).
* `tie_gen_rewrite_with_mapping_along`, `tie_gen_rewrite_along` : the glue = the model, under the hypotheses of the
  pieces exactly as they state them (`RwSmallAlong`; UTF-8 over the model's intermediate builder).
* `tie_gen_rewrite_with_mapping`, `tie_gen_rewrite`, `tie_gen_rewrite_noprefix`, `tie_gen_rewrite_opts` : the same
  with hypotheses on the INPUT map only (`u32` source columns, fewer than `2^32` tokens, UTF-8 source strings when
  there are prefixes) - the intermediate hypotheses follow from the C09 loop invariant (`RwProofs.loop_inv`).
* `gen_rewrite_model` : every successful run of the glue is the model's run (transport lemma).
* `gen_c09_whole_*` : the C09 property theorems stated about the output of the generated glue.
-/
namespace SmVerif.Tie
open SmVerif SmVerif.Rs SmVerif.C13Spec
open SmVerif.Gen.RsBuilder (SourceMapBuilder)
open SmVerif.Gen.RsRewrite (RewriteOptions rewrite_token)

/-! ### the glue -/

/-- **the straight-line glue of `rewrite_with_mapping`, written by hand; each step is a generated function.**
Order as in types.rs: `SourceMapBuilder::new(self.get_file())`, `builder.set_debug_id(self.debug_id)`, the token loop
(`rewriteG` = the generated `rewrite_token` folded over `self.tokens()` = `rsTokens this`),
`if !prefixes.is_empty() { builder.strip_prefixes(&prefixes) }`, `builder.take_mapping()`,
`builder.into_sourcemap()`, `Ok((sm, mapping))`. -/
def genRewriteWithMapping (this : Gen.RsTypes.SourceMap) (opts : RewriteOptions) (prefixes : List (List Nat)) :
    Res (Gen.RsTypes.SourceMap × List Nat) :=
  match this.get_file with
  | .error e => .error e
  | .ok file =>
    match SourceMapBuilder.new file with
    | .error e => .error e
    | .ok builder =>
      match builder.set_debug_id this.debug_id with
      | .error e => .error e
      | .ok builder =>
        match rewriteG this opts (Gen.RsTypes.rsTokens this) builder with
        | .error e => .error e
        | .ok builder =>
          match (if !prefixes.isEmpty then builder.strip_prefixes prefixes else .ok builder) with
          | .error e => .error e
          | .ok builder =>
            match builder.take_mapping with
            | .error e => .error e
            | .ok (mapping, builder) =>
              match builder.into_sourcemap with
              | .error e => .error e
              | .ok sm => .ok (sm, mapping)

/-- `SourceMap::rewrite` is `Ok(self.rewrite_with_mapping(options)?.0)` (hand-written glue, as above) -/
def genRewrite (this : Gen.RsTypes.SourceMap) (opts : RewriteOptions) (prefixes : List (List Nat)) :
    Res Gen.RsTypes.SourceMap :=
  match genRewriteWithMapping this opts prefixes with
  | .error e => .error e
  | .ok (sm, _) => .ok sm

/-- the generated options as the model's, with the explicit prefix list -/
def rwOpts (opts : RewriteOptions) (prefixes : List (List Nat)) : RewriteOpts :=
  { toOpts opts with stripPrefixes := prefixes }

theorem rwOpts_self (opts : RewriteOptions) : rwOpts opts opts.strip_prefixes = toOpts opts := rfl

/-- the model's builder before the loop -/
abbrev startB (m : SMap) : Bld := { Bld.new m.file with debugId := m.debugId }

/-- the loop does not read `strip_prefixes` -/
theorem rewriteG_strip_irrel (this : Gen.RsTypes.SourceMap) (opts : RewriteOptions) (p : List (List Nat)) :
    ∀ (toks : List Gen.RsTypes.Token) (g : SourceMapBuilder),
      rewriteG this { opts with strip_prefixes := p } toks g = rewriteG this opts toks g
  | [], _ => rfl
  | t :: ts, g => by
    simp only [rewriteG]
    have h : rewrite_token this g t { opts with strip_prefixes := p } = rewrite_token this g t opts := rfl
    rw [h]
    cases rewrite_token this g t opts with
    | error e => rfl
    | ok g' => exact rewriteG_strip_irrel this opts p ts g'

/-- `take_mapping` does not change what `into_sourcemap` makes -/
theorem intoSourcemap_take_mapping (g : SourceMapBuilder) :
    (toBld { g with sources_mapping := [] }).intoSourcemap = (toBld g).intoSourcemap := rfl

/-! ### the glue is the model: hypotheses of the pieces, as the pieces state them -/

/-- **`rewrite_with_mapping` = `SMap.rewriteWithMapping`**, map and source mapping.  Assumed, exactly:
* `hsc` : every token's `src_col` is a `u32` (hypothesis of `tie_add_token`);
* `hsm` : the SmallDoc hypothesis of `Tie/Rewrite.lean` along the model's loop from the model's start state
  (fewer than `2^32` sources and names in the builder before each step);
* `hutf` : only if there are prefixes - the sources of the MODEL's builder after the loop are valid UTF-8 (hypothesis
  of `tie_strip_prefixes`; the generated builder after the loop has the same sources). -/
theorem tie_gen_rewrite_with_mapping_along (this : Gen.RsTypes.SourceMap) (opts : RewriteOptions)
    (prefixes : List (List Nat))
    (hsc : ∀ t ∈ this.tokens, t.src_col < 4294967296)
    (hsm : RwSmallAlong (toSMap this) (rwOpts opts prefixes) (toSMap this).tokens (startB (toSMap this)))
    (hutf : prefixes ≠ [] → ∀ b', (toSMap this).rewriteLoop (rwOpts opts prefixes) (toSMap this).tokens
        (startB (toSMap this)) = .ok b' → ∀ s ∈ b'.sources, rsUtf8Valid s = true) :
    ∃ m' mp sm', genRewriteWithMapping this opts prefixes = .ok (m', mp) ∧
      (toSMap this).rewriteWithMapping (rwOpts opts prefixes) = .ok (sm', mp) ∧ toSMap m' = sm' := by
  -- the start state
  obtain ⟨g0, e0, r0⟩ := tie_new this.file
  obtain ⟨g1, e1, r1⟩ := tie_set_debug_id g0 _ r0 this.debug_id
  have hstart : startB (toSMap this) = toBld g1 := r1
  have eF : this.get_file = .ok this.file := rfl
  -- the model's loop succeeds (C09: `rewrite` never panics, `RwProofs.rewriteLoop_safe`)
  obtain ⟨b', hr⟩ : ∃ b', (toSMap this).rewriteLoop (rwOpts opts prefixes) (toSMap this).tokens
      (startB (toSMap this)) = .ok b' := by
    exact RwProofs.rewriteLoop_safe (toSMap this) (rwOpts opts prefixes) (toSMap this).tokens (startB (toSMap this))
      (fun k v hk => nomatch hk)
  -- the generated loop
  obtain ⟨hspec, hmap⟩ := rsTokens_spec this
  have hr' := hr
  rw [hstart, ← hmap] at hr' hsm
  have key := tie_rewrite_toks_along this { opts with strip_prefixes := prefixes } (Gen.RsTypes.rsTokens this) g1
    (fun t ht => ⟨(hspec t ht).1, (hspec t ht).2.1, hsc _ (hspec t ht).2.2⟩) hsm
  rw [rewriteG_strip_irrel] at key
  have hr'' : (toSMap this).rewriteLoop (toOpts { opts with strip_prefixes := prefixes })
      ((Gen.RsTypes.rsTokens this).map fun t => toTok t.raw) (toBld g1) = .ok b' := hr'
  rw [hr''] at key
  obtain ⟨g2, e2, r2⟩ := L16.ok_of_map_ok _ _ _ key
  subst r2
  -- the model side, once
  have hmodel : (toSMap this).rewriteWithMapping (rwOpts opts prefixes) =
      .ok ((if prefixes.isEmpty then toBld g2 else (toBld g2).stripPrefixes prefixes).intoSourcemap,
        (if prefixes.isEmpty then toBld g2 else (toBld g2).stripPrefixes prefixes).mapping) := by
    unfold SMap.rewriteWithMapping
    have hr3 : (toSMap this).rewriteLoop (rwOpts opts prefixes) (toSMap this).tokens
        { Bld.new (toSMap this).file with debugId := (toSMap this).debugId } = .ok (toBld g2) := hr
    simp only [hr3]
    rfl
  by_cases hp : prefixes = []
  · -- no prefixes: `strip_prefixes` is not called
    subst hp
    obtain ⟨m, e4, r4⟩ := tie_into_sourcemap { g2 with sources_mapping := [] } _ (brel_toBld _)
    refine ⟨m, g2.sources_mapping, _, ?_, hmodel, ?_⟩
    · unfold genRewriteWithMapping
      simp only [eF, e0, e1, e2, List.isEmpty_nil, Bool.not_true, Bool.false_eq_true, ↓reduceIte,
        SourceMapBuilder.take_mapping, e4]
    · rw [r4, intoSourcemap_take_mapping]
      rfl
  · have hne : prefixes.isEmpty = false := by
      cases prefixes with
      | nil => exact absurd rfl hp
      | cons _ _ => rfl
    obtain ⟨g3, e3, r3⟩ := tie_strip_prefixes g2 _ (brel_toBld g2) prefixes (hutf hp _ hr)
    obtain ⟨m, e4, r4⟩ := tie_into_sourcemap { g3 with sources_mapping := [] } _ (brel_toBld _)
    have r3' : (toBld g2).stripPrefixes prefixes = toBld g3 := r3
    refine ⟨m, g3.sources_mapping, (toBld g3).intoSourcemap, ?_, ?_, ?_⟩
    · unfold genRewriteWithMapping
      simp only [eF, e0, e1, e2, hne, Bool.not_false, ↓reduceIte, e3, SourceMapBuilder.take_mapping, e4]
    · rw [hmodel]
      simp only [hne, Bool.false_eq_true, ↓reduceIte, r3']
      rfl
    · rw [r4, intoSourcemap_take_mapping]

/-- **`rewrite` = `SMap.rewrite`** under the hypotheses of the pieces (see `tie_gen_rewrite_with_mapping_along`) -/
theorem tie_gen_rewrite_along (this : Gen.RsTypes.SourceMap) (opts : RewriteOptions) (prefixes : List (List Nat))
    (hsc : ∀ t ∈ this.tokens, t.src_col < 4294967296)
    (hsm : RwSmallAlong (toSMap this) (rwOpts opts prefixes) (toSMap this).tokens (startB (toSMap this)))
    (hutf : prefixes ≠ [] → ∀ b', (toSMap this).rewriteLoop (rwOpts opts prefixes) (toSMap this).tokens
        (startB (toSMap this)) = .ok b' → ∀ s ∈ b'.sources, rsUtf8Valid s = true) :
    ∃ m' sm', genRewrite this opts prefixes = .ok m' ∧ (toSMap this).rewrite (rwOpts opts prefixes) = .ok sm' ∧
      toSMap m' = sm' := by
  obtain ⟨m', mp, sm', e, hm, r⟩ := tie_gen_rewrite_with_mapping_along this opts prefixes hsc hsm hutf
  refine ⟨m', sm', ?_, ?_, r⟩
  · unfold genRewrite
    simp only [e]
  · unfold SMap.rewrite
    simp only [hm]

/-! ### hypotheses on the input map only -/

/-- the model's loop from the start state, for a map of at most `2^32 - 1` tokens: the final builder is small and
every source in it is a source name some token of the map resolves to (C09's loop invariant) -/
theorem rewriteLoop_start_facts (m : SMap) (o : RewriteOpts) (hlen : m.tokens.length ≤ 4294967295) :
    ∃ b', m.rewriteLoop o m.tokens (startB m) = .ok b' ∧ SmallB b' ∧
      ∀ s ∈ b'.sources, s ∈ m.prefixed.getD m.sources := by
  obtain ⟨b', hb', hinv⟩ := RwProofs.loop_inv m o m.tokens [] (startB m) (RwProofs.Inv.init m o)
    (by
      have hN : SmVerif.NONE = 4294967295 := rfl
      simp only [List.length_nil, Nat.zero_add, hN]
      exact hlen)
  rw [List.nil_append] at hinv
  refine ⟨b', hb', ⟨?_, ?_⟩, ?_⟩
  · have := hinv.srcs_len
    omega
  · have := hinv.names_len
    omega
  · intro s hs
    rw [RwProofs.mem_srcs_iff hinv, List.mem_filterMap] at hs
    obtain ⟨t, _, ht⟩ := hs
    unfold SMap.tokSource at ht
    split at ht
    · cases ht
    · exact List.mem_of_getElem? ht

/-- **`rewrite_with_mapping` = `SMap.rewriteWithMapping`**, hypotheses on the input map only.  Assumed, exactly:
* `hsc`  : every token's `src_col` is a `u32`;
* `hlen` : the map has at most `2^32 - 1` tokens (so the builder never holds `2^32` sources or names);
* `hutf` : only if `prefixes ≠ []` - the source strings of the map as `get_source` reads them (`sources_prefixed` if
  there is a source root, else `sources`) are valid UTF-8, the invariant of the Rust type `String`. -/
theorem tie_gen_rewrite_with_mapping (this : Gen.RsTypes.SourceMap) (opts : RewriteOptions)
    (prefixes : List (List Nat))
    (hsc : ∀ t ∈ this.tokens, t.src_col < 4294967296)
    (hlen : this.tokens.length ≤ 4294967295)
    (hutf : prefixes ≠ [] → ∀ s ∈ this.sources_prefixed.getD this.sources, rsUtf8Valid s = true) :
    ∃ m' mp sm', genRewriteWithMapping this opts prefixes = .ok (m', mp) ∧
      (toSMap this).rewriteWithMapping (rwOpts opts prefixes) = .ok (sm', mp) ∧ toSMap m' = sm' := by
  have hlen' : (toSMap this).tokens.length ≤ 4294967295 := by
    show (this.tokens.map toTok).length ≤ 4294967295
    rw [List.length_map]
    exact hlen
  obtain ⟨b', hb', hsmall, hsrc⟩ := rewriteLoop_start_facts (toSMap this) (rwOpts opts prefixes) hlen'
  refine tie_gen_rewrite_with_mapping_along this opts prefixes hsc
    (rwSmallAlong_of_final _ _ _ _ b' hb' hsmall) ?_
  intro hp b'' hb'' s hs
  rw [hb'] at hb''
  cases hb''
  exact hutf hp s (hsrc s hs)

/-- **`rewrite` = `SMap.rewrite`: the generated glue succeeds and its result is, through `toSMap`, the model's
result** for the options `rwOpts opts prefixes` (= `toOpts opts` with `stripPrefixes := prefixes`).  Assumed, exactly:
`hsc` every token's `src_col` is a `u32`; `hlen` at most `2^32 - 1` tokens; `hutf` (only if `prefixes ≠ []`) the
source strings `get_source` reads are valid UTF-8. -/
theorem tie_gen_rewrite (this : Gen.RsTypes.SourceMap) (opts : RewriteOptions) (prefixes : List (List Nat))
    (hsc : ∀ t ∈ this.tokens, t.src_col < 4294967296)
    (hlen : this.tokens.length ≤ 4294967295)
    (hutf : prefixes ≠ [] → ∀ s ∈ this.sources_prefixed.getD this.sources, rsUtf8Valid s = true) :
    ∃ m' sm', genRewrite this opts prefixes = .ok m' ∧ (toSMap this).rewrite (rwOpts opts prefixes) = .ok sm' ∧
      toSMap m' = sm' := by
  obtain ⟨m', mp, sm', e, hm, r⟩ := tie_gen_rewrite_with_mapping this opts prefixes hsc hlen hutf
  refine ⟨m', sm', ?_, ?_, r⟩
  · unfold genRewrite
    simp only [e]
  · unfold SMap.rewrite
    simp only [hm]

/-- without prefixes no UTF-8 hypothesis is needed -/
theorem tie_gen_rewrite_noprefix (this : Gen.RsTypes.SourceMap) (opts : RewriteOptions)
    (hsc : ∀ t ∈ this.tokens, t.src_col < 4294967296) (hlen : this.tokens.length ≤ 4294967295) :
    ∃ m' sm', genRewrite this opts [] = .ok m' ∧ (toSMap this).rewrite (rwOpts opts []) = .ok sm' ∧
      toSMap m' = sm' :=
  tie_gen_rewrite this opts [] hsc hlen (fun h => absurd rfl h)

/-- with the options' own prefix list (no `"~"` entry: the list is passed as it is) the model's options are
`toOpts opts` -/
theorem tie_gen_rewrite_opts (this : Gen.RsTypes.SourceMap) (opts : RewriteOptions)
    (hsc : ∀ t ∈ this.tokens, t.src_col < 4294967296) (hlen : this.tokens.length ≤ 4294967295)
    (hutf : opts.strip_prefixes ≠ [] → ∀ s ∈ this.sources_prefixed.getD this.sources, rsUtf8Valid s = true) :
    ∃ m' sm', genRewrite this opts opts.strip_prefixes = .ok m' ∧ (toSMap this).rewrite (toOpts opts) = .ok sm' ∧
      toSMap m' = sm' :=
  tie_gen_rewrite this opts opts.strip_prefixes hsc hlen hutf

/-- **transport**: whatever the generated glue returns is what the model returns -/
theorem gen_rewrite_model (this : Gen.RsTypes.SourceMap) (opts : RewriteOptions) (prefixes : List (List Nat))
    (hsc : ∀ t ∈ this.tokens, t.src_col < 4294967296) (hlen : this.tokens.length ≤ 4294967295)
    (hutf : prefixes ≠ [] → ∀ s ∈ this.sources_prefixed.getD this.sources, rsUtf8Valid s = true)
    (m' : Gen.RsTypes.SourceMap) (h : genRewrite this opts prefixes = .ok m') :
    (toSMap this).rewrite (rwOpts opts prefixes) = .ok (toSMap m') := by
  obtain ⟨m'', sm', e, hm, r⟩ := tie_gen_rewrite this opts prefixes hsc hlen hutf
  rw [h] at e
  cases e
  rw [hm, r]

/-- `wfMap` gives the token bound -/
theorem len_of_wfMap (this : Gen.RsTypes.SourceMap) (h : C09.wfMap (toSMap this)) :
    this.tokens.length ≤ 4294967295 := by
  have h2 : (this.tokens.map toTok).length < SmVerif.NONE := h.2
  rw [List.length_map] at h2
  have hN : SmVerif.NONE = 4294967295 := rfl
  omega

/-! ### C09 about the generated glue

Common hypotheses: `hsc` (source columns are `u32`), `hutf` (UTF-8 source strings, only when there are prefixes) and
either `hlen` (at most `2^32 - 1` tokens) or `hwf : wfMap (toSMap this)` (tokens ordered by generated position and
fewer than `2^32 - 1` of them - which gives `hlen`), as the C09 theorem has it. -/

/-- **the generated `rewrite` never panics** and returns a map -/
theorem gen_c09_whole_safe (this : Gen.RsTypes.SourceMap) (opts : RewriteOptions) (prefixes : List (List Nat))
    (hsc : ∀ t ∈ this.tokens, t.src_col < 4294967296) (hlen : this.tokens.length ≤ 4294967295)
    (hutf : prefixes ≠ [] → ∀ s ∈ this.sources_prefixed.getD this.sources, rsUtf8Valid s = true) :
    ∃ m', genRewrite this opts prefixes = .ok m' := by
  obtain ⟨m', _, e, _, _⟩ := tie_gen_rewrite this opts prefixes hsc hlen hutf
  exact ⟨m', e⟩

/-- **the result is ordered by generated position** (no well-formedness of the input needed) -/
theorem gen_c09_whole_sorted (this : Gen.RsTypes.SourceMap) (opts : RewriteOptions) (prefixes : List (List Nat))
    (hsc : ∀ t ∈ this.tokens, t.src_col < 4294967296) (hlen : this.tokens.length ≤ 4294967295)
    (hutf : prefixes ≠ [] → ∀ s ∈ this.sources_prefixed.getD this.sources, rsUtf8Valid s = true)
    (m' : Gen.RsTypes.SourceMap) (h : genRewrite this opts prefixes = .ok m') :
    Lookup.SortedByPos (toSMap m').tokens :=
  C09.c09_sorted _ _ _ (gen_rewrite_model this opts prefixes hsc hlen hutf m' h)

/-- **the token sequence**, read through `get_source` / `get_name`, is the old one with the prefix stripped from the
source name and the name dropped if names are off -/
theorem gen_c09_whole_tokens (this : Gen.RsTypes.SourceMap) (opts : RewriteOptions) (prefixes : List (List Nat))
    (hsc : ∀ t ∈ this.tokens, t.src_col < 4294967296) (hwf : C09.wfMap (toSMap this))
    (hutf : prefixes ≠ [] → ∀ s ∈ this.sources_prefixed.getD this.sources, rsUtf8Valid s = true)
    (m' : Gen.RsTypes.SourceMap) (h : genRewrite this opts prefixes = .ok m') :
    (toSMap m').tokens.map (RwSpec.view (toSMap m')) =
      (toSMap this).tokens.map fun t => RwSpec.xform opts.with_names prefixes (RwSpec.view (toSMap this) t) :=
  C09.c09_tokens _ _ hwf _ (gen_rewrite_model this opts prefixes hsc (len_of_wfMap this hwf) hutf m' h)

/-- **token count**: as many tokens out as in -/
theorem gen_c09_whole_token_count (this : Gen.RsTypes.SourceMap) (opts : RewriteOptions)
    (prefixes : List (List Nat))
    (hsc : ∀ t ∈ this.tokens, t.src_col < 4294967296) (hwf : C09.wfMap (toSMap this))
    (hutf : prefixes ≠ [] → ∀ s ∈ this.sources_prefixed.getD this.sources, rsUtf8Valid s = true)
    (m' : Gen.RsTypes.SourceMap) (h : genRewrite this opts prefixes = .ok m') :
    m'.tokens.length = this.tokens.length := by
  have ht := congrArg List.length (gen_c09_whole_tokens this opts prefixes hsc hwf hutf m' h)
  simp only [List.length_map] at ht
  have e1 : (toSMap m').tokens.length = m'.tokens.length := List.length_map _
  have e2 : (toSMap this).tokens.length = this.tokens.length := List.length_map _
  omega

/-- **per index**: token `i` keeps its generated position, original line and column and range flag; its source
resolves to the old source name minus the stripped prefix, its name to the old name (or nothing without names) -/
theorem gen_c09_whole_token_at (this : Gen.RsTypes.SourceMap) (opts : RewriteOptions) (prefixes : List (List Nat))
    (hsc : ∀ t ∈ this.tokens, t.src_col < 4294967296) (hwf : C09.wfMap (toSMap this))
    (hutf : prefixes ≠ [] → ∀ s ∈ this.sources_prefixed.getD this.sources, rsUtf8Valid s = true)
    (m' : Gen.RsTypes.SourceMap) (h : genRewrite this opts prefixes = .ok m')
    (i : Nat) (hi : i < (toSMap this).tokens.length) :
    ∃ hi' : i < (toSMap m').tokens.length,
      (toSMap m').tokens[i].dl = (toSMap this).tokens[i].dl ∧ (toSMap m').tokens[i].dc = (toSMap this).tokens[i].dc ∧
      (toSMap m').tokens[i].sl = (toSMap this).tokens[i].sl ∧ (toSMap m').tokens[i].sc = (toSMap this).tokens[i].sc ∧
      (toSMap m').tokens[i].rng = (toSMap this).tokens[i].rng ∧
      (toSMap m').tokSource (toSMap m').tokens[i] =
        ((toSMap this).tokSource (toSMap this).tokens[i]).map (RwSpec.strip prefixes) ∧
      (toSMap m').tokName (toSMap m').tokens[i] =
        (if opts.with_names then (toSMap this).tokName (toSMap this).tokens[i] else none) :=
  C09.c09_token_at _ _ hwf _ (gen_rewrite_model this opts prefixes hsc (len_of_wfMap this hwf) hutf m' h) i hi

/-- **`sources`** = the distinct source names in use, first use first, each with the prefix stripped; no prefixed
list (no source root) -/
theorem gen_c09_whole_sources (this : Gen.RsTypes.SourceMap) (opts : RewriteOptions) (prefixes : List (List Nat))
    (hsc : ∀ t ∈ this.tokens, t.src_col < 4294967296) (hwf : C09.wfMap (toSMap this))
    (hutf : prefixes ≠ [] → ∀ s ∈ this.sources_prefixed.getD this.sources, rsUtf8Valid s = true)
    (m' : Gen.RsTypes.SourceMap) (h : genRewrite this opts prefixes = .ok m') :
    m'.sources = (RwSpec.srcStrings (toSMap this)).map (RwSpec.strip prefixes) ∧ m'.sources_prefixed = none :=
  C09.c09_sources _ _ hwf _ (gen_rewrite_model this opts prefixes hsc (len_of_wfMap this hwf) hutf m' h)

/-- **`names`** = the distinct names in use, first use first; empty if names were dropped -/
theorem gen_c09_whole_names (this : Gen.RsTypes.SourceMap) (opts : RewriteOptions) (prefixes : List (List Nat))
    (hsc : ∀ t ∈ this.tokens, t.src_col < 4294967296) (hwf : C09.wfMap (toSMap this))
    (hutf : prefixes ≠ [] → ∀ s ∈ this.sources_prefixed.getD this.sources, rsUtf8Valid s = true)
    (m' : Gen.RsTypes.SourceMap) (h : genRewrite this opts prefixes = .ok m') :
    m'.names = if opts.with_names then RwSpec.nameStrings (toSMap this) else [] :=
  C09.c09_names _ _ hwf _ (gen_rewrite_model this opts prefixes hsc (len_of_wfMap this hwf) hutf m' h)

/-- **nothing unreferenced**: every source and every name of the generated result is used by one of its raw tokens -/
theorem gen_c09_whole_no_unreferenced (this : Gen.RsTypes.SourceMap) (opts : RewriteOptions)
    (prefixes : List (List Nat))
    (hsc : ∀ t ∈ this.tokens, t.src_col < 4294967296) (hwf : C09.wfMap (toSMap this))
    (hutf : prefixes ≠ [] → ∀ s ∈ this.sources_prefixed.getD this.sources, rsUtf8Valid s = true)
    (m' : Gen.RsTypes.SourceMap) (h : genRewrite this opts prefixes = .ok m') :
    (∀ j, j < m'.sources.length → ∃ t ∈ m'.tokens, t.src_id = j) ∧
    (∀ j, j < m'.names.length → ∃ t ∈ m'.tokens, t.name_id = j) := by
  obtain ⟨h1, h2⟩ := C09.c09_no_unreferenced _ _ hwf _
    (gen_rewrite_model this opts prefixes hsc (len_of_wfMap this hwf) hutf m' h)
  constructor
  · intro j hj
    obtain ⟨t, ht, e⟩ := h1 j hj
    obtain ⟨r, hr, rfl⟩ := List.mem_map.1 ht
    exact ⟨r, hr, e⟩
  · intro j hj
    obtain ⟨t, ht, e⟩ := h2 j hj
    obtain ⟨r, hr, rfl⟩ := List.mem_map.1 ht
    exact ⟨r, hr, e⟩

/-- **no duplicates**: `names` has none, `sources` has none before stripping (and none at all without prefixes) -/
theorem gen_c09_whole_no_dup (this : Gen.RsTypes.SourceMap) (opts : RewriteOptions) (prefixes : List (List Nat))
    (hsc : ∀ t ∈ this.tokens, t.src_col < 4294967296) (hwf : C09.wfMap (toSMap this))
    (hutf : prefixes ≠ [] → ∀ s ∈ this.sources_prefixed.getD this.sources, rsUtf8Valid s = true)
    (m' : Gen.RsTypes.SourceMap) (h : genRewrite this opts prefixes = .ok m') :
    (∃ pre : List Bytes, pre.Nodup ∧ m'.sources = pre.map (RwSpec.strip prefixes)) ∧ m'.names.Nodup ∧
    (prefixes = [] → m'.sources.Nodup) :=
  C09.c09_no_dup_before_strip _ _ hwf _
    (gen_rewrite_model this opts prefixes hsc (len_of_wfMap this hwf) hutf m' h)

/-- **contents kept**: with `with_source_contents`, the entry of new source `j` is the contents attached in the input
to its (pre-strip) name (`contentsFor`) -/
theorem gen_c09_whole_contents (this : Gen.RsTypes.SourceMap) (opts : RewriteOptions) (prefixes : List (List Nat))
    (hsc : ∀ t ∈ this.tokens, t.src_col < 4294967296) (hwf : C09.wfMap (toSMap this))
    (hutf : prefixes ≠ [] → ∀ s ∈ this.sources_prefixed.getD this.sources, rsUtf8Valid s = true)
    (m' : Gen.RsTypes.SourceMap) (h : genRewrite this opts prefixes = .ok m')
    (hc : opts.with_source_contents = true) :
    (toSMap m').sourceContents = (RwSpec.srcStrings (toSMap this)).map (RwSpec.contentsFor (toSMap this)) :=
  C09.c09_contents _ _ hwf _ (gen_rewrite_model this opts prefixes hsc (len_of_wfMap this hwf) hutf m' h) hc

/-- **contents dropped**: without `with_source_contents` no source of the result has contents -/
theorem gen_c09_whole_contents_dropped (this : Gen.RsTypes.SourceMap) (opts : RewriteOptions)
    (prefixes : List (List Nat))
    (hsc : ∀ t ∈ this.tokens, t.src_col < 4294967296) (hwf : C09.wfMap (toSMap this))
    (hutf : prefixes ≠ [] → ∀ s ∈ this.sources_prefixed.getD this.sources, rsUtf8Valid s = true)
    (m' : Gen.RsTypes.SourceMap) (h : genRewrite this opts prefixes = .ok m')
    (hc : opts.with_source_contents = false) : ∀ i, m'.get_source_contents i = .ok none := by
  intro i
  rw [tie_sm_get_source_contents]
  exact congrArg Except.ok (C09.c09_contents_dropped _ _ hwf _
    (gen_rewrite_model this opts prefixes hsc (len_of_wfMap this hwf) hutf m' h) hc i)

/-- **file and debug id are kept** (the generated fields themselves: `dbgEnc` is injective) -/
theorem gen_c09_whole_file_debugid (this : Gen.RsTypes.SourceMap) (opts : RewriteOptions)
    (prefixes : List (List Nat))
    (hsc : ∀ t ∈ this.tokens, t.src_col < 4294967296) (hwf : C09.wfMap (toSMap this))
    (hutf : prefixes ≠ [] → ∀ s ∈ this.sources_prefixed.getD this.sources, rsUtf8Valid s = true)
    (m' : Gen.RsTypes.SourceMap) (h : genRewrite this opts prefixes = .ok m') :
    m'.file = this.file ∧ m'.debug_id = this.debug_id := by
  obtain ⟨h1, h2⟩ := C09.c09_file_debugid _ _ hwf _
    (gen_rewrite_model this opts prefixes hsc (len_of_wfMap this hwf) hutf m' h)
  exact ⟨h1, map_dbgEnc_injective _ _ h2⟩

/-- **source root and ignore list are dropped** -/
theorem gen_c09_whole_root_ignore_dropped (this : Gen.RsTypes.SourceMap) (opts : RewriteOptions)
    (prefixes : List (List Nat))
    (hsc : ∀ t ∈ this.tokens, t.src_col < 4294967296) (hwf : C09.wfMap (toSMap this))
    (hutf : prefixes ≠ [] → ∀ s ∈ this.sources_prefixed.getD this.sources, rsUtf8Valid s = true)
    (m' : Gen.RsTypes.SourceMap) (h : genRewrite this opts prefixes = .ok m') :
    m'.source_root = none ∧ m'.ignore_list = [] :=
  C09.c09_root_ignore_dropped _ _ hwf _
    (gen_rewrite_model this opts prefixes hsc (len_of_wfMap this hwf) hutf m' h)

/-- **the source mapping** returned next to the map: entry `j` is the old id of the first token that used new source
`j`'s name (`closedMapping`), pairwise distinct, one per new source -/
theorem gen_c09_whole_mapping (this : Gen.RsTypes.SourceMap) (opts : RewriteOptions) (prefixes : List (List Nat))
    (hsc : ∀ t ∈ this.tokens, t.src_col < 4294967296) (hwf : C09.wfMap (toSMap this))
    (hutf : prefixes ≠ [] → ∀ s ∈ this.sources_prefixed.getD this.sources, rsUtf8Valid s = true) :
    ∃ m', genRewriteWithMapping this opts prefixes = .ok (m', RwProofs.closedMapping (toSMap this)) ∧
      (RwProofs.closedMapping (toSMap this)).Nodup ∧
      (RwProofs.closedMapping (toSMap this)).length = m'.sources.length := by
  obtain ⟨m', mp, sm', e, hm, r⟩ :=
    tie_gen_rewrite_with_mapping this opts prefixes hsc (len_of_wfMap this hwf) hutf
  obtain ⟨m2, hm2, hnd, hl, _⟩ := C09.c09_mapping (toSMap this) (rwOpts opts prefixes) hwf
  rw [hm] at hm2
  simp only [Except.ok.injEq, Prod.mk.injEq] at hm2
  obtain ⟨_, rfl⟩ := hm2
  refine ⟨m', e, hnd, ?_⟩
  have hs := (gen_c09_whole_sources this opts prefixes hsc hwf hutf m'
    (by unfold genRewrite; simp only [e])).1
  rw [hl, hs, List.length_map]

/-! ### non-vacuity: a concrete map -/

/-- sources "a/x" (contents "A") and "b" (none), root-less; names "n", "u"; three tokens, source 1 used first, the
name "u" unused, an ignore list and a debug id -/
def exWM : Gen.RsTypes.SourceMap :=
  { (default : SmVerif.Gen.RsTypes.SourceMap) with
    file := some [102],
    tokens := [⟨0, 0, 1, 1, 1, 0, false⟩, ⟨0, 4, 2, 2, 0, 4294967295, true⟩, ⟨1, 0, 3, 3, 1, 0, false⟩],
    names := [[110], [117]], sources := [[97, 47, 120], [98]], sources_content := [some [65]],
    ignore_list := [1], debug_id := some 3 }

def exWOpts : RewriteOptions := { with_names := true, with_source_contents := true, strip_prefixes := [[97]] }

/-- what the generated glue returns on `exWM`, prefix "a" (read as "a/") stripped: "b" first, "x" second; the unused
name, the ignore list gone; contents moved with their source -/
def exWOut : Gen.RsTypes.SourceMap :=
  { (default : SmVerif.Gen.RsTypes.SourceMap) with
    file := some [102],
    tokens := [⟨0, 0, 1, 1, 0, 0, false⟩, ⟨0, 4, 2, 2, 1, 4294967295, true⟩, ⟨1, 0, 3, 3, 0, 0, false⟩],
    names := [[110]], sources := [[98], [120]], sources_content := [none, some [65]],
    ignore_list := [], debug_id := some 3 }

theorem exWM_wf : C09.wfMap (toSMap exWM) := by
  refine ⟨?_, by decide⟩
  unfold Lookup.SortedByPos
  decide

/-- the hypotheses of `tie_gen_rewrite` (and `wfMap`) hold on `exWM` with the prefix list `[[97]]`, the generated glue
evaluates to `exWOut` with source mapping `[1, 0]` (and so does the model: next example) -/
example : (∀ t ∈ exWM.tokens, t.src_col < 4294967296) ∧ exWM.tokens.length ≤ 4294967295 ∧
    ([[97]] ≠ [] → ∀ s ∈ exWM.sources_prefixed.getD exWM.sources, rsUtf8Valid s = true) ∧
    C09.wfMap (toSMap exWM) ∧
    genRewriteWithMapping exWM exWOpts [[97]] = .ok (exWOut, [1, 0]) ∧
    genRewrite exWM exWOpts [[97]] = .ok exWOut :=
  ⟨by decide, by decide, fun _ => by decide, exWM_wf, rfl, rfl⟩

-- the theorems applied to it
example : (toSMap exWM).rewrite (rwOpts exWOpts [[97]]) = .ok (toSMap exWOut) :=
  gen_rewrite_model exWM exWOpts [[97]] (by decide) (by decide) (fun _ => by decide) exWOut rfl
example : ∃ m' sm', genRewrite exWM exWOpts [[97]] = .ok m' ∧
    (toSMap exWM).rewrite (rwOpts exWOpts [[97]]) = .ok sm' ∧ toSMap m' = sm' :=
  tie_gen_rewrite exWM exWOpts [[97]] (by decide) (by decide) (fun _ => by decide)
example : exWOut.source_root = none ∧ exWOut.ignore_list = [] :=
  gen_c09_whole_root_ignore_dropped exWM exWOpts [[97]] (by decide) exWM_wf (fun _ => by decide) exWOut rfl

#print axioms tie_gen_rewrite_with_mapping_along
#print axioms tie_gen_rewrite_along
#print axioms tie_gen_rewrite_with_mapping
#print axioms tie_gen_rewrite
#print axioms tie_gen_rewrite_noprefix
#print axioms tie_gen_rewrite_opts
#print axioms gen_rewrite_model
#print axioms gen_c09_whole_safe
#print axioms gen_c09_whole_sorted
#print axioms gen_c09_whole_tokens
#print axioms gen_c09_whole_token_count
#print axioms gen_c09_whole_token_at
#print axioms gen_c09_whole_sources
#print axioms gen_c09_whole_names
#print axioms gen_c09_whole_no_unreferenced
#print axioms gen_c09_whole_no_dup
#print axioms gen_c09_whole_contents
#print axioms gen_c09_whole_contents_dropped
#print axioms gen_c09_whole_file_debugid
#print axioms gen_c09_whole_root_ignore_dropped
#print axioms gen_c09_whole_mapping

end SmVerif.Tie
