import SmVerif.Rs.Prelude
/-
General lemmas about the prelude operations used by the tie unit "Serialize" (encoder.rs):
bit views (`rsViewBits`, `rsLoadLe`, `rsChunks`, `rsSetBit`, `rsResize`).
Names are suffixed/prefixed so that they do not clash with PreludeLemmas*.lean.
-/
namespace SmVerif.Rs
open SmVerif

/-! ### `rsLoadLe` -/

@[simp] theorem rsLoadLe_nil : rsLoadLe [] = 0 := rfl
theorem rsLoadLe_cons (b : Bool) (bs : List Bool) :
    rsLoadLe (b :: bs) = (if b then 1 else 0) + 2 * rsLoadLe bs := rfl

/-- an `n`-bit region loads a value below `2^n` -/
theorem rsLoadLe_lt : ∀ (bs : List Bool), rsLoadLe bs < 2 ^ bs.length := by
  intro bs
  induction bs with
  | nil => simp [rsLoadLe]
  | cons b bs ih =>
    rw [rsLoadLe_cons, List.length_cons, Nat.pow_succ]
    split <;> omega

/-! ### `rsChunks` -/

theorem rsChunks_nil {α} (n : Nat) : rsChunks n ([] : List α) = [] := by
  rw [rsChunks]; simp

theorem rsChunks_cons {α} (n : Nat) (hn : n ≠ 0) (x : α) (xs : List α) :
    rsChunks n (x :: xs) = (x :: xs).take n :: rsChunks n ((x :: xs).drop n) := by
  rw [rsChunks]
  simp [hn]

/-- every chunk is non-empty and at most `n` long -/
theorem rsChunks_mem_length {α} (n : Nat) (hn : n ≠ 0) :
    ∀ (k : Nat) (xs : List α), xs.length ≤ k → ∀ c ∈ rsChunks n xs, 0 < c.length ∧ c.length ≤ n := by
  intro k
  induction k with
  | zero =>
    intro xs hk c hc
    have : xs = [] := List.eq_nil_of_length_eq_zero (by omega)
    subst this
    rw [rsChunks_nil] at hc
    cases hc
  | succ k ih =>
    intro xs hk c hc
    cases xs with
    | nil => rw [rsChunks_nil] at hc; cases hc
    | cons x xs =>
      rw [rsChunks_cons n hn, List.mem_cons] at hc
      rcases hc with rfl | hc
      · simp only [List.length_take, List.length_cons]
        omega
      · refine ih _ ?_ c hc
        simp only [List.length_drop, List.length_cons] at hk ⊢
        omega

/-! ### `rsViewBits` -/

@[simp] theorem rsViewBits_nil : rsViewBits [] = [] := rfl
theorem rsViewBits_cons (b : Nat) (bs : List Nat) :
    rsViewBits (b :: bs) = (List.range 8).map (fun j => b.testBit j) ++ rsViewBits bs := rfl

theorem rsViewBits_length : ∀ (bs : List Nat), (rsViewBits bs).length = 8 * bs.length := by
  intro bs
  induction bs with
  | nil => rfl
  | cons b bs ih =>
    rw [rsViewBits_cons, List.length_append, ih, List.length_map, List.length_range, List.length_cons]
    omega

theorem rsViewBits_ne_nil (bs : List Nat) (h : bs ≠ []) : rsViewBits bs ≠ [] := by
  intro h0
  have := rsViewBits_length bs
  rw [h0] at this
  have : 0 < bs.length := List.length_pos_iff.mpr h
  simp only [List.length_nil] at *
  omega

theorem rsViewBits_append : ∀ (xs ys : List Nat), rsViewBits (xs ++ ys) = rsViewBits xs ++ rsViewBits ys := by
  intro xs ys
  induction xs with
  | nil => rfl
  | cons x xs ih => rw [List.cons_append, rsViewBits_cons, rsViewBits_cons, ih, List.append_assoc]

theorem rsViewBits_replicate_zero : ∀ (n : Nat), rsViewBits (List.replicate n 0) = List.replicate (8 * n) false := by
  intro n
  induction n with
  | zero => rfl
  | succ n ih =>
    rw [List.replicate_succ, rsViewBits_cons, ih]
    have : 8 * (n + 1) = 8 + 8 * n := by omega
    rw [this, ← List.replicate_append_replicate]
    rfl

/-! ### `rsResize` -/

theorem rsResize_grow {α} (xs : List α) (n : Nat) (x : α) (h : xs.length ≤ n) :
    rsResize xs n x = xs ++ List.replicate (n - xs.length) x := by
  unfold rsResize
  by_cases h' : n ≤ xs.length
  · have : n = xs.length := by omega
    subst this
    simp
  · simp only [h', ↓reduceIte]

/-! ### `rsSetBit` -/

/-- setting bit `i` of a byte is `| (1 << i)` -/
theorem setBit_byte_or : ∀ b, b < 256 → ∀ i, i < 8 →
    (if b.testBit i then b - 2 ^ i else b) + 2 ^ i = b ||| 2 ^ i := by
  decide +kernel

/-- setting bit `i` of a byte, on the byte's eight bits -/
theorem setBit_byte (b : Nat) (hb : b < 256) (i : Nat) (hi : i < 8) :
    ((if b.testBit i then b - 2 ^ i else b) + 2 ^ i < 256 ∧
      (List.range 8).map (fun j => ((if b.testBit i then b - 2 ^ i else b) + 2 ^ i).testBit j) =
        ((List.range 8).map (fun j => b.testBit j)).set i true) := by
  rw [setBit_byte_or b hb i hi]
  constructor
  · exact Nat.or_lt_two_pow (n := 8) hb (Nat.pow_lt_pow_right (by omega) hi)
  · apply List.ext_getElem
    · simp
    · intro j h1 h2
      simp only [List.length_map, List.length_range] at h1
      simp only [List.getElem_map, List.getElem_range, List.getElem_set, Nat.testBit_or, Nat.testBit_two_pow]
      by_cases hij : i = j
      · simp [hij]
      · simp [hij]

/-- `view_bits_mut().set(i, true)` inside the vector: the bit view changes at position `i` only; bytes stay bytes -/
theorem rsSetBit_true : ∀ (bytes : List Nat), (∀ b ∈ bytes, b < 256) → ∀ (i : Nat), i < 8 * bytes.length →
    ∃ bytes', rsSetBit bytes i true = .ok bytes' ∧ rsViewBits bytes' = (rsViewBits bytes).set i true ∧
      bytes'.length = bytes.length ∧ ∀ b ∈ bytes', b < 256 := by
  intro bytes
  induction bytes with
  | nil => intro _ i hi; simp at hi
  | cons b bs ih =>
    intro hb i hi
    have hb0 : b < 256 := hb b (List.mem_cons_self ..)
    have hbs : ∀ x ∈ bs, x < 256 := fun x hx => hb x (List.mem_cons_of_mem _ hx)
    by_cases h8 : i < 8
    · have hdiv : i / 8 = 0 := Nat.div_eq_of_lt h8
      have hmod : i % 8 = i := Nat.mod_eq_of_lt h8
      obtain ⟨hlt, hview⟩ := setBit_byte b hb0 i h8
      refine ⟨((if b.testBit i then b - 2 ^ i else b) + 2 ^ i) :: bs,
        by simp only [rsSetBit, hdiv, hmod, List.getElem?_cons_zero, List.set_cons_zero, ↓reduceIte],
        ?_, by simp, ?_⟩
      · rw [rsViewBits_cons, rsViewBits_cons, hview, List.set_append_left _ _ (by simp; exact h8)]
      · intro x hx
        rcases List.mem_cons.mp hx with rfl | hx
        · exact hlt
        · exact hbs x hx
    · have hi' : i - 8 < 8 * bs.length := by simp only [List.length_cons] at hi; omega
      obtain ⟨bs', hset, hview, hlen, hlt⟩ := ih hbs (i - 8) hi'
      have hdiv : i / 8 = (i - 8) / 8 + 1 := by omega
      have hmod : i % 8 = (i - 8) % 8 := by omega
      have hget : (b :: bs)[i / 8]? = bs[(i - 8) / 8]? := by rw [hdiv, List.getElem?_cons_succ]
      cases hbyte : bs[(i - 8) / 8]? with
      | none => simp only [rsSetBit, hbyte, reduceCtorEq] at hset
      | some byte =>
        simp only [rsSetBit, hbyte, ↓reduceIte, Except.ok.injEq] at hset
        refine ⟨b :: bs', ?_, ?_, by simp [hlen], ?_⟩
        · simp only [rsSetBit, hget, hbyte, ↓reduceIte, hmod, Except.ok.injEq]
          rw [hdiv, List.set_cons_succ, hset]
        · rw [rsViewBits_cons, rsViewBits_cons, hview, List.set_append_right _ _ (by simp; omega)]
          simp
        · intro x hx
          rcases List.mem_cons.mp hx with rfl | hx
          · exact hb0
          · exact hlt x hx

end SmVerif.Rs
